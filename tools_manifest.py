#!/usr/bin/env python3
"""Regenerates MANIFEST.json from the table below (keeps it schema-valid)."""
import json, os
HERE = os.path.dirname(os.path.abspath(__file__))
NOTE = ("Trusted: z3 5.1 / cvc5 1.0.3 verdicts; the pyvc executor's encoding of the Python subset "
        "(cross-checked against CPython on every explored path, every run); assumed contracts (A) of builtins, "
        "stdlib (re via pattern translation, Fraction, timedelta, deepcopy, textwrap, saxutils.escape) and "
        "bs4/lxml/cssutils; floats under the standard error model (binary64, round-to-nearest, no overflow); "
        "the bounded parts are run-time contract evaluation, never counted as proof. See evidence/<id>.json.")
CLAIMED = {
 "C08": ("lemmas over the proved C01/C02 time contracts discharged by the SMT solver + bounded run-time contracts on conversion chains through the real readers and writers",
         "P: resolution lemmas (one hop truncates to the format resolution, hops are idempotent, mixed ms/frame chains settle after one pass, frame numbers round-trip); B: caption sets through every single format, all 5x5 pairs and seeded chains of length 3-5, two passes: same cues, normalised text, times at the coarsest resolution, second pass changes nothing", "3 C08"),
 "C14": ("contract-based deductive verification of the language-selection helpers + bounded run-time contracts on multi-language sets through reference parsers and the real readers",
         "P: get_languages is insertion order, legacy force= selection, SAMI paragraph language resolution, skeleton contracts of the six writers' write methods (which languages, in which order, each with its own captions); B: 1-4 languages with interleaved / coinciding / disjoint / earlier / empty-first cue times: SAMI SYNC blocks non-decreasing with each paragraph under its class in the block of its start, DFXP one div per language in order, both read back equal; force= / lang= select the named language; xml:lang fallbacks; SAMI order of first appearance", "3 C14"),
 "C11": ("ground evaluation of the style mappings + contract-based deductive verification with loop invariants (span balance of the DFXP writers, alternation pass of the SCC reader) + bounded round trips through the real parsers",
         "P-ground: style dict <-> SAMI CSS / DFXP attributes / WebVTT tags for every flag subset; P (every node sequence): DFXP span markup balanced, SCC italics alternate after the redundancy pass; B: exhaustive instruction-node sequences through _format_italics (balanced, same italic text), flat spans through DFXP/SAMI/WebVTT round trips (same marked characters, balanced markup and style nodes)", "3 C11"),
 "C04": ("contract-based deductive verification of the WebVTT entity-decoding order on structured strings + bounded run-time contracts with independent serialisers",
         "P: WebVTT _decode decodes each reference between arbitrary safe text exactly once (ampersand last); B: exhaustive short cue texts against the cue-text rules, and documents of the five formats generated from an abstract model (entity spellings, style tags, voice tags, line-break markup, wrapped source lines) read back to the authored lines (one known finding: line break next to an inline element)", "3 C04"),
 "C07": ("contract-based deductive verification of the hand-written span markup (loop invariant, abstract markup counter) + bounded run-time contracts with a strict XML parser and reference-resolution checks",
         "P (every node sequence): DFXP and legacy DFXP text has balanced <span> markup and leaves no span open after a flat balanced caption; B: sets from all readers and API-built sets with hostile characters x three writers x options x force: strict XML, tt namespace, one div per language, one p per caption/run, unique ids, resolving references, every region referenced (two known findings)", "3 C07"),
 "C03": ("bounded run-time contracts with independent conformant parsers (the text path of the writers goes through bs4 / multi-character replace chains, outside the deductive subset); span-markup balance of the DFXP writer by loop invariant",
         "B: adversarial / metacharacter / Unicode lines x line-structure variants x seven writers parsed by reference parsers (strict XML, HTML, WebVTT, SRT, MicroDVD grammars); escape contracts exhaustive on short strings. P: <span> markup balance (see C07_spans)", "3 C03"),
 "C16": ("contract-based deductive verification with a loop invariant (correct_last_timing over a field-array heap) + bounded run-time conservation contracts on generated roll-up / paint-on programs",
         "P (any number of captions): forced timing correction ends every caption still being edited at the given time, so each roll-up caption ends exactly when the next begins; TimingCorrectingCaptionList.append / extend skeletons (kept captions in order, all parts of the previous caption closed once); B: roll-up (depth 2-4, fixed/moving base rows, doubled, drop/non-drop, gaps) and paint-on programs: every transmitted row exactly once, in order, kept together, ordered, start < end, end = next start", "3 C16"),
 "C05": ("ground evaluation over the CEA-608 code tables + contract-based deductive verification (position mapping, tracker transition function, loop-invariant proof of the italics alternation pass) + bounded programs against a reference CEA-608 decoder",
         "P-ground: character / PAC / tab-offset tables agree with CEA-608, doubled codes count once for every table word (PAC TO PAC TO as a unit), backspace / extended-character replacement; P: (row, col) -> safe-area percentages, position-tracker transitions, questions, acknowledgements and defaults for every state, italics nodes alternate after the redundancy pass for any node list; B: pop-on programs vs a reference decoder (one known finding: new caption one row below the previous one)", "3 C05"),
 "C17": ("ground evaluation over the code tables + contract-based deductive verification (AST->SMT VCs: symbolic string lengths, float standard model on the PASS 2-3 region) + bounded round trips through a reference CEA-608 decoder",
         "P-ground: every byte the writer can emit has odd parity, PAC rows 1-15, control words are the CEA-608 codes; P: half-word / word-boundary arithmetic of the code string, PASS 2-3 transmission times (words+8 frames early, erase line kept only if >3 frames before the next line, non-negative non-decreasing times) for two captions; B: timestamp formatting around every boundary, full round trips (reference decoder + own reader)", "3 C17"),
 "C06": ("contract-based deductive verification (AST->SMT VCs: float standard model for the timecode arithmetic, loop invariants over a field-array heap for the caption-list corrections) + bounded run-time contracts on generated pop-on programs",
         "P: timecode + frames -> microseconds (drop / non-drop 1001/1000, offset, floor at 0) within 16 ulp, get_time adds the counted frames, exactly one frame per word, gap under five frames closed / longer kept for any batch length (and on all parts of the previous caption: append / extend skeletons), trailing captions without end last four seconds for any list length; B: programs x drop/non-drop x doubled x inline/separate EDM x gaps x offsets against exact-rational reference timing (one known finding: offset beyond a caption end)", "3 C06"),
 "C10": ("frame / object-invariant obligations discharged by a syntactic effect checker over the real ASTs + bounded run-time history and isolation contracts incl. hash seeds",
         "P-frame: every attribute a reader.read() reads is plain configuration or assigned in that call before its first read (so earlier reads cannot influence it), no mutable default arguments, no module/class-level mutable state, no store to state of imported (third-party) objects, no iteration order from sets, parser helpers built per call; B: every order of two documents on one reader, edits of one result, interleaving across formats, four hash seeds", "3 C10"),
 "C09": ("frame (reads/modifies / object-invariant) obligations discharged by a syntactic effect checker over the real ASTs + bounded run-time snapshot and determinism contracts incl. hash seeds",
         "P-frame: every writer deep-copies its input before any impure use, every attribute a write() reads is configuration or assigned in that call first (so any interleaving of writes on one object behaves like a fresh writer), no iteration order from sets, no module/class-level mutable state; B: snapshots before/after, repeated / fresh / interleaved writes, four hash seeds", "3 C09"),
 "C20": ("contract-based deductive verification over abstract strings (AST->SMT VCs; a string is known only through uninterpreted observations) + exhaustive bounded enumeration of short strings",
         "P (every non-empty string): each reader.detect and detect_format never raise, and detect_format returns the first reader of the documented order whose detect accepts, else None; the empty string raises the no-captions error; B: all strings up to length 4 over the marker alphabet, writer outputs detected and read back, truncations at every byte", "3 C20"),
 "C15": ("contract-based deductive verification of the scan region with a loop invariant (array model of the defaultdict, spec fold ACC) + bounded run-time contracts on SCC streams",
         "P (any number of captions): after the scan every key holds the concatenation of the over-long lines of all captions with that start time, in order - nothing is lost when captions share a start time; B: streams in all three modes, rows of 0-40 chars, captions sharing a start time in every order: raise naming every long row iff some row exceeds 32", "3 C15"),
 "C19": ("contract-based deductive verification with loop invariants (AST->SMT VCs over z3 sequences and a field-array heap; spec folds) + exhaustive bounded enumeration of small lists",
         "P (unbounded list lengths): adjust_caption_timing maps every time to t*skew+offset, keeps exactly the non-negative starts in order, nodes untouched; merge joins all nodes separated by breaks with the first caption times/style; merge_concurrent_captions yields one merged caption per maximal run in order, inputs unmodified. B: all lists up to length 5 incl. idempotence and the two writers that use the merge", "3 C19"),
 "C12": ("contract-based deductive verification (AST->SMT VCs on the WebVTT cue-settings arithmetic and the DFXP layout/alignment attribute functions) + bounded DFXP write/read round trips",
         "P: WebVTT align/position/line/size arithmetic and order for every percentage layout with an origin (with and without fit-to-screen), verbatim cue settings, alignment external/internal identity, layout->region attributes incl. TTML padding order; B: DFXP round trip of layouts at all levels through the real parsers, cue grouping by layout", "3 C12"),
 "C13": ("contract-based deductive verification (AST->SMT VCs, float standard model, modular callee contracts) + bounded run-time contracts on the three positioning writers",
         "P: Size.as_percentage_of (exact arithmetic within 8 ulp, refusal, unit), axes of Point/Stretch/Padding/Layout, fit_to_screen edges, writer entry point, WebVTT never prints a non-percentage; B: DFXP/SAMI/WebVTT writers over units x values x video sizes x levels (one known finding: unfitted DFXP div region, pinned by a test)", "3 C13"),
 "C18": ("contract-based deductive verification (AST->SMT VCs on __eq__/__hash__/parsers, bottom-up with callee contracts; z3 regular-language equivalence for the size grammar) + bounded run-time contracts for float printing",
         "P: eq iff same class and components equal and equal => equal hash for the six classes (modular), receiver-unchanged frames of every transformer, Size.from_string language = grammar over the property alphabet, parsed value/unit, two-size and padding shorthand parsing; B: printing/re-parsing (dtoa) over a value grid, exhaustive short strings, pair grid", "3 C18"),
 "C02": ("contract-based deductive verification (AST->SMT VCs on the writers' time formatting functions) + bounded run-time contracts with reference parsers",
         "P: shared hh:mm:ss formatter, WebVTT timestamp, MicroDVD frames, SRT and MicroDVD _recreate_lang for any number of captions (loop invariants over z3 sequences), skeleton contracts of the SRT / MicroDVD / DFXP / SAMI write methods, DFXP p begin/end, SAMI sync decision per call - all for every instant below 24 h, int and SCC-style float times; B: all seven writers on generated caption sets parsed by independent reference parsers", "3 C02"),
 "C01": ("contract-based deductive verification (AST->SMT VCs on the reader time-expression functions) + bounded run-time contracts on whole documents",
         "P: SRT/WebVTT/DFXP (clock, frames, offset, begin+dur)/MicroDVD time functions proved for all inputs of the grammar shapes against exact denotations; B: whole-document reads incl. SAMI over generated documents", "3 C01"),
}
NA = {}
props = [json.loads(l) for l in open(os.path.join(HERE, "properties.jsonl"))]
checks, na = [], []
for p in props:
    pid = p["id"]
    if pid in CLAIMED:
        tech, text, ref = CLAIMED[pid]
        checks.append({
            "property_id": pid,
            "quick_cmd": f"./check {pid} --tier quick",
            "thorough_cmd": f"./check {pid} --tier thorough",
            "evidence_file": f"/verif/evidence/{pid}.json",
            "replay_cmd_template": "./check " + pid + " --replay {path}",
            "engine": "pyvc",
            "level_claimed": {"category": "other", "text": text + ". Level 'other' because proved functions and bounded clauses are mixed; the evidence file counts them separately.", "design_ref": "DESIGN.md section " + ref},
            "level_note": NOTE,
            "technique": tech,
        })
    else:
        na.append({"property_id": pid, "reason": NA.get(pid, "check not built yet in this session (in progress); will be claimed when its contracts discharge")})
m = {
 "version": 1,
 "setup_cmd": "./setup.sh",
 "hooks": {"guard": "PYCAPTION_VERIF", "enable": "no instrumentation hooks are needed: contracts are sidecars and /repo is read as is", "baseline_off_cmd": "cd /repo && /venv/bin/python -m pytest -ra -q -p no:cacheprovider --timeout=900 --continue-on-collection-errors", "source_commits": [], "add_only": True},
 "engines": [{"name": "pyvc", "path": "/verif/pyvc", "serves_properties": sorted(CLAIMED), "kind_free_text": "Python AST -> SMT verification-condition generator (symbolic-value interpreter over the real source, per-path VCs, z3 then cvc5), sidecar contracts in /verif/props, CPython cross-check and native replay of counter-models; plus ground evaluation over constant tables, a syntactic effect (frame) checker and a bounded run-time contract harness"}],
 "checks": checks,
 "notes": "Genuine defects repaired by fix: commits in /repo are listed in /verif/known_findings.json (fixed entries) and DESIGN.md section 5.",
 "not_applicable": na,
}
json.dump(m, open(os.path.join(HERE, "MANIFEST.json"), "w"), indent=1)
print("claimed", sorted(CLAIMED), "na", len(na))
