#!/bin/bash
# Builds /verif/.venv offline: python 3.12 (same interpreter as /venv) with z3-solver, cvc5,
# jsonschema, hypothesis, icontract, crosshair-tool from the wheelhouse, plus a .pth that exposes
# /venv's site-packages (bs4, lxml, cssutils; pycaption itself is resolved from VERIF_REPO first).
set -e
cd "$(dirname "$0")"
if [ -x .venv/bin/python ] && .venv/bin/python -c "import z3, bs4, lxml, jsonschema" 2>/dev/null; then
    echo "setup: .venv already usable"; exit 0
fi
rm -rf .venv
/venv/bin/python -m venv .venv
PIP_NO_INDEX=1 .venv/bin/pip install -q --no-index --find-links /opt/veriftools/wheels \
    z3-solver cvc5 jsonschema hypothesis icontract crosshair-tool >/dev/null
SP=$(.venv/bin/python -c "import site; print(site.getsitepackages()[0])")
echo "import site; site.addsitedir('/venv/lib/python3.12/site-packages')" > "$SP/repo_deps.pth"
.venv/bin/python -c "import z3, bs4, lxml, jsonschema; print('setup: ok, z3', z3.get_version_string())"
