#!/bin/bash
# usage: tools/round.sh <dir-with-_mutants> ...   confirm the candidate changes and run the own-property check on each
cd "$(dirname "$0")/.."
python3 tools/confirm_seeded.py "$@" 2>&1 | grep -E "CONFIRMED|REJECTED|DOES NOT"
for d in "$@"; do
  for m in $(ls "$d" | grep -E '^C[0-9]{2}-[0-9]+$'); do
    [ -d seeded/$m ] || continue
    p=${m%%-*}
    S=/var/tmp/rd-$m; rm -rf $S; mkdir -p $S; cp -r /repo/pycaption $S/
    (cd $S && patch -p1 -s -i /verif/seeded/$m/patch.diff >/dev/null 2>&1) || { echo "$m PATCH DOES NOT APPLY"; rm -rf $S; continue; }
    out=$(VERIF_REPO=$S timeout 900 ./check $p 2>&1 | tail -1)
    echo "$m $p $(echo "$out" | grep -o 'undecided.*')"
    rm -rf $S
  done
done
