#!/usr/bin/env python3
"""Run checks against seeded changes on scratch copies of /repo (never in /repo itself).
usage: run_seeded.py [--props C01,C02|target|all] [--tier quick] [ids...]
Prints one line per (seed, property): exit code and VIOLATION lines."""
import argparse, json, os, shutil, subprocess, sys, re
from concurrent.futures import ThreadPoolExecutor
VERIF = os.path.dirname(os.path.dirname(os.path.abspath(__file__)))
RESULTS = []

def claimed():
    m = json.load(open(os.path.join(VERIF, "MANIFEST.json")))
    return [c["property_id"] for c in m["checks"]]

SNAP = None


def snapshot():
    """checks run from a private copy of /verif so that editing /verif meanwhile cannot disturb them"""
    global SNAP
    SNAP = f"/var/tmp/verif-snap-{os.getpid()}"
    shutil.rmtree(SNAP, ignore_errors=True)
    os.makedirs(SNAP)
    if os.environ.get("RUN_SEEDED_WORKTREE") == "1":
        subprocess.run(["rsync", "-a", "--exclude", ".venv", "--exclude", "replays", "--exclude", ".git", "--exclude", "__pycache__",
                        VERIF + "/", SNAP + "/"], check=True)
    else:
        # the committed state (always consistent, unlike a working tree that is being edited)
        subprocess.run(f"git -C {VERIF} archive HEAD | tar -x -C {SNAP}", shell=True, check=True)
    os.symlink(os.path.join(VERIF, ".venv"), os.path.join(SNAP, ".venv"))
    return SNAP


def run_one(seed_dir, name, props, tier):
    scratch = f"/var/tmp/vr-{name}"
    shutil.rmtree(scratch, ignore_errors=True)
    os.makedirs(scratch)
    try:
        subprocess.run(["cp", "-r", "/repo/pycaption", scratch + "/pycaption"], check=True)
        r = subprocess.run(["patch", "-p1", "-s", "-i", os.path.join(seed_dir, "patch.diff")], cwd=scratch, capture_output=True, text=True)
        if r.returncode != 0:
            return [(name, "-", "patch failed: " + (r.stdout + r.stderr)[:200])]
        out = []
        for p in props:
            env = dict(os.environ, VERIF_REPO=scratch, VERIF_TIER=tier)
            r = subprocess.run([os.path.join(SNAP or VERIF, "check"), p, "--tier", tier], cwd=SNAP or VERIF, env=env, capture_output=True, text=True)
            lines = [l for l in r.stdout.splitlines() if l.startswith(("VIOLATION", "CHECKER-ERROR", "KNOWN-FINDING"))]
            und = sum(l.startswith("UNDECIDED") for l in r.stdout.splitlines())
            viol = sorted({re.sub(r"-[0-9a-f]{10}\.json.*$", "", l.split("replay=replays/")[1]) for l in lines if l.startswith("VIOLATION") and "replay=replays/" in l})
            RESULTS.append({"change": name, "property": p, "exit": r.returncode, "undecided": und, "violated_obligations": viol,
                            "no_failing_input_found": sum("no-failing-input-found" in l for l in lines)})
            out.append((name, p, f"exit={r.returncode} undecided={und} " + " | ".join(l[:110] for l in lines[:3])))
        return out
    finally:
        shutil.rmtree(scratch, ignore_errors=True)

def main():
    ap = argparse.ArgumentParser()
    ap.add_argument("--props", default="target")
    ap.add_argument("--tier", default="quick")
    ap.add_argument("--dir", default=os.path.join(VERIF, "seeded"))
    ap.add_argument("--json", default=None, help="write the full result matrix to this file")
    ap.add_argument("--workers", type=int, default=6)
    ap.add_argument("ids", nargs="*")
    a = ap.parse_args()
    a.dir = os.path.abspath(a.dir)
    cl = claimed()
    jobs = []
    for name in sorted(os.listdir(a.dir)):
        if a.ids and not any(name.startswith(i) for i in a.ids):
            continue
        d = os.path.join(a.dir, name)
        if not os.path.exists(os.path.join(d, "patch.diff")):
            continue
        if a.props == "target":
            try:
                tp = json.load(open(os.path.join(d, "meta.json"))).get("property") or name[:3]
            except Exception:
                tp = name[:3]
            if name.startswith("revert-"):
                # reverse patch of a fix commit: its property is recorded in known_findings.json
                sha = name.split("-", 1)[1]
                kf = json.load(open(os.path.join(VERIF, "known_findings.json")))
                for line in kf.get("fixed", []):
                    if f" {sha} " in line:
                        tp = line.split("property=")[1].split()[0]
            extra = json.load(open(os.path.join(d, "meta.json"))).get("also_check", []) if os.path.exists(os.path.join(d, "meta.json")) else []
            props = [p for p in [tp] + extra if p in cl]
        elif a.props == "all":
            props = cl
        else:
            props = [p for p in a.props.split(",") if p in cl]
        if props:
            jobs.append((d, name, props))
    snapshot()
    try:
        run_jobs(a, jobs)
    finally:
        shutil.rmtree(SNAP, ignore_errors=True)


def run_jobs(a, jobs):
    with ThreadPoolExecutor(max_workers=a.workers) as ex:
        for res in ex.map(lambda j: run_one(j[0], j[1], j[2], a.tier), jobs):
            for name, p, txt in res:
                print(f"{name:12s} {p:4s} {txt}")
    if a.json:
        json.dump(sorted(RESULTS, key=lambda r: (r["change"], r["property"])), open(a.json, "w"), indent=1)

if __name__ == "__main__":
    main()
