#!/usr/bin/env python3
"""Regenerate the stored patches that no longer apply exactly (`git apply --check`) to /repo's HEAD but still apply
with patch(1)'s offset / fuzz matching, e.g. after a fix: commit touched a neighbouring line.
Usage: tools/rebase_seeded.py [dir ...]   (default: seeded selftest/reverts selftest/refactors)"""
import os, subprocess, sys, shutil, tempfile
VERIF = os.path.dirname(os.path.dirname(os.path.abspath(__file__)))

def sh(cmd, cwd=None):
    r = subprocess.run(cmd, shell=True, cwd=cwd, capture_output=True, text=True)
    return r.returncode, r.stdout + r.stderr

def main(dirs):
    base = tempfile.mkdtemp(prefix="rebase-", dir="/var/tmp")
    try:
        sh(f"git -C /repo archive HEAD | tar x -C {base}")
        sh("git init -q . && git add -A && git -c user.email=a@b -c user.name=x commit -qm base", cwd=base)
        for d in dirs:
            for name in sorted(os.listdir(os.path.join(VERIF, d))):
                patch = os.path.join(VERIF, d, name, "patch.diff")
                if not os.path.exists(patch):
                    continue
                rc, _ = sh(f"git apply --check {patch}", cwd=base)
                if rc == 0:
                    continue
                rc, out = sh(f"patch -p1 -s -i {patch}", cwd=base)
                if rc != 0:
                    print(name, "DOES NOT APPLY EVEN WITH FUZZ")
                else:
                    _, diff = sh("git diff", cwd=base)
                    open(patch, "w").write(diff)
                    print(name, "regenerated")
                sh("git checkout -q -- . && git clean -fdq", cwd=base)
    finally:
        shutil.rmtree(base, ignore_errors=True)

if __name__ == "__main__":
    main(sys.argv[1:] or ["seeded", "selftest/reverts", "selftest/refactors"])
