#!/usr/bin/env python3
"""Confirm candidate seeded changes (from independent sub-agents) in a scratch worktree and copy the
confirmed ones to /verif/seeded/<id>/.  Usage: confirm_seeded.py <dir-with-_mutants> ..."""
import json, os, shutil, subprocess, sys
VERIF = os.path.dirname(os.path.dirname(os.path.abspath(__file__)))
WT = "/var/tmp/seed-wt"

def sh(cmd, cwd=None, env=None):
    e = dict(os.environ); e.update(env or {})
    r = subprocess.run(cmd, shell=True, cwd=cwd, env=e, capture_output=True, text=True)
    return r.returncode, (r.stdout + r.stderr)

def main(dirs):
    sh(f"git -C /repo worktree remove --force {WT}")
    rc, out = sh(f"git -C /repo worktree add -q --detach {WT} HEAD")
    assert rc == 0, out
    head = sh("git -C /repo rev-parse --short HEAD")[1].strip()
    try:
        for d in dirs:
            for name in sorted(os.listdir(d)):
                src = os.path.join(d, name)
                patch = os.path.join(src, "patch.diff")
                if not os.path.exists(patch):
                    continue
                res = {"repo_head": head}
                rc, out = sh(f"git apply {patch}", cwd=WT)
                res["applies"] = rc == 0
                if rc != 0:
                    print(name, "PATCH DOES NOT APPLY", out[:200]); continue
                rc, out = sh("/venv/bin/python -m pytest -q -p no:cacheprovider --continue-on-collection-errors -W ignore 2>&1 | tail -1", cwd=WT)
                res["tests_with_change"] = out.strip()
                shutil.copy(os.path.join(src, "demo.py"), os.path.join(WT, "_demo.py"))
                rc1, out1 = sh("/venv/bin/python _demo.py", cwd=WT, env={"PYTHONPATH": WT})
                res["demo_with_change_exit"] = rc1
                res["demo_with_change_tail"] = out1.strip()[-400:]
                sh("git checkout -- . ", cwd=WT)
                rc2, out2 = sh("/venv/bin/python _demo.py", cwd=WT, env={"PYTHONPATH": WT})
                res["demo_without_change_exit"] = rc2
                os.remove(os.path.join(WT, "_demo.py"))
                ok = "217 passed" in res["tests_with_change"] and rc1 == 1 and rc2 == 0
                res["confirmed"] = ok
                print(name, "CONFIRMED" if ok else "REJECTED", res["tests_with_change"], rc1, rc2)
                if ok:
                    dst = os.path.join(VERIF, "seeded", name)
                    os.makedirs(dst, exist_ok=True)
                    for f in ("patch.diff", "demo.py"):
                        shutil.copy(os.path.join(src, f), os.path.join(dst, f))
                    try:
                        meta = json.load(open(os.path.join(src, "meta.json")))
                    except Exception:
                        meta = {}
                    meta["source"] = "independent sub-agent given only the property text and its own worktree"
                    meta["what_i_ran"] = res
                    json.dump(meta, open(os.path.join(dst, "meta.json"), "w"), indent=1)
    finally:
        sh(f"git -C /repo worktree remove --force {WT}")

if __name__ == "__main__":
    main(sys.argv[1:])
