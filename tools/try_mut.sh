#!/bin/bash
# usage: tools/try_mut.sh <change-id> [property]  - apply a stored change to a scratch copy and run one check on it
cd "$(dirname "$0")/.."
m=$1; p=${2:-${m%%-*}}
d=seeded/$m; [ -d $d ] || d=selftest/reverts/$m; [ -d $d ] || d=selftest/refactors/$m
S=/var/tmp/tm-$m-$$; rm -rf $S; mkdir -p $S; cp -r /repo/pycaption $S/
(cd $S && patch -p1 -s -i /verif/$d/patch.diff >/dev/null 2>&1) || { echo "$m PATCH DOES NOT APPLY"; rm -rf $S; exit 2; }
out=$(VERIF_REPO=$S timeout 900 ./check $p 2>&1)
echo "$m $p $(echo "$out" | tail -1 | grep -o 'undecided.*')"
[ -n "$VERBOSE" ] && echo "$out" | grep -E "VIOLATION|UNDECIDED" | cut -c1-200 | head -${VERBOSE}
rm -rf $S
