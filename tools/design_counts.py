#!/usr/bin/env python3
"""Refresh the 'counts, time' column of the per-property table in DESIGN.md (section 3) from evidence/<id>.json."""
import json, os, re
V = os.path.dirname(os.path.dirname(os.path.abspath(__file__)))
p = os.path.join(V, "DESIGN.md")
s = open(p).read()


def fmt(n):
    return f"{n:,}".replace(",", " ")


for k in range(1, 21):
    pid = f"C{k:02d}"
    ev = json.load(open(os.path.join(V, "evidence", pid + ".json")))
    cov = ev["coverage"]
    cell = f"{fmt(cov.get('solver_vcs', 0))} / {fmt(cov.get('ground_obligations', 0))} / {fmt(cov.get('evaluations', 0))}, {round(ev['wall_s'])} s"
    pat = re.compile(r"^(\| %s \|.*\| )[^|]*( \|)$" % pid, re.M)
    m = pat.search(s)
    if not m:
        print("row not found", pid)
        continue
    s = s[:m.start()] + m.group(1) + cell + m.group(2) + s[m.end():]
    print(pid, ev["tier"], cell)
open(p, "w").write(s)
