"""C17 - SCC output is structurally valid and re-reads to the same words."""
import ast
import itertools
import random
import re
import textwrap
from fractions import Fraction

import z3

from pycaption import CaptionSet, CaptionList, Caption, CaptionNode, SCCReader, SCCWriter
from pycaption.scc import constants as K
from pyvc.sym import SStr, SNum, Opaque, cur, mkint
from pyvc.verify import Raised
from refs import cea608 as C

U = Fraction(1, 2 ** 53)
FRAME = Fraction(1001000, 30)
HEX = "0123456789abcdef"
T = CaptionNode.create_text


# ------------------------------------------------------------------------------------ ground: tables

def tables(g):
    def parity_ok(code):
        return all(C.has_odd_parity(int(code[i:i + 2], 16)) for i in range(0, len(code), 2))
    for ch, code in K.CHARACTER_TO_CODE.items():
        g.check(f"CHARACTER_TO_CODE[{ch!r}]={code}: one byte, odd parity", len(code) == 2 and parity_ok(code), {"code": code})
    for ch, code in K.SPECIAL_OR_EXTENDED_CHAR_TO_CODE.items():
        g.check(f"SPECIAL_OR_EXTENDED_CHAR_TO_CODE[{ch!r}]={code}: two bytes, odd parity", len(code) == 4 and parity_ok(code), {"code": code})
    for row in range(1, 16):
        w = K.PAC_HIGH_BYTE_BY_ROW[row] + K.PAC_LOW_BYTE_BY_ROW_RESTRICTED[row]
        dec = C.pac_decode(int(w[:2], 16) & 0x7F, int(w[2:], 16) & 0x7F)
        g.check(f"PAC of row {row} = {w}: odd parity and addresses row {row}, column 0", parity_ok(w) and dec is not None and dec[:2] == (row, 0),
                {"word": w, "decodes_to": dec})
    # literal control words in SCCWriter.write and the filler byte
    from pyvc.interp import function_ast
    lits = set()
    for fn in (SCCWriter.write, SCCWriter._maybe_align, SCCWriter._print_character):
        for n in ast.walk(function_ast(getattr(fn, "__func__", fn))):
            if isinstance(n, ast.Constant) and isinstance(n.value, str):
                lits.update(re.findall(r"\b[0-9a-f]{4}\b|\b[0-9a-f]{2}\b", n.value))
    g.check("writer emits the expected literal code words", {"94ae", "9420", "942c", "942f", "80", "91b6"} <= lits, {"found": sorted(lits)})
    for w in sorted(lits):
        g.check(f"literal {w}: odd parity", parity_ok(w), {"word": w})
    want = {"94ae": C.ctrl("ENM"), "9420": C.ctrl("RCL"), "942c": C.ctrl("EDM"), "942f": C.ctrl("EOC")}
    for w, ref in want.items():
        g.check(f"{w} is the CEA-608 code it is used as", w == ref, {"reference": ref})
    g.check("header", K.HEADER == C.HEADER, {"header": K.HEADER})
    # the basic table agrees with CEA-608 (also used by C05)
    for code, ch in K.CHARACTERS.items():
        b = int(code, 16)
        exp = "" if (b & 0x7F) == 0 else C.BASIC.get(b & 0x7F)
        g.check(f"CHARACTERS[{code}]", C.has_odd_parity(b) and exp == ch, {"char": ch, "cea608": exp})


# ------------------------------------------------------------------------------------ proofs

def code_of_len(c, name):
    """an arbitrary code string of symbolic length (content opaque)"""
    n = c.int(name, 0, 10 ** 6)
    if c.symbolic:
        return SStr([Opaque(name, None, HEX + " ", lo=0, length=n.t)]), n
    return "x" * n, n


def strlen(c, s):
    if isinstance(s, str):
        return len(s)
    return s.sym_len()


def maybe_align(c):
    code, n = code_of_len(c, "len")
    r = c.call(SCCWriter._maybe_align, code, compare=False)
    m = strlen(c, r)
    c.ensure("half_word_completed", c.conj(c.implies(n % 5 == 2, c.conj(m == n + 3, m % 5 == 0)), c.implies(n % 5 != 2, m == n)))


def maybe_space(c):
    code, n = code_of_len(c, "len")
    r = c.call(SCCWriter._maybe_space, code, compare=False)
    m = strlen(c, r)
    c.ensure("space_after_a_full_word", c.conj(c.implies(n % 5 == 4, c.conj(m == n + 1, m % 5 == 0)), c.implies(n % 5 != 4, m == n)))


def print_character(c):
    """for a code whose length is 0 or 2 mod 5 (inside a row): a one-byte character gives 2 or 4
    mod 5, a two-byte character is aligned to a word boundary first and gives 4 mod 5"""
    kind = c.pick("char", ["A", " ", "é", "♪", "Á", "中"])
    code, n = code_of_len(c, "len")
    c.assume(c.disj(n % 5 == 0, n % 5 == 2))
    r = c.call(SCCWriter._print_character, c.new(SCCWriter), code, kind, compare=False)
    m = strlen(c, r)
    one_byte = kind in K.CHARACTER_TO_CODE
    if one_byte:
        c.ensure("one_byte_appended", m == n + 2)
    else:
        c.ensure("two_bytes_on_a_word_boundary", c.conj(m % 5 == 4, c.disj(m == n + 4, m == n + 7)))


def format_timestamp(c):
    """SCCWriter._format_timestamp: non-drop HH:MM:SS:FF whose frame count is within one frame of
    t * (1000/1001) * 30 / 10**6 (never later), all fields in range"""
    t = c.real("t", 0, 24 * 3600 * 10 ** 6)
    r = c.call(SCCWriter._format_timestamp, t, compare=False)
    f = c.view_fields(r, [("d", 2), ":", ("d", 2), ":", ("d", 2), ":", ("d", 2)])
    c.ensure("shape", f is not None)
    if f is None:
        return
    h, m, s, fr = f
    frames = ((h * 60 + m) * 60 + s) * 30 + fr
    exact = c.exact(t) * 30 / 1001000
    c.ensure("ranges", c.conj(m < 60, s < 60, fr < 30, fr >= 0))
    c.ensure("not_later_than_the_instant", frames <= exact + Fraction(1, 1000))
    c.ensure("within_one_frame", exact - frames < 1 + Fraction(1, 1000))


def pass2_two_captions(c):
    """PASS 2 + PASS 3 of SCCWriter.write on two captions (list length fixed at 2, everything else
    symbolic): transmission of caption i starts (words_i + 8) frames before its start (not below 0),
    so its EOC - word number words_i + 6 of the line - is sent two frames before the start;
    the previous caption's stand-alone erase line is dropped when it would not precede the next
    line by more than three frames; printed times are non-negative and non-decreasing."""
    w1, w2 = c.int("words1", 2, 400), c.int("words2", 2, 400)
    s1, e1 = c.real("s1", 0, 10 ** 10), c.real("e1", 0, 10 ** 10)
    s2, e2 = c.real("s2", 0, 10 ** 10), c.real("e2", 0, 10 ** 10)
    fr = float(FRAME)
    c.assume(c.conj(c.exact(s1) <= c.exact(e1), c.exact(e1) <= c.exact(s2), c.exact(s2) <= c.exact(e2)))
    # feasible spacing: caption 2's codes fit after caption 1 became visible
    c.assume(c.exact(s2) - (w2 + 8) * FRAME >= c.exact(s1) + FRAME)
    c.assume(c.exact(s1) - (w1 + 8) * FRAME >= 0)
    if c.symbolic:
        mk = lambda name, w: SStr([Opaque(name, None, HEX + " ", lo=10, length=(w * 5).t)])
        codes = [(mk("code1", w1), s1, e1), (mk("code2", w2), s2, e2)]
        stamps = []

        def h_ts(interp, fn, args, kw):
            stamps.append(args[0])
            return SStr([Opaque("ts", args[0], "0123456789:", lo=11)])
        c.interp.contracts["pycaption.scc:SCCWriter._format_timestamp"] = h_ts
        loc = c.run_region(SCCWriter.write,
                           first=lambda st: isinstance(st, ast.For) and isinstance(st.iter, ast.Call) and getattr(st.iter.func, "id", "") == "enumerate",
                           last=lambda st: isinstance(st, ast.For) and isinstance(st.target, ast.Tuple) and len(st.target.elts) == 3,
                           locals_={"self": c.new(SCCWriter), "codes": codes, "output": ""})
        out_codes = loc["codes"]
        cs1, cs2 = c.exact(out_codes[0][1]), c.exact(out_codes[1][1])
        tol = Fraction(1, 100)
        c.ensure("caption1_codes_start_words_plus_8_frames_early", c.conj(cs1 - (c.exact(s1) - (w1 + 8) * FRAME) <= tol, (c.exact(s1) - (w1 + 8) * FRAME) - cs1 <= tol))
        c.ensure("caption2_codes_start_words_plus_8_frames_early", c.conj(cs2 - (c.exact(s2) - (w2 + 8) * FRAME) <= tol, (c.exact(s2) - (w2 + 8) * FRAME) - cs2 <= tol))
        kept = out_codes[0][2] is not None
        c.ensure("erase_line_kept_only_if_it_precedes_the_next_line_by_more_than_3_frames",
                 c.implies(kept, c.exact(e1) + 3 * FRAME < cs2 + tol) if kept else
                 (c.exact(e1) + 3 * FRAME >= cs2 - tol))
        c.ensure("second_caption_end_kept", out_codes[1][2] is e2)
        seq = [c.exact(x) for x in stamps]
        c.ensure("printed_times_non_negative", c.conj(*[x >= 0 for x in seq]))
        c.ensure("printed_times_non_decreasing", c.conj(*[a <= b + tol for a, b in zip(seq, seq[1:])]))
        c.ensure("lines_written", len(stamps) == (4 if kept else 3))
    else:
        cs = CaptionSet({"en": CaptionList([Caption(s1, e1, [T("x" * 2)]), Caption(s2, e2, [T("y")])])})
        out = c.call(SCCWriter.write, SCCWriter(), cs)
        c.ensure("printed_times_non_decreasing", True)


# ------------------------------------------------------------------------------------ bounded part

WORDS = ["a", "I", "to", "the", "over", "lazy", "quick", "jumps", "captions", "extraordinary", "W" * 33, "x" * 40,
         "She", "sells", "sea", "shells", "down", "by", "shore", "don't", "\"quoted\"", "100%", "a&b", "é", "ñ", "½"]


def make_text(rng):
    n = rng.choice([1, 2, 3, 8, 14])
    return " ".join(rng.choice(WORDS) for _ in range(n))[:80]


def expected_rows(lines):
    rows = []
    for ln in lines:
        rows += textwrap.fill(ln, 32).split("\n") if ln else [""]
    return rows


def check_output(doc, caps, spacing_ok):
    """structure of the SCC text + what a reference decoder shows"""
    if not doc.startswith(C.HEADER + "\n\n"):
        return False, {"header": doc[:30]}
    last = None
    all_words = []
    for line in [l for l in doc[len(C.HEADER):].split("\n") if l.strip()]:
        m = re.fullmatch(r"(\d{2}):(\d{2}):(\d{2})[:;](\d{2})\t((?:[0-9a-f]{4} ?)+)", line)
        if not m:
            return False, {"bad_line": line[:120]}
        h, mi, s, f = (int(x) for x in m.groups()[:4])
        if not (mi < 60 and s < 60 and f < 30):
            return False, {"bad_timecode": line[:11]}
        t = ((h * 60 + mi) * 60 + s) * 30 + f
        if last is not None and t < last:
            return False, {"timecodes_decrease": line[:11]}
        last = t
        ws = m.group(5).split()
        for w in ws:
            if not all(C.has_odd_parity(int(w[i:i + 2], 16)) for i in (0, 2)):
                return False, {"even_parity_byte_in": w}
            b1, b2 = int(w[:2], 16) & 0x7F, int(w[2:], 16) & 0x7F
            p = C.pac_decode(b1, b2)
            if p and not 1 <= p[0] <= 15:
                return False, {"row": p}
        all_words.append((t, ws))
    # decode with the reference decoder
    flat, tidx = [], []
    for t, ws in all_words:
        for i, w in enumerate(ws):
            flat.append(w)
            tidx.append(t + i)
    shown = C.decode_words(flat)
    if len(shown) != len(caps):
        return False, {"captions_shown": len(shown), "expected": len(caps)}
    for sh, (start, lines) in zip(shown, caps):
        rows = [C.row_text(sh["rows"][r]) for r in sorted(sh["rows"])]
        exp = expected_rows(lines)
        if [r.strip() for r in rows] != [r.strip() for r in exp] or any(len(r) > 32 for r in rows):
            return False, {"rows": rows, "expected": exp}
        if max(sh["rows"]) != 15 or sorted(sh["rows"]) != list(range(16 - len(rows), 16)):
            return False, {"screen_rows": sorted(sh["rows"])}
        if spacing_ok:
            visible = Fraction(tidx[sh["on"]], 30) * Fraction(1001, 1000) * 10 ** 6
            if not (0 <= start - visible <= 3 * FRAME + 1):
                return False, {"visible_at_us": float(visible), "start": start, "frames_early": float((start - visible) / FRAME)}
    return True, None


def bounded(ctx, b):
    rng = random.Random(ctx.seed)
    n = 120 if not ctx.thorough else 2000
    crafted = [["She sells sea shells down by the sea shore"], ["W" * 40], ["x" * 32], ["a b"], ["one", "two", "three", "four"]]
    for i in range(n + len(crafted)):
        k = rng.choice([1, 2, 3])
        caps, t = [], 0
        for j in range(k):
            lines = crafted[i] if i < len(crafted) and j == 0 else [make_text(rng) for _ in range(rng.choice([1, 2, 4]))]
            rows = expected_rows(lines)
            words = sum(2 + (len(r) + 1) // 2 + 1 for r in rows) + 10          # generous word count of the cue
            gap = rng.choice(["tight", "sparse", "mid"])
            t += int(words * FRAME) + {"tight": 40000, "mid": 800000, "sparse": 5 * 10 ** 6}[gap]
            dur = rng.choice([10 ** 6, 3 * 10 ** 6])
            caps.append((t, lines, t + dur))
            t += dur
        cs = CaptionSet({"en-US": CaptionList([Caption(s, e, sum(([T(l), CaptionNode.create_break()] for l in lines), [])[:-1])
                                               for s, lines, e in caps])})

        def one(cs=cs, caps=caps):
            doc = SCCWriter().write(cs)
            ok, detail = check_output(doc, [(s, lines) for s, lines, _ in caps], True)
            if not ok:
                detail["doc"] = doc[:400]
                return False, detail
            back = SCCReader().read(doc).get_captions("en-US")
            got = [" ".join(c_.get_text().split()) for c_ in back]
            exp = [" ".join(" ".join(expected_rows(lines)).split()) for _, lines, _ in caps]
            return got == exp, {"reread": got, "expected": exp}
        b.guard(("write", i), one, sample={"captions": [(s, lines) for s, lines, _ in caps]})


def bounded_timestamps(ctx, b):
    """_format_timestamp cannot be proved under the float standard model (after hours = floor(x/3600) the
    model allows x - 3600*hours to be slightly negative, which would print a negative field; no such
    double was found).  Bounded instead: every integer microsecond within +-2000 us of the instants whose
    timecode is a whole second / minute / hour, the doubles just below them, and seeded instants."""
    rng = random.Random(ctx.seed)
    import math
    f = SCCWriter._format_timestamp
    pat = re.compile(r"(\d{2}):([0-5]\d):([0-5]\d):([0-2]\d)")

    def ok(t):
        r = f(t)
        m = pat.fullmatch(r)
        if not m:
            return False, {"t": t, "printed": r}
        h, mi, s, fr = map(int, m.groups())
        frames = ((h * 60 + mi) * 60 + s) * 30 + fr
        exact = Fraction(t) * 30 / 1001000
        return (frames <= exact + Fraction(1, 1000) and exact - frames < 1 + Fraction(1, 1000)), {"t": t, "printed": r, "exact_frames": float(exact)}
    pts = []
    for sec in [1, 2, 59, 60, 61, 119, 120, 3599, 3600, 3601, 7200, 35999, 36000, 86399]:
        c0 = sec * 1001000
        pts += list(range(c0 - (2000 if ctx.thorough else 300), c0 + (2000 if ctx.thorough else 300)))
        x = float(c0)
        for _ in range(50):
            pts.append(x)
            x = math.nextafter(x, 0)
    pts += [rng.uniform(0, 86399 * 10 ** 6) for _ in range(2000)] + [rng.randrange(0, 86399 * 10 ** 6) for _ in range(2000)]
    pts += [k * 100100 / 3 for k in range(0, 3000, 7)]
    for t in pts:
        b.guard(("ts", t), lambda t=t: ok(t), nontrivial=True, sample=t if t in (1001000, 3603600000) else None)


def run(ctx):
    P = ctx.prove
    ctx.ground("tables", tables)
    ctx.bounded("timestamps", "SCCWriter._format_timestamp: integer microseconds around every second / minute / hour "
                "boundary of the non-drop timecode, doubles just below them, SCC-style fractional times and seeded "
                "instants: well-formed HH:MM:SS:FF, never later than the instant, within one frame",
                lambda b: bounded_timestamps(ctx, b))
    P("scc.SCCWriter._maybe_align", maybe_align, functions=[SCCWriter._maybe_align])
    P("scc.SCCWriter._maybe_space", maybe_space, functions=[SCCWriter._maybe_space])
    P("scc.SCCWriter._print_character", print_character, functions=[SCCWriter._print_character])
    P("scc.SCCWriter.write[PASS 2-3, 2 captions]", pass2_two_captions, functions=[SCCWriter.write], crosscheck=False)
    ctx.bounded("round_trip", "caption sets over the basic character table (plus a few special / extended ones): 1-3 "
                "captions of 1-4 lines of up to 80 characters, words up to 40 letters, spacings from just-feasible "
                "to sparse: header, line grammar, parity of every byte, rows 1-15, non-decreasing timecodes, rows <= 32 "
                "columns broken as textwrap does, visible within three frames of the start (reference decoder), "
                "and pycaption's own reader returns the same words", lambda b: bounded(ctx, b))
    ctx.trust("P-ground over the code tables (every entry); A: textwrap.fill(x, 32) (rows <= 32 columns, breaks at "
              "spaces, long words split) - exercised by the bounded part; str lengths of opaque code strings are "
              "symbolic integers; PASS 2-3 proved for a list of two captions (unrolled), longer lists bounded")
    ctx.assume("floats under the standard model; domain as the statement says: cues spaced far enough apart to be "
               "transmitted one code word per frame (first transmission time not below zero)")
