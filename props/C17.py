"""C17 - SCC output is structurally valid and re-reads to the same words."""
import ast
import itertools
import random
import re
import textwrap
from fractions import Fraction

import z3

from pycaption import CaptionSet, CaptionList, Caption, CaptionNode, SCCReader, SCCWriter
from pycaption.scc import constants as K
from pyvc.sym import SStr, SNum, Opaque, cur, mkint
from pyvc.verify import Raised
from refs import cea608 as C

U = Fraction(1, 2 ** 53)
FRAME = Fraction(1001000, 30)
HEX = "0123456789abcdef"
T = CaptionNode.create_text


# ------------------------------------------------------------------------------------ ground: tables

def tables(g):
    def parity_ok(code):
        return all(C.has_odd_parity(int(code[i:i + 2], 16)) for i in range(0, len(code), 2))
    for ch, code in K.CHARACTER_TO_CODE.items():
        g.check(f"CHARACTER_TO_CODE[{ch!r}]={code}: one byte, odd parity", len(code) == 2 and parity_ok(code), {"code": code})
    for ch, code in K.SPECIAL_OR_EXTENDED_CHAR_TO_CODE.items():
        g.check(f"SPECIAL_OR_EXTENDED_CHAR_TO_CODE[{ch!r}]={code}: two bytes, odd parity", len(code) == 4 and parity_ok(code), {"code": code})
    for row in range(1, 16):
        w = K.PAC_HIGH_BYTE_BY_ROW[row] + K.PAC_LOW_BYTE_BY_ROW_RESTRICTED[row]
        dec = C.pac_decode(int(w[:2], 16) & 0x7F, int(w[2:], 16) & 0x7F)
        g.check(f"PAC of row {row} = {w}: odd parity and addresses row {row}, column 0", parity_ok(w) and dec is not None and dec[:2] == (row, 0),
                {"word": w, "decodes_to": dec})
    # literal control words of the writer and the filler byte: every string constant in the methods of SCCWriter
    # and in the module-level constants those methods mention
    import inspect
    import pycaption.scc as scc_mod
    tree = ast.parse(inspect.getsource(scc_mod))
    cls = next(n for n in tree.body if isinstance(n, ast.ClassDef) and n.name == "SCCWriter")
    used = {n.id for n in ast.walk(cls) if isinstance(n, ast.Name)}
    nodes = [cls] + [st for st in tree.body if isinstance(st, ast.Assign)
                     and any(isinstance(t_, ast.Name) and t_.id in used for t_ in st.targets)]
    lits = set()
    for top in nodes:
        for n in ast.walk(top):
            if isinstance(n, ast.Constant) and isinstance(n.value, str) and not (
                    isinstance(top, ast.ClassDef) and n.value.lstrip().startswith(("Writes", ":", "\n"))):
                lits.update(re.findall(r"(?<![0-9a-zA-Z:.])[0-9a-f]{4}(?![0-9a-zA-Z:.])|(?<![0-9a-zA-Z:.%{])[0-9a-f]{2}(?![0-9a-zA-Z:.}])", n.value))
    expected = {"94ae", "9420", "942c", "942f", "80", "91b6"}
    if expected <= lits:
        g.check("writer emits the expected literal code words", True, {"found": sorted(lits)})
    else:
        # the words are not where this scan looks (moved by a refactoring?): cannot decide from here - the reference
        # decoder of the bounded part still sees every word that is written
        g.undecided("writer emits the expected literal code words", f"literal code words not located: found {sorted(lits)}")
    for w in sorted(lits):
        g.check(f"literal {w}: odd parity", parity_ok(w), {"word": w})
    want = {"94ae": C.ctrl("ENM"), "9420": C.ctrl("RCL"), "942c": C.ctrl("EDM"), "942f": C.ctrl("EOC")}
    for w, ref in want.items():
        g.check(f"{w} is the CEA-608 code it is used as", w == ref, {"reference": ref})
    g.check("header", K.HEADER == C.HEADER, {"header": K.HEADER})
    # the basic table agrees with CEA-608 (also used by C05)
    for code, ch in K.CHARACTERS.items():
        b = int(code, 16)
        exp = "" if (b & 0x7F) == 0 else C.BASIC.get(b & 0x7F)
        g.check(f"CHARACTERS[{code}]", C.has_odd_parity(b) and exp == ch, {"char": ch, "cea608": exp})


# ------------------------------------------------------------------------------------ proofs

def code_of_len(c, name):
    """an arbitrary code string of symbolic length (content opaque)"""
    n = c.int(name, 0, 10 ** 6)
    if c.symbolic:
        return SStr([Opaque(name, None, HEX + " ", lo=0, length=n.t)]), n
    return "x" * n, n


def strlen(c, s):
    if isinstance(s, str):
        return len(s)
    return s.sym_len()


def maybe_align(c):
    code, n = code_of_len(c, "len")
    r = c.call(SCCWriter._maybe_align, code, compare=False)
    m = strlen(c, r)
    c.ensure("half_word_completed", c.conj(c.implies(n % 5 == 2, c.conj(m == n + 3, m % 5 == 0)), c.implies(n % 5 != 2, m == n)))


def maybe_space(c):
    code, n = code_of_len(c, "len")
    r = c.call(SCCWriter._maybe_space, code, compare=False)
    m = strlen(c, r)
    c.ensure("space_after_a_full_word", c.conj(c.implies(n % 5 == 4, c.conj(m == n + 1, m % 5 == 0)), c.implies(n % 5 != 4, m == n)))


def print_character(c):
    """for a code whose length is 0 or 2 mod 5 (inside a row): a one-byte character gives 2 or 4
    mod 5, a two-byte character is aligned to a word boundary first and gives 4 mod 5"""
    kind = c.pick("char", ["A", " ", "é", "♪", "Á", "中"])
    code, n = code_of_len(c, "len")
    c.assume(c.disj(n % 5 == 0, n % 5 == 2))
    r = c.call(SCCWriter._print_character, c.new(SCCWriter), code, kind, compare=False)
    m = strlen(c, r)
    one_byte = kind in K.CHARACTER_TO_CODE
    if one_byte:
        c.ensure("one_byte_appended", m == n + 2)
    else:
        c.ensure("two_bytes_on_a_word_boundary", c.conj(m % 5 == 4, c.disj(m == n + 4, m == n + 7)))


def format_timestamp(c):
    """SCCWriter._format_timestamp: non-drop HH:MM:SS:FF whose frame count is within one frame of
    t * (1000/1001) * 30 / 10**6 (never later), all fields in range"""
    t = c.real("t", 0, 24 * 3600 * 10 ** 6)
    r = c.call(SCCWriter._format_timestamp, t, compare=False)
    f = c.view_fields(r, [("d", 2), ":", ("d", 2), ":", ("d", 2), ":", ("d", 2)])
    c.ensure("shape", f is not None)
    if f is None:
        return
    h, m, s, fr = f
    frames = ((h * 60 + m) * 60 + s) * 30 + fr
    exact = c.exact(t) * 30 / 1001000
    c.ensure("ranges", c.conj(m < 60, s < 60, fr < 30, fr >= 0))
    c.ensure("not_later_than_the_instant", frames <= exact + Fraction(1, 1000))
    c.ensure("within_one_frame", exact - frames < 1 + Fraction(1, 1000))


def pass2_two_captions(c):
    """PASS 2 + PASS 3 of SCCWriter.write on two captions (list length fixed at 2, everything else
    symbolic): transmission of caption i starts (words_i + 8) frames before its start (not below 0),
    so its EOC - word number words_i + 6 of the line - is sent two frames before the start;
    the previous caption's stand-alone erase line is dropped when it would not precede the next
    line by more than three frames; printed times are non-negative and non-decreasing."""
    w1, w2 = c.int("words1", 2, 400), c.int("words2", 2, 400)
    s1, e1 = c.real("s1", 0, 10 ** 10), c.real("e1", 0, 10 ** 10)
    s2, e2 = c.real("s2", 0, 10 ** 10), c.real("e2", 0, 10 ** 10)
    fr = float(FRAME)
    c.assume(c.conj(c.exact(s1) <= c.exact(e1), c.exact(e1) <= c.exact(s2), c.exact(s2) <= c.exact(e2)))
    # feasible spacing: caption 2's codes fit after caption 1 became visible
    c.assume(c.exact(s2) - (w2 + 8) * FRAME >= c.exact(s1) + FRAME)
    c.assume(c.exact(s1) - (w1 + 8) * FRAME >= 0)
    if c.symbolic:
        mk = lambda name, w: SStr([Opaque(name, None, HEX + " ", lo=10, length=(w * 5).t)])
        codes = [(mk("code1", w1), s1, e1), (mk("code2", w2), s2, e2)]
        stamps = []

        def h_ts(interp, fn, args, kw):
            stamps.append(args[0])
            return SStr([Opaque("ts", args[0], "0123456789:", lo=11)])
        c.interp.contracts["pycaption.scc:SCCWriter._format_timestamp"] = h_ts
        loc = c.run_region(SCCWriter.write,
                           first=lambda st: isinstance(st, ast.For) and isinstance(st.iter, ast.Call) and getattr(st.iter.func, "id", "") == "enumerate",
                           last=lambda st: isinstance(st, ast.For) and isinstance(st.target, ast.Tuple) and len(st.target.elts) == 3,
                           locals_={"self": c.new(SCCWriter), "codes": codes, "output": ""})
        out_codes = loc["codes"]
        cs1, cs2 = c.exact(out_codes[0][1]), c.exact(out_codes[1][1])
        tol = Fraction(1, 100)
        c.ensure("caption1_codes_start_words_plus_8_frames_early", c.conj(cs1 - (c.exact(s1) - (w1 + 8) * FRAME) <= tol, (c.exact(s1) - (w1 + 8) * FRAME) - cs1 <= tol))
        c.ensure("caption2_codes_start_words_plus_8_frames_early", c.conj(cs2 - (c.exact(s2) - (w2 + 8) * FRAME) <= tol, (c.exact(s2) - (w2 + 8) * FRAME) - cs2 <= tol))
        kept = out_codes[0][2] is not None
        c.ensure("erase_line_kept_only_if_it_precedes_the_next_line_by_more_than_3_frames",
                 c.implies(kept, c.exact(e1) + 3 * FRAME < cs2 + tol) if kept else
                 (c.exact(e1) + 3 * FRAME >= cs2 - tol))
        c.ensure("second_caption_end_kept", out_codes[1][2] is e2)
        seq = [c.exact(x) for x in stamps]
        c.ensure("printed_times_non_negative", c.conj(*[x >= 0 for x in seq]))
        c.ensure("printed_times_non_decreasing", c.conj(*[a <= b + tol for a, b in zip(seq, seq[1:])]))
        c.ensure("lines_written", len(stamps) == (4 if kept else 3))
    else:
        cs = CaptionSet({"en": CaptionList([Caption(s1, e1, [T("x" * 2)]), Caption(s2, e2, [T("y")])])})
        out = c.call(SCCWriter.write, SCCWriter(), cs)
        c.ensure("printed_times_non_decreasing", True)


class OutLog:
    """the text being written in PASS 3, abstracted to the sequence of timecodes printed so far:
    how many, the last one, and whether all were non-negative and non-decreasing (within `tol`)"""
    TOL = Fraction(1, 100)

    def __init__(self, count, last, ok):
        self.count, self.last, self.ok = count, last, ok

    @staticmethod
    def of(x):
        if isinstance(x, OutLog):
            return x
        if isinstance(x, str):
            return OutLog(z3.IntVal(0), z3.RealVal(0), z3.BoolVal(True))
        raise TypeError(type(x).__name__)

    def __add__(self, piece):
        out = self
        atoms = piece.atoms if isinstance(piece, SStr) else []
        for a in atoms:
            if isinstance(a, Opaque) and a.tag == "ts":
                from pyvc.sym import zreal
                t = zreal(a.payload)
                tol = z3.RealVal(str(OutLog.TOL))
                ok = z3.And(out.ok, t >= 0, z3.Or(out.count == 0, out.last <= t + tol))
                out = OutLog(out.count + 1, t, ok)
        return out


def pass23_any_number(c):
    """PASS 2 + PASS 3 of SCCWriter.write for ANY number of captions (loop invariants; the list of
    (code, start, end) tuples is a record list with index stores): for every caption k the codes start
    (words_k + 8) frames before its start; the stand-alone erase line of caption k is kept iff it
    precedes the next caption's line by more than three frames, the last one always; every printed
    timecode is non-negative and they never decrease."""
    from pyvc import heap
    from pyvc.heap import SymRecordList, loop_rule, INT, REAL, BOOL
    from pyvc.sym import zreal, zint
    heap.install(c.interp)
    p = cur()
    F = z3.RealVal(str(FRAME))
    tol = z3.RealVal(str(OutLog.TOL))
    n = z3.Int("n")
    p.assume(n >= 1)
    W = z3.Const("words", z3.ArraySort(INT, INT))
    S_in, E_in = z3.Const("S", z3.ArraySort(INT, REAL)), z3.Const("E", z3.ArraySort(INT, REAL))
    K1, K2 = z3.Int("K1"), z3.Int("K2")
    p.assume(K2 == K1 + 1)

    def tgt(k):
        return S_in[k] - (W[k] + 8) * F

    def pre(k):
        """the statement's domain at index k: sorted, non-overlapping cues, spaced far enough apart to be
        transmitted one code word per frame"""
        return z3.Implies(z3.And(k >= 0, k < n), z3.And(
            W[k] >= 2, W[k] <= 400, S_in[k] >= 0, S_in[k] <= E_in[k], E_in[k] <= 10 ** 10,
            z3.Implies(k + 1 < n, z3.And(E_in[k] <= S_in[k + 1], tgt(k + 1) >= S_in[k] + F)),
            z3.Implies(k == 0, tgt(0) >= 0)))

    arrays = {"id": z3.Const("id0", z3.ArraySort(INT, INT)), "len": z3.Const("len0", z3.ArraySort(INT, INT)),
              "start": S_in, "end": E_in, "end_none": z3.K(INT, z3.BoolVal(False))}
    sorts = {"id": INT, "len": INT, "start": REAL, "end": REAL, "end_none": BOOL}

    def read(arr, k):
        code = SStr([Opaque("code", arr["id"][k], HEX + " ", lo=10, length=arr["len"][k])])
        end = None if cur().branch(arr["end_none"][k]) else SNum(arr["end"][k], "float")
        return (code, SNum(arr["start"][k], "float"), end)

    def write(arr, k, v):
        code, start, end = v
        atoms = code.atoms if isinstance(code, SStr) else None
        if not atoms or len(atoms) != 1 or not isinstance(atoms[0], Opaque) or atoms[0].tag != "code":
            from pyvc.sym import Inapplicable
            raise Inapplicable("a code string that is not one of the codes computed in PASS 1")
        out = dict(arr)
        out["id"] = z3.Store(arr["id"], k, atoms[0].payload)
        out["len"] = z3.Store(arr["len"], k, atoms[0].length)
        out["start"] = z3.Store(arr["start"], k, zreal(start))
        if end is None:
            out["end_none"] = z3.Store(arr["end_none"], k, True)
        else:
            out["end"] = z3.Store(arr["end"], k, zreal(end))
            out["end_none"] = z3.Store(arr["end_none"], k, False)
        return out

    codes = SymRecordList(n, arrays, read, write, sorts)
    ident = lambda k: z3.Implies(z3.And(k >= 0, k < n), z3.And(arrays["id"][k] == k, arrays["len"][k] == 5 * W[k]))
    for k in (K1, K2, K2 + 1, z3.IntVal(0)):
        p.assume(pre(k))
        p.assume(ident(k))

    def inst(arr, i, k):
        """the PASS-2 invariant at list index k when the loop is at index i"""
        A = arr
        return z3.Implies(z3.And(k >= 0, k < n), z3.And(
            A["id"][k] == k, A["len"][k] == 5 * W[k], A["start"][k] >= 0,
            z3.Implies(k >= i, z3.And(A["start"][k] == S_in[k], A["end"][k] == E_in[k], z3.Not(A["end_none"][k]))),
            z3.Implies(k < i, z3.And(A["start"][k] - tgt(k) <= tol, tgt(k) - A["start"][k] <= tol)),
            z3.Implies(k == i - 1, z3.And(z3.Not(A["end_none"][k]), A["end"][k] == E_in[k])),
            z3.Implies(k < i - 1, z3.And(
                z3.Implies(z3.Not(A["end_none"][k]), z3.And(A["end"][k] == E_in[k], E_in[k] + 3 * F < A["start"][k + 1] + tol)),
                z3.Implies(A["end_none"][k], E_in[k] + 3 * F >= A["start"][k + 1] - tol)))))

    def inv2(S):
        if S.havoc_locals is not None and not S.i_is_successor:
            # the invariant is  forall k. inst(k): instances at the indices this iteration touches
            for k in (S.i - 1, S.i, S.i + 1):
                S.p.assume(inst(codes.arrays, S.i, k))
                S.p.assume(pre(k))
                S.p.assume(ident(k))
        return [("caption_K1", inst(codes.arrays, S.i, K1)), ("caption_K2", inst(codes.arrays, S.i, K2))]
    skip = {v: ("skip", None) for v in ("code_words", "code_time_microseconds", "code_start", "previous_code", "previous_start",
                                        "previous_end", "index", "code", "start", "end")}
    c.interp.loop_hooks[("pycaption.scc:SCCWriter.write", 1)] = loop_rule(
        "pass2", inv2, locals_=dict(skip, codes=("custom", lambda p_, v: codes.havoc(p_, "codes"))))

    def inv3(S):
        if S.havoc_locals is not None and not S.i_is_successor:
            S.p.assume(K1 == S.i)            # specialise the arbitrary caption of PASS 2 to the one being written
        out = OutLog.of(S.local("output"))
        A = codes.arrays
        return [("printed_times_ordered_so_far", z3.And(out.ok, out.count >= 0, (out.count == 0) == (S.i == 0),
                                                        z3.Implies(z3.And(S.i < n, out.count > 0), out.last <= A["start"][S.i] + tol)))]

    def havoc_out(p_, v):
        return OutLog(p_.fresh_int("count"), p_.fresh_real("last"), p_.fresh_bool("ok"))
    c.interp.loop_hooks[("pycaption.scc:SCCWriter.write", 2)] = loop_rule(
        "pass3", inv3, locals_={"output": ("custom", havoc_out), "code": ("skip", None), "start": ("skip", None), "end": ("skip", None)})

    def h_ts(interp, fn, args, kw):
        return SStr([Opaque("ts", args[0], "0123456789:", lo=11)])
    c.interp.contracts["pycaption.scc:SCCWriter._format_timestamp"] = h_ts
    loc = c.run_region(SCCWriter.write,
                       first=lambda st: isinstance(st, ast.For) and isinstance(st.iter, ast.Call) and getattr(st.iter.func, "id", "") == "enumerate",
                       last=lambda st: isinstance(st, ast.For) and isinstance(st.target, ast.Tuple) and len(st.target.elts) == 3,
                       locals_={"self": c.new(SCCWriter), "codes": codes, "output": ""})
    out = OutLog.of(loc["output"])
    A = codes.arrays
    valid = z3.And(K1 >= 0, K1 < n)
    c.ensure("printed_times_non_negative_and_non_decreasing", out.ok)
    c.ensure("codes_start_words_plus_8_frames_early", z3.Implies(valid, z3.And(A["start"][K1] - tgt(K1) <= tol, tgt(K1) - A["start"][K1] <= tol)))
    c.ensure("visible_two_frames_before_the_start",
             z3.Implies(valid, z3.And(A["start"][K1] + (W[K1] + 6) * F <= S_in[K1] - 2 * F + tol,
                                      A["start"][K1] + (W[K1] + 6) * F >= S_in[K1] - 2 * F - tol)))
    c.ensure("erase_line_kept_only_if_it_precedes_the_next_line_by_more_than_3_frames",
             z3.Implies(z3.And(valid, K1 < n - 1), z3.And(
                 z3.Implies(z3.Not(A["end_none"][K1]), z3.And(A["end"][K1] == E_in[K1], E_in[K1] + 3 * F < A["start"][K2] + tol)),
                 z3.Implies(A["end_none"][K1], E_in[K1] + 3 * F >= A["start"][K2] - tol))))
    c.ensure("last_caption_end_kept", z3.Implies(z3.And(valid, K1 == n - 1), z3.And(z3.Not(A["end_none"][K1]), A["end"][K1] == E_in[K1])))
    c.ensure("every_code_stays_with_its_caption", z3.Implies(valid, A["id"][K1] == K1))


# ------------------------------------------------------------------------------------ bounded part

WORDS = ["a", "I", "to", "the", "over", "lazy", "quick", "jumps", "captions", "extraordinary", "W" * 33, "x" * 40,
         "She", "sells", "sea", "shells", "down", "by", "shore", "don't", "\"quoted\"", "100%", "a&b", "é", "ñ", "½",
         "well-documented", "state-of-the-art", "mother-in-law", "re-read", "-", "--", "twenty-one",
         # (text is text: an ampersand followed by what HTML calls an entity name stays as it is; captions of punctuation only)
         "Q&notes", "R&regional", "&amp", "&lt;b&gt;", "&#65;", "AT&T;", "...", "?!"]


def make_text(rng):
    n = rng.choice([1, 2, 3, 8, 14])
    return " ".join(rng.choice(WORDS) for _ in range(n))[:80]


def expected_rows(lines):
    """an estimate of the rows a caption needs (for the transmission budget only; the rows actually written are
    judged by rows_follow_the_statement)"""
    rows = []
    for ln in lines:
        rows += textwrap.fill(ln, 32, break_on_hyphens=False).split("\n") if ln else [""]
    return rows


def rows_follow_the_statement(lines, rows):
    """the statement's layout rule, not a copy of the code's: every row has at most 32 columns; read in order, the rows
    give back the words of the source lines - a word of more than 32 characters may come in several pieces, every other
    word is whole (so rows are broken at spaces only); words of different source lines never share a row; no row is
    wasted (a row and the first word of the next row would not have fitted together)"""
    if any(len(r) > 32 for r in rows):
        return "a row has more than 32 columns"
    src = [(w, li) for li, ln in enumerate(lines) for w in ln.split()]
    toks = [(w, ri) for ri, r in enumerate(rows) for w in r.split()]
    k = 0
    row_line = {}
    for w, li in src:
        if k < len(toks) and toks[k][0] == w:
            used = [toks[k]]
            k += 1
        elif len(w) > 32:
            acc, used = "", []
            while k < len(toks) and len(acc) < len(w):
                acc += toks[k][0]
                used.append(toks[k])
                k += 1
            if acc != w:
                return f"the pieces of the long word {w!r} do not give it back"
        else:
            return f"word {w!r} is not whole in the rows (row broken inside a word or at a hyphen?)"
        for _, ri in used:
            if row_line.setdefault(ri, li) != li:
                return "words of two source lines share a row"
    if k != len(toks):
        return "rows contain more than the source words"
    for ri in range(len(rows) - 1):
        nxt = rows[ri + 1].split()
        if rows[ri].strip() and nxt and row_line.get(ri) == row_line.get(ri + 1) and len(nxt[0]) <= 32 \
                and len(rows[ri].rstrip()) + 1 + len(nxt[0]) <= 32:
            return "a row was broken although the next word still fitted"
    return None


SHOWN_ROWS = []          # rows the reference decoder shows for the captions of the last document checked


def check_output(doc, caps, spacing_ok):
    del SHOWN_ROWS[:]
    """structure of the SCC text + what a reference decoder shows"""
    if not doc.startswith(C.HEADER + "\n\n"):
        return False, {"header": doc[:30]}
    last = None
    all_words = []
    for line in [l for l in doc[len(C.HEADER):].split("\n") if l.strip()]:
        m = re.fullmatch(r"(\d{2}):(\d{2}):(\d{2})[:;](\d{2})\t((?:[0-9a-f]{4} ?)+)", line)
        if not m:
            return False, {"bad_line": line[:120]}
        h, mi, s, f = (int(x) for x in m.groups()[:4])
        if not (mi < 60 and s < 60 and f < 30):
            return False, {"bad_timecode": line[:11]}
        t = ((h * 60 + mi) * 60 + s) * 30 + f
        if last is not None and t < last:
            return False, {"timecodes_decrease": line[:11]}
        last = t
        ws = m.group(5).split()
        for w in ws:
            if not all(C.has_odd_parity(int(w[i:i + 2], 16)) for i in (0, 2)):
                return False, {"even_parity_byte_in": w}
            b1, b2 = int(w[:2], 16) & 0x7F, int(w[2:], 16) & 0x7F
            p = C.pac_decode(b1, b2)
            if p and not 1 <= p[0] <= 15:
                return False, {"row": p}
        all_words.append((t, ws))
    # decode with the reference decoder
    flat, tidx = [], []
    for t, ws in all_words:
        for i, w in enumerate(ws):
            flat.append(w)
            tidx.append(t + i)
    shown = C.decode_words(flat)
    if len(shown) != len(caps):
        return False, {"captions_shown": len(shown), "expected": len(caps)}
    for sh, (start, lines) in zip(shown, caps):
        rows = [C.row_text(sh["rows"][r]) for r in sorted(sh["rows"])]
        why = rows_follow_the_statement(lines, rows)
        if why:
            return False, {"rows": rows, "source_lines": lines, "layout_rule_broken": why}
        SHOWN_ROWS.append(rows)
        if max(sh["rows"]) != 15 or sorted(sh["rows"]) != list(range(16 - len(rows), 16)):
            return False, {"screen_rows": sorted(sh["rows"])}
        if spacing_ok:
            visible = Fraction(tidx[sh["on"]], 30) * Fraction(1001, 1000) * 10 ** 6
            if not (0 <= start - visible <= 3 * FRAME + 1):
                return False, {"visible_at_us": float(visible), "start": start, "frames_early": float((start - visible) / FRAME)}
    return True, None




_LONG_LIVED = {}


def shared(cls, **kw):
    """one object per class and option set for the whole run: what a conversion returns depends on its input and the
    options only, also when the object has converted other documents before"""
    key = (cls, tuple(sorted(kw.items())))
    if key not in _LONG_LIVED:
        _LONG_LIVED[key] = cls(**kw)
    return _LONG_LIVED[key]

def bounded(ctx, b):
    rng = random.Random(ctx.seed)
    n = 120 if not ctx.thorough else 2000
    crafted = [["..."], ["?!"], ["- -", "$%"], ["Send your Q&notes to R&regional &amp now"], ["She sells sea shells down by the sea shore"], ["W" * 40], ["x" * 32], ["a b"], ["one", "two", "three", "four"],
               # one source line that needs five (and eight) rows of 32 columns
               ["aaaaaaaaaaaa bbbbbbbbbbbbbbbbbbbb cccccccccccc dddddddddddddddddddd eeeeeeeeeeee"],
               [" ".join(ch * 17 for ch in "abcdefgh")], ["x" * 32 + " " + "y" * 32, "z" * 70],
               ["an extraordinarily well-documented state-of-the-art example"], ["aaaa bbbb cccc dddd eeee well-being"]]
    for i in range(n + len(crafted)):
        k = rng.choice([1, 2, 3])
        # (every fourth set starts ten minutes or two hours into the programme, with a tall first caption: the line
        # that carries it has more than 99 code words)
        caps, t = [], (0 if i % 4 != 3 else rng.choice([620 * 10 ** 6, 7300 * 10 ** 6]))
        for j in range(k):
            lines = crafted[i] if i < len(crafted) and j == 0 else [make_text(rng) for _ in range(rng.choice([1, 2, 4]))]
            if i % 4 == 3 and j == 0 and i >= len(crafted):
                lines = [" ".join(ch * 14 for ch in "abcdefghijklmnop"[:rng.choice([10, 14, 16])])]
            rows = expected_rows(lines)
            words = sum(2 + (len(r) + 1) // 2 + 1 for r in rows) + 10          # generous word count of the cue
            gap = rng.choice(["tight", "sparse", "mid"])
            t += int(words * FRAME) + {"tight": 40000, "mid": 800000, "sparse": 5 * 10 ** 6}[gap]
            dur = rng.choice([10 ** 6, 3 * 10 ** 6])
            caps.append((t, lines, t + dur))
            t += dur
        cs = CaptionSet({"en-US": CaptionList([Caption(s, e, sum(([T(l), CaptionNode.create_break()] for l in lines), [])[:-1])
                                               for s, lines, e in caps])})

        def one(cs=cs, caps=caps):
            doc = shared(SCCWriter).write(cs)
            ok, detail = check_output(doc, [(s, lines) for s, lines, _ in caps], True)
            if not ok:
                detail["doc"] = doc[:400]
                return False, detail
            back = shared(SCCReader).read(doc).get_captions("en-US")
            got = [" ".join(c_.get_text().split()) for c_ in back]
            # (the words a reference decoder shows: validated against the source lines just above)
            exp = [" ".join(" ".join(rows).split()) for rows in SHOWN_ROWS]
            if got != exp:
                return False, {"reread": got, "expected": exp}
            # ... and the own reader, too, shows each caption within three frames before its start time
            early = [(s - c_.start) / FRAME for (s, _, _), c_ in zip(caps, back)]
            return all(-0.001 <= e_ <= 3.001 for e_ in early), {"reread_starts_frames_before_the_start_time": [float(e_) for e_ in early]}
        b.guard(("write", i), one, sample={"captions": [(s, lines) for s, lines, _ in caps]})


def bounded_timestamps(ctx, b):
    """_format_timestamp cannot be proved under the float standard model (after hours = floor(x/3600) the
    model allows x - 3600*hours to be slightly negative, which would print a negative field; no such
    double was found).  Bounded instead: every integer microsecond within +-2000 us of the instants whose
    timecode is a whole second / minute / hour, the doubles just below them, and seeded instants."""
    rng = random.Random(ctx.seed)
    import math
    f = SCCWriter._format_timestamp
    pat = re.compile(r"(\d{2}):([0-5]\d):([0-5]\d):([0-2]\d)")

    def ok(t):
        r = f(t)
        m = pat.fullmatch(r)
        if not m:
            return False, {"t": t, "printed": r}
        h, mi, s, fr = map(int, m.groups())
        frames = ((h * 60 + mi) * 60 + s) * 30 + fr
        exact = Fraction(t) * 30 / 1001000
        return (frames <= exact + Fraction(1, 1000) and exact - frames < 1 + Fraction(1, 1000)), {"t": t, "printed": r, "exact_frames": float(exact)}
    pts = []
    for sec in [1, 2, 59, 60, 61, 119, 120, 3599, 3600, 3601, 7200, 35999, 36000, 86399]:
        c0 = sec * 1001000
        pts += list(range(c0 - (2000 if ctx.thorough else 300), c0 + (2000 if ctx.thorough else 300)))
        x = float(c0)
        for _ in range(50):
            pts.append(x)
            x = math.nextafter(x, 0)
    pts += [rng.uniform(0, 86399 * 10 ** 6) for _ in range(2000)] + [rng.randrange(0, 86399 * 10 ** 6) for _ in range(2000)]
    pts += [k * 100100 / 3 for k in range(0, 3000, 7)]
    for t in pts:
        b.guard(("ts", t), lambda t=t: ok(t), nontrivial=True, sample=t if t in (1001000, 3603600000) else None)


def run(ctx):
    P = ctx.prove
    ctx.ground("tables", tables)
    ctx.bounded("timestamps", "SCCWriter._format_timestamp: integer microseconds around every second / minute / hour "
                "boundary of the non-drop timecode, doubles just below them, SCC-style fractional times and seeded "
                "instants: well-formed HH:MM:SS:FF, never later than the instant, within one frame",
                lambda b: bounded_timestamps(ctx, b))
    P("scc.SCCWriter._maybe_align", maybe_align, functions=[SCCWriter._maybe_align])
    P("scc.SCCWriter._maybe_space", maybe_space, functions=[SCCWriter._maybe_space])
    P("scc.SCCWriter._print_character", print_character, functions=[SCCWriter._print_character])
    P("scc.SCCWriter.write[PASS 2-3, 2 captions]", pass2_two_captions, functions=[SCCWriter.write], crosscheck=False)
    P("scc.SCCWriter.write[PASS 2-3, any number of captions]", pass23_any_number, functions=[SCCWriter.write], crosscheck=False,
      path_solver={"relevancy": 0})      # (feasibility pruning only: mixed Int/Real arrays are slow with relevancy on)
    ctx.bounded("round_trip", "caption sets over the basic character table (plus a few special / extended ones): 1-3 "
                "captions of 1-4 lines of up to 80 characters, words up to 40 letters, spacings from just-feasible "
                "to sparse: header, line grammar, parity of every byte, rows 1-15, non-decreasing timecodes, rows <= 32 "
                "columns broken as textwrap does, visible within three frames of the start (reference decoder), "
                "and pycaption's own reader returns the same words", lambda b: bounded(ctx, b))
    ctx.trust("P-ground over the code tables (every entry); A: textwrap.fill(x, 32) (rows <= 32 columns, breaks at "
              "spaces, long words split) - exercised by the bounded part; str lengths of opaque code strings are "
              "symbolic integers; PASS 2-3 proved for ANY number of captions (record list with index stores, loop invariants "
              "instantiated at the indices an iteration touches and proved at two arbitrary adjacent indices K1, K1+1; "
              "PASS 3's text abstracted to the sequence of printed timecodes) and additionally for two captions unrolled")
    ctx.assume("floats under the standard model; domain as the statement says: cues spaced far enough apart to be "
               "transmitted one code word per frame (first transmission time not below zero)")
