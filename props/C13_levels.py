"""Every layout a DFXP / SAMI writer works with has gone through relativization, at every level:
the caption set's, each written language's, every caption's and every node's - proved for ANY number
of captions and nodes with nested loop invariants over the real `write()` methods.

`_relativize_and_fit_to_screen` (proved in C13) is an uninterpreted function RF here, and
`Layout.as_percentage_of` an uninterpreted REL; a layout is an opaque value (None, or an identity with an
uninterpreted truthiness).  The theorem is about *coverage*: after the transformation loops of
DFXPWriter.write - and at the moment SAMIWriter.write hands a caption to `_recreate_p_tag` - the
layout of an ARBITRARY caption of a written language and of an ARBITRARY node of it is RF of the
original one (the arbitrary-index constants K, J stand for 'every'); the set-level and language-level
layouts are REL / RF of the originals.  Captions and nodes are distinct objects (precondition: the
writers work on a deep copy of a tree-shaped caption set)."""
import ast

import z3

from pycaption.base import Caption, CaptionNode, CaptionSet
from pycaption.dfxp.base import DFXPWriter
from pycaption.sami import SAMIWriter
from pyvc import heap, sym
from pyvc.heap import SymList, SymRef, declare, loop_rule, SEQ, INT, BOOL, heap_array, NONE_REF
from pyvc.sym import cur, Inapplicable

RF = z3.Function("RF", INT, INT)               # _relativize_and_fit_to_screen on layout identities
REL = z3.Function("REL", INT, INT)             # Layout.as_percentage_of(video_width, video_height)
TRUTHY = z3.Function("layout_truthy", INT, BOOL)
LANGS = ["en", "fr"]


class LayoutVal(heap.SymId):
    """a layout_info value: the identity NONE_REF stands for None (never tested with `is None` in the
    regions below, only for truthiness)"""

    def __bool__(self):
        return cur().branch(z3.And(self.t != NONE_REF, TRUTHY(self.t)))

    def sym_getattr(self, interp, name):
        if name == "as_percentage_of":
            return lambda *a, **k: LayoutVal(REL(self.t))
        raise Inapplicable(f"Layout.{name} on an opaque layout")

    def __hash__(self):
        return id(self)


def wrap_layout(t):
    return LayoutVal(t)


def code(v):
    return z3.IntVal(NONE_REF) if v is None else v.t


def rf(x):
    return z3.If(x == NONE_REF, z3.IntVal(NONE_REF), RF(x))


def h_rf(interp, fn, args, kw):
    lay = args[1]
    return None if lay is None else LayoutVal(rf(lay.t))


class World:
    """a two-language caption set of arbitrary size on the symbolic heap, plus the arbitrary caption
    (language LAM, index K) and node (index J of that caption) the obligations are stated for"""

    def __init__(self, c, writer_cls, **writer_fields):
        p = cur()
        self.p = p
        heap.CUSTOM_KINDS["olayout"] = wrap_layout
        declare(Caption, start="num", end="num", nodes="list:CaptionNode", style="id", layout_info="olayout")
        declare(CaptionNode, type_="int", start="id", content="id", layout_info="olayout", position="id")
        self.lists = {l: SymList(z3.Const(f"captions_{l}", SEQ), Caption) for l in LANGS}
        self.lang_layout0 = {l: z3.Int(f"layout_{l}") for l in LANGS}
        for l in LANGS:
            self.lists[l].attrs["layout_info"] = wrap_layout(self.lang_layout0[l])
        self.set_layout0 = z3.Int("layout_set")
        self.cs = c.new(CaptionSet, _captions=dict(self.lists), _styles={}, layout_info=wrap_layout(self.set_layout0))
        self.rel = c.pick("relativize", [True, False])
        self.w = c.new(writer_cls, relativize=self.rel, fit_to_screen=True, video_width=640, video_height=360, **writer_fields)
        self.LAYc0, self.LAYn0 = heap_array(p, Caption, "layout_info"), heap_array(p, CaptionNode, "layout_info")
        self.NODES = heap_array(p, Caption, "nodes")
        self.lam = c.pick("language_of_the_arbitrary_caption", LANGS)
        self.K, self.J = z3.Int("K"), z3.Int("J")
        self.CX = self.lists[self.lam].t[self.K]
        self.NX = self.NODES[self.CX][self.J]
        self.validK = z3.And(self.K >= 0, self.K < z3.Length(self.lists[self.lam].t))
        self.validJ = z3.And(self.validK, self.J >= 0, self.J < z3.Length(self.NODES[self.CX]))
        c.interp.contracts["pycaption.base:BaseWriter._relativize_and_fit_to_screen"] = h_rf

    def distinct(self, lang, k, j=None):
        """precondition instances: the caption at (lang, k) - and its node j - are objects of their own"""
        cap = self.lists[lang].t[k]
        same_cap = z3.And(self.K == k) if lang == self.lam else z3.BoolVal(False)
        cs = [z3.Or(same_cap, cap != self.CX)]
        if j is not None:
            node = self.NODES[cap][j]
            cs.append(z3.Or(z3.And(same_cap, self.J == j), node != self.NX))
        return z3.And(*cs)

    def processed(self, LAYc, LAYn):
        return z3.And(z3.Implies(self.validK, LAYc[self.CX] == rf(self.LAYc0[self.CX])),
                      z3.Implies(self.validJ, LAYn[self.NX] == rf(self.LAYn0[self.NX])))

    def untouched(self, LAYc, LAYn):
        return z3.And(z3.Implies(self.validK, LAYc[self.CX] == self.LAYc0[self.CX]),
                      z3.Implies(self.validJ, LAYn[self.NX] == self.LAYn0[self.NX]))

    def loops(self, c, qual, captions_ordinal, nodes_ordinal, extra_skip=()):
        W = self

        def state_of(S, lang, k, inner_j=None):
            """what is known about the arbitrary caption / node while language `lang` is at caption index k
            (and, inside the node loop of that caption, at node index inner_j)"""
            LAYc, LAYn = S.field(Caption, "layout_info"), S.field(CaptionNode, "layout_info")
            done_langs = LANGS[:LANGS.index(lang)]
            if W.lam in done_langs:
                return W.processed(LAYc, LAYn)
            if W.lam != lang:
                return W.untouched(LAYc, LAYn)
            cap_now = inner_j is not None
            before, after = W.processed(LAYc, LAYn), W.untouched(LAYc, LAYn)
            if not cap_now:
                return z3.If(W.K < k, before, after)
            # inside caption k: its own layout is done, its nodes up to inner_j are done
            mid = z3.And(z3.Implies(W.validK, LAYc[W.CX] == rf(W.LAYc0[W.CX])),
                         z3.Implies(W.validJ, LAYn[W.NX] == z3.If(W.J < inner_j, rf(W.LAYn0[W.NX]), W.LAYn0[W.NX])))
            return z3.If(W.K < k, before, z3.If(W.K == k, mid, after))

        def inv_caps(S):
            lang = S.frame.lookup("lang")
            S.p.assume(W.distinct(lang, S.i))
            return [("arbitrary_caption_and_node", state_of(S, lang, S.i))]

        def inv_nodes(S):
            lang = S.frame.lookup("lang")
            k = S.p.ghost["loop_index"]["captions"]
            S.p.assume(W.distinct(lang, k, S.i))
            return [("arbitrary_node_of_this_caption", state_of(S, lang, k, S.i))]
        skip = {v: ("skip", None) for v in ("caption", "node") + tuple(extra_skip)}
        if "sami" in skip:
            skip["sami"] = ("custom", lambda p_, v: object())       # the document being built: opaque
        c.interp.loop_hooks[(qual, captions_ordinal)] = loop_rule(
            "captions", inv_caps, locals_=dict(skip), fields=[(Caption, "layout_info"), (CaptionNode, "layout_info")])
        c.interp.loop_hooks[(qual, nodes_ordinal)] = loop_rule(
            "nodes", inv_nodes, locals_={"node": ("skip", None)}, fields=[(CaptionNode, "layout_info")])
        return state_of

    def expected_level(self, lay0, nonempty=True):
        """set / language level in DFXPWriter: as_percentage_of when the layout is truthy and relativize is on"""
        cond = z3.And(lay0 != NONE_REF, TRUTHY(lay0), z3.BoolVal(bool(self.rel)), nonempty)
        return z3.If(cond, REL(lay0), lay0)


def _with_schemas(fn):
    def wrapped(c):
        heap.install(c.interp)
        saved, saved_kinds = dict(heap.SCHEMAS), dict(heap.CUSTOM_KINDS)
        try:
            return fn(c)
        finally:
            heap.SCHEMAS.clear()
            heap.SCHEMAS.update(saved)
            heap.CUSTOM_KINDS.clear()
            heap.CUSTOM_KINDS.update(saved_kinds)
    wrapped.__name__, wrapped.__doc__ = fn.__name__, fn.__doc__
    return wrapped


@_with_schemas
def dfxp_levels(c):
    """DFXPWriter.write, the transformation loops: see the module docstring"""
    W = World(c, DFXPWriter, open_span=False, p_style=False, region_creator=None, write_inline_positioning=False)
    W.loops(c, "pycaption.dfxp.base:DFXPWriter.write", 2, 3, extra_skip=("lang_layout",))
    import copy
    c.interp.overrides[copy.deepcopy] = lambda x, *a: x        # (A: an equal, disjoint object graph; the proof is about the copy)
    is_copy = lambda st: isinstance(st, ast.Assign) and isinstance(st.value, ast.Call) and getattr(st.value.func, "id", "") == "deepcopy"
    loc = c.run_region(DFXPWriter.write, first=is_copy, last=lambda st: isinstance(st, ast.For),
                       locals_={"self": W.w, "caption_set": W.cs, "langs": list(LANGS), "force": ""})
    p = cur()
    LAYc, LAYn = heap_array(p, Caption, "layout_info"), heap_array(p, CaptionNode, "layout_info")
    c.ensure("every_caption_and_node_layout_is_relativized", W.processed(LAYc, LAYn))
    c.ensure("set_level_layout_is_relativized", code(W.cs.layout_info) == W.expected_level(W.set_layout0))
    for l in LANGS:
        c.ensure(f"language_level_layout_is_relativized[{l}]",
                 code(W.lists[l].attrs["layout_info"]) == W.expected_level(W.lang_layout0[l], z3.Length(W.lists[l].t) > 0))
    c.ensure("node_lists_untouched", heap_array(p, Caption, "nodes") is W.NODES)


@_with_schemas
def sami_levels(c):
    """SAMIWriter.write: when a caption is handed to _recreate_p_tag its layout and the layouts of all its
    nodes have been relativized, and so have the set-level and the language-level layouts"""
    W = World(c, SAMIWriter, open_span=False, last_time=None)
    state_of = W.loops(c, "pycaption.sami:SAMIWriter.write", 2, 3, extra_skip=("sami",))
    p = cur()
    calls = []

    def h_p_tag(interp, fn, args, kw):
        cap, lang = args[1], args[3]
        pp = cur()
        LAYc, LAYn = heap_array(pp, Caption, "layout_info"), heap_array(pp, CaptionNode, "layout_info")
        is_arbitrary = z3.And(cap.ref == W.CX, W.validK) if lang == W.lam else z3.BoolVal(False)
        pp.require("written_caption_has_relativized_layouts",
                   z3.Implies(is_arbitrary, z3.And(LAYc[W.CX] == rf(W.LAYc0[W.CX]),
                                                   z3.Implies(W.validJ, LAYn[W.NX] == rf(W.LAYn0[W.NX])))), kind="call")
        pp.require("set_level_layout_relativized_before_writing", code(W.cs.layout_info) == rf(W.set_layout0), kind="call")
        pp.require("language_level_layout_relativized_before_writing",
                   code(W.lists[lang].attrs["layout_info"]) == rf(W.lang_layout0[lang]), kind="call")
        calls.append(lang)
        return args[2]
    c.interp.contracts["pycaption.sami:SAMIWriter._recreate_p_tag"] = h_p_tag
    import copy
    import bs4
    c.interp.overrides[copy.deepcopy] = lambda x, *a: x
    c.interp.overrides[bs4.BeautifulSoup] = lambda *a, **k: object()      # the document object: opaque in this proof
    is_copy = lambda st: isinstance(st, ast.Assign) and isinstance(st.value, ast.Call) and getattr(st.value.func, "id", "") == "deepcopy"
    loc = c.run_region(SAMIWriter.write, first=is_copy, last=lambda st: isinstance(st, ast.For),
                       locals_={"self": W.w, "caption_set": W.cs})
    LAYc, LAYn = heap_array(p, Caption, "layout_info"), heap_array(p, CaptionNode, "layout_info")
    c.ensure("every_caption_and_node_layout_is_relativized", W.processed(LAYc, LAYn))


def prove_levels(ctx):
    ctx.prove("dfxp.DFXPWriter.write[layout transformation loops]", dfxp_levels, functions=[DFXPWriter.write], crosscheck=False)
    ctx.prove("sami.SAMIWriter.write[layout transformation]", sami_levels, functions=[SAMIWriter.write], crosscheck=False)
    ctx.assume("coverage of the relativization: captions and nodes are distinct objects (the writers work on a deep copy of "
               "a tree-shaped caption set); _relativize_and_fit_to_screen and Layout.as_percentage_of are uninterpreted here "
               "(their contracts are proved above); two written languages, any number of captions and nodes")
