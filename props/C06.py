"""C06 - SCC captions appear and disappear at the frames their commands are sent."""
import ast
import itertools
import random
from fractions import Fraction

import z3

from pycaption import SCCReader
from pycaption.exceptions import CaptionReadTimingError, CaptionReadNoCaptions
from pycaption.scc import _SccTimeTranslator, fix_last_captions_without_ending
from pycaption.scc.specialized_collections import PreCaption, TimingCorrectingCaptionList
from pycaption.base import Caption
from pyvc import heap
from pyvc.heap import SymList, SymRef, declare, loop_rule, SEQ, INT, heap_array, as_seq
from pyvc.sym import cur, SNum
from pyvc.verify import Raised
from refs import cea608 as C

U = Fraction(1, 2 ** 53)
FRAME = Fraction(1001000, 30)        # microseconds per code word at 29.97 words per second
declare(PreCaption, start="num", end="num", nodes="list:PreCaption", style="id", layout_info="id")
declare(Caption, start="num", end="num", nodes="list:Caption", style="id", layout_info="id")


def setup(interp):
    heap.install(interp)


# ------------------------------------------------------------------------------------ time arithmetic

def translate_time(c):
    """HH:MM:SS;FF (drop-frame label: wall clock) or HH:MM:SS:FF (non-drop: 1001/1000 slower), 30
    frames per timecode second, minus the offset, floored at zero"""
    drop = c.pick("drop", [True, False])
    fw = c.pick("frame_digits", [1, 2, 3, 4, 5])        # (get_time adds the words sent so far to the frame field: it outgrows two digits)
    H, M, S, F = c.digits("H", n=2), c.digits("M", n=2), c.digits("S", n=2), c.digits("F", n=fw)
    later = c.pick("offset_moves_captions_later", [False, True])      # a negative offset: "minus the offset" adds
    mag = c.int("offset_us", 0, 10 ** 11)
    offset = 0 - mag if later else mag
    stamp = H + ":" + M + ":" + S + (";" if drop else ":") + F
    r = c.call(_SccTimeTranslator._translate_time, stamp, offset)
    secs = c.ratio(H.val * 3600 + M.val * 60 + S.val, 1) + c.ratio(F.val, 30)
    T = secs * (1 if drop else Fraction(1001, 1000)) * 10 ** 6
    E = T - offset
    rv = c.exact(r)
    tol = 16 * U * (T + mag if later else T) + Fraction(1, 10 ** 9)
    c.ensure("never_negative", rv >= 0)
    c.ensure("value_when_positive", c.implies(E >= tol, c.conj(rv - E <= tol, E - rv <= tol)))
    c.ensure("floored_at_zero", c.implies(E <= -tol, rv == 0))
    c.ensure("never_above", c.disj(rv <= E + tol, c.conj(E < 0, rv <= tol)))


def get_time(c):
    """get_time(): the line's timecode with the frames counted so far added to its frame field,
    translated with the configured offset (modular: _translate_time by its contract)"""
    drop = c.pick("drop", [True, False])
    H, M, S, F = c.digits("H", n=2), c.digits("M", n=2), c.digits("S", n=2), c.digits("F", n=2)
    frames = c.int("frames", 0, 10 ** 4)
    offset = c.int("offset_us", -10 ** 11, 10 ** 11)
    sep = ";" if drop else ":"
    tt = c.new(_SccTimeTranslator, _time=H + ":" + M + ":" + S + sep + F, _frames=frames, offset=offset)
    seen = []

    def h_translate(interp, fn, args, kw):
        seen.append(args)
        return 12345
    if c.symbolic:
        c.interp.contracts["pycaption.scc:_SccTimeTranslator._translate_time"] = h_translate
        r = c.call(_SccTimeTranslator.get_time, tt, compare=False)
        c.ensure("one_translation", len(seen) == 1 and r == 12345)
        stamp, off = seen[0]
        f = c.view_fields(stamp, [("d", 2), ":", ("d", 2), ":", ("d", 2), sep, ("d", None)])
        c.ensure("stamp_shape", f is not None)
        if f is not None:
            c.ensure("fields_kept_and_frames_added", c.conj(f[0] == H.val, f[1] == M.val, f[2] == S.val, f[3] == F.val + frames))
        c.ensure("offset_passed", off is offset)
    else:
        r = c.call(_SccTimeTranslator.get_time, tt)
        exp = _SccTimeTranslator._translate_time(f"{H}:{M}:{S}{sep}{int(F) + frames}", offset)
        c.ensure("fields_kept_and_frames_added", r == exp)


def frame_counting(c):
    """start_at resets the frame counter, increment_frames adds exactly one"""
    n = c.int("frames", 0, 10 ** 6)
    tt = c.new(_SccTimeTranslator, _time="00:00:00;00", _frames=n, offset=0)
    c.call(_SccTimeTranslator.increment_frames, tt)
    c.ensure("one_more", tt._frames == n + 1)
    c.call(_SccTimeTranslator.start_at, tt, "01:02:03;04")
    c.ensure("reset", tt._frames == 0 and tt._time == "01:02:03;04")


def one_frame_per_word(c):
    """SCCReader._translate_word: exactly one frame per four-character word on every path, also for a
    skipped second half of a doubled code (modular: the handlers of the word classes are stubbed)"""
    word = c.pick("word", ["9420", "942f", "942c", "9470", "91b0", "9220", "c1c2", "ffff", "97a1"])
    dbl = c.pick("is_repeated_double", [True, False])
    n = c.int("frames", 0, 10 ** 6)
    tt = c.new(_SccTimeTranslator, _time="00:00:00;00", _frames=n, offset=0)
    rd = c.new(SCCReader, time_translator=tt)
    if c.symbolic:
        noop = lambda interp, fn, args, kw: None
        q = "pycaption.scc:SCCReader."
        c.interp.contracts.update({q + "_handle_double_command": (lambda interp, fn, args, kw: dbl),
                                   q + "_translate_command": noop, q + "_translate_special_char": noop,
                                   q + "_translate_extended_char": noop, q + "_translate_characters": noop})
        c.call(SCCReader._translate_word, rd, word, None, compare=False)
        c.ensure("exactly_one_frame", tt._frames == n + 1)
    else:
        r2 = SCCReader()
        r2.time_translator._frames = n
        if dbl:
            r2._translate_word(word)
            before = r2.time_translator._frames
        else:
            before = n
        c.call(SCCReader._translate_word, r2, word, None)
        c.ensure("exactly_one_frame", r2.time_translator._frames == before + 1)


# ------------------------------------------------------------------------------------ caption lists

def distinct(p, t):
    """pairwise distinct objects, stated as an injective numbering (every element knows its index): friendlier to
    the solver than 'for all i < j: t[i] != t[j]'"""
    j_ = z3.Int("j_")
    n = z3.Length(t)
    POS = z3.Function("POSITION_IN_" + str(abs(hash(t.sexpr())) % 10 ** 8), INT, INT)
    p.assume(z3.ForAll([j_], z3.Implies(z3.And(0 <= j_, j_ < n), POS(t[j_]) == j_)))


def update_last_batch(c):
    """a gap shorter than five frames before the next caption is closed (and an end of 0, 'not ended
    yet', always is); a longer gap keeps the end.  Any batch length (loop invariant)."""
    p = cur()
    batch = SymList(z3.Const("batch", SEQ), PreCaption)
    n = z3.Length(batch.t)
    distinct(p, batch.t)
    new = SymRef(PreCaption, z3.Int("new_caption"))
    j_ = z3.Int("j_")
    p.assume(z3.ForAll([j_], z3.Implies(z3.And(0 <= j_, j_ < n), batch.t[j_] != new.ref)))
    ST, EN = heap_array(p, PreCaption, "start"), heap_array(p, PreCaption, "end")
    NODES = heap_array(p, PreCaption, "nodes")
    p.assume(z3.And(ST[new.ref] >= 0, ST[new.ref] <= 10 ** 11, z3.Length(NODES[new.ref]) >= 1))
    p.assume(z3.ForAll([j_], z3.And(EN[j_] >= 0, EN[j_] <= 10 ** 11)))
    J = z3.Int("any_index")
    p.assume(z3.And(0 <= J, J < n))

    def inv(S):
        en = S.field(PreCaption, "end")
        return [("prefix_closed_suffix_untouched",
                 z3.If(J < S.i, en[batch.t[J]] == ST[new.ref], en[batch.t[J]] == EN[batch.t[J]])),
                ("new_caption_untouched", en[new.ref] == EN[new.ref])]
    c.interp.loop_hooks[("pycaption.scc.specialized_collections:TimingCorrectingCaptionList._update_last_batch", 1)] = \
        loop_rule("close.loop", inv, fields=[(PreCaption, "end")])
    c.call(TimingCorrectingCaptionList._update_last_batch, batch, new, compare=False)
    en = heap_array(p, PreCaption, "end")
    last_end = EN[batch.t[n - 1]]
    gap = ST[new.ref] - last_end
    five = z3.RealVal(str(FRAME * 5))
    tol = z3.RealVal("1/1000")
    closed = en[batch.t[J]] == ST[new.ref]
    kept = en[batch.t[J]] == EN[batch.t[J]]
    c.ensure("every_end_either_closed_or_kept", z3.Or(closed, kept))
    c.ensure("not_yet_ended_batch_is_closed", z3.Implies(last_end == 0, closed))
    c.ensure("gap_shorter_than_five_frames_is_closed", z3.Implies(gap < five - tol, closed))
    c.ensure("gap_of_more_than_five_frames_keeps_the_end", z3.Implies(z3.And(last_end != 0, gap >= five + 1 + tol), kept))
    c.ensure("start_times_untouched", heap_array(p, PreCaption, "start") is p.ghost["heap0"][("PreCaption", "start")])


def last_captions(c):
    """fix_last_captions_without_ending: exactly the trailing captions that never got an end (end 0)
    last four seconds; nothing else changes.  Any list length (reversed loop, invariant)."""
    p = cur()
    caps = SymList(z3.Const("caps", SEQ), Caption)
    n = z3.Length(caps.t)
    distinct(p, caps.t)
    ST, EN = heap_array(p, Caption, "start"), heap_array(p, Caption, "end")
    j_ = z3.Int("j_")
    p.assume(z3.ForAll([j_], z3.And(ST[j_] >= 0, ST[j_] <= 10 ** 11)))
    # M = number of trailing captions that never got an end (the maximal suffix with end == 0)
    M = z3.Int("M_trailing_without_end")
    p.assume(z3.And(0 <= M, M <= n))
    p.assume(z3.ForAll([j_], z3.Implies(z3.And(n - M <= j_, j_ < n), EN[caps.t[j_]] == 0)))
    p.assume(z3.Implies(M < n, EN[caps.t[n - 1 - M]] != 0))
    J = z3.Int("any_index")
    p.assume(z3.And(0 <= J, J < n))
    four = 4 * 10 ** 6

    fadd = z3.Function("fadd", z3.RealSort(), z3.RealSort(), z3.RealSort())

    def four_seconds(v, start):
        return v == fadd(start, z3.RealVal(four))       # the float sum start + 4 000 000 itself

    def inv(S):
        en = S.field(Caption, "end")
        done = J >= n - S.i
        return [("all_visited_had_no_end", S.i <= M),
                ("unvisited_untouched", z3.ForAll([j_], z3.Implies(z3.And(0 <= j_, j_ < n - S.i), en[caps.t[j_]] == EN[caps.t[j_]]))),
                ("visited_last_four_seconds", z3.Implies(done, four_seconds(en[caps.t[J]], ST[caps.t[J]])))]
    c.interp.loop_hooks[("pycaption.scc:fix_last_captions_without_ending", 1)] = \
        loop_rule("last.loop", inv, fields=[(Caption, "end")])
    c.call(fix_last_captions_without_ending, caps, compare=False)
    en = heap_array(p, Caption, "end")
    c.ensure("trailing_captions_without_end_last_four_seconds",
             z3.Implies(J >= n - M, four_seconds(en[caps.t[J]], ST[caps.t[J]])))
    c.ensure("every_other_end_is_kept", z3.Implies(J < n - M, en[caps.t[J]] == EN[caps.t[J]]))


def read_tail(c):
    """Region of SCCReader.read from the duration check to `return captions`, for the captions of ANY language label
    (`lang=`) and any number of them: a caption shown for less than 0.05 s is rejected with the timing error, an empty
    result with the no-captions error; otherwise every caption lasts at least 0.05 s (or has no end yet), and the
    trailing captions without end are completed (fix_last_captions_without_ending, by its own contract above) on
    the list of that same language."""
    from pycaption.base import CaptionSet
    p = cur()
    lang = c.pick("lang", ["en-US", "de-DE"])
    caps = SymList(z3.Const("caps", SEQ), Caption)
    n = z3.Length(caps.t)
    ST, EN = heap_array(p, Caption, "start"), heap_array(p, Caption, "end")
    fsub = z3.Function("fsub", z3.RealSort(), z3.RealSort(), z3.RealSort())
    flash = lambda x: z3.And(0 < fsub(EN[x], ST[x]), fsub(EN[x], ST[x]) < 50000)
    J = z3.Int("any_index")
    p.assume(z3.And(0 <= J, J < n))
    cs = c.new(CaptionSet, _captions={lang: caps}, _styles={}, layout_info=None)
    reader = c.new(SCCReader)
    fixed = []

    def inv(S):
        return [("no_flash_among_the_captions_checked_so_far", z3.Implies(J < S.i, z3.Not(flash(caps.t[J]))))]
    # (the loop contract is attached to the list it walks, so it follows the loop into a helper method)
    c.interp.loop_hooks[("*over*", caps.t.sexpr())] = loop_rule("durations.loop", inv)
    c.interp.contracts.update({
        "pycaption.scc:fix_last_captions_without_ending": lambda interp, fn, a, kw: fixed.append(a[0]),
        "pycaption.base:Caption.format_start": lambda interp, fn, a, kw: "00:00:00.000",
        "pycaption.base:Caption.get_text": lambda interp, fn, a, kw: "text"})
    # the region begins right after the statement that raises the line-length error (C15's business) and runs to the return
    def raises_line_length(st):
        return isinstance(st, ast.If) and any(isinstance(x, ast.Raise) and "CaptionLineLengthError" in ast.dump(x) for x in ast.walk(st))
    body = function_ast_of(SCCReader.read).body
    k = next((idx for idx, st in enumerate(body) if raises_line_length(st)), None)
    nxt = body[k + 1] if k is not None and k + 1 < len(body) else None
    r = c.run_region(SCCReader.read, first=lambda st: st is nxt, last=lambda st: isinstance(st, ast.Return),
                     locals_={"self": reader, "captions": cs, "lang": lang}, raises=(CaptionReadTimingError, CaptionReadNoCaptions))
    i = p.ghost.get("loop_index", {}).get("durations.loop")
    if isinstance(r, Raised) and isinstance(r.exc, CaptionReadTimingError):
        c.ensure("timing_error_only_for_a_caption_shorter_than_0.05s", i is not None and z3.And(i < n, flash(caps.t[i])))
    elif isinstance(r, Raised):
        c.ensure("no_captions_error_only_for_an_empty_result", n == 0)
    else:
        c.ensure("returns_the_caption_set", r.get("__return__") is cs)
        c.ensure("no_caption_shorter_than_0.05s_is_returned", z3.Not(flash(caps.t[J])))
        c.ensure("result_is_not_empty", n > 0)
        c.ensure("open_ends_completed_on_the_list_of_the_same_language", len(fixed) == 1 and fixed[0] is caps)


def function_ast_of(fn):
    from pyvc.interp import function_ast
    return function_ast(fn)


# ------------------------------------------------------------------------------------ bounded part

def program(rng, drop, dbl, sep_edm, gaps):
    """a pop-on program: list of (line frame number, [(word, is_control)]) and the reference timing"""
    lines, events = [], []
    t = 60
    k = len(gaps)
    for i in range(k):
        words = [("ENM", True), ("RCL", True), ("PAC", True), (f"T{i}", False)]
        if not sep_edm:
            words.append(("EDM", True))
        words.append(("EOC", True))
        lines.append((t, words))
        t += 40 + gaps[i]
        if sep_edm:
            lines.append((t, [("EDM", True)]))
            t += gaps[i]
    return lines


def encode(lines, drop, dbl):
    out = []
    timeline = []           # (kind, frames since stream start) for EOC / EDM first transmissions
    for li, (t, words) in enumerate(lines):
        ws = []
        line_drop = drop[li % len(drop)] if isinstance(drop, (list, tuple)) else drop
        for w, is_ctrl in words:
            enc = {"ENM": C.ctrl("ENM"), "RCL": C.ctrl("RCL"), "EDM": C.ctrl("EDM"), "EOC": C.ctrl("EOC"),
                   "PAC": C.pac(15)}.get(w)
            if w == "NUL":
                ws.append("8080")
                continue
            if w.startswith("S"):                 # a short text: one code word
                ws.extend(C.text_words({"S1": "AB", "S2": "CD"}[w]))
                continue
            if enc is None:
                for tw in C.text_words("TEXT" + w[1:]):
                    ws.append(tw)
                continue
            if w in ("EOC", "EDM"):
                timeline.append((w, t + len(ws), line_drop))
            ws.append(enc)
            if dbl:
                ws.append(enc)
        out.append((C.timecode(t, line_drop), ws))
    return C.scc_document(out), timeline


def reference_times(timeline, drop, offset_s, band=0):
    """band: the code decides the five-frame threshold with a tolerance of one microsecond (floats);
    a gap of five frames up to five frames + `band` microseconds counts as closed as well"""
    def us(ev):
        # the kind of timecode is a matter of the LINE the word is on (a spliced file has both kinds)
        rho = 1 if ev[1] else Fraction(1001, 1000)
        return max(Fraction(0), Fraction(ev[0], 30) * rho * 10 ** 6 - Fraction(offset_s) * 10 ** 6)
    caps = []
    for kind, *fr in timeline:
        if kind == "EOC":
            if caps and caps[-1][1] is None:
                caps[-1][1] = us(fr)
            caps.append([us(fr), None])
        elif caps and caps[-1][1] is None:
            caps[-1][1] = us(fr)
    # a gap shorter than five frames before the next caption is closed
    for a, b in zip(caps, caps[1:]):
        if a[1] is not None and b[0] - a[1] < 5 * FRAME + band:
            a[1] = b[0]
    if caps and caps[-1][1] is None:
        caps[-1][1] = caps[-1][0] + 4 * 10 ** 6
    return caps


def bounded(ctx, b):
    rng = random.Random(ctx.seed)
    gaps_alpha = [1, 4, 5, 6, 30]
    nopt = 0
    for drop, dbl, sep_edm in itertools.product([True, False], repeat=3):
        for gaps in itertools.product(gaps_alpha, repeat=2):
            for offset in (0, 1, 3, -2, 0.5, -1.25) + ((45,) if (drop, dbl, sep_edm, gaps) == (True, False, False, (30, 30)) else ()):
                lines = program(rng, drop, dbl, sep_edm, list(gaps) + [30])
                # reader options that do not concern pop-on timing leave it alone: the language label, roll-up simulation
                nopt += 1
                opts = [{}, {"lang": "fr-FR"}, {"simulate_roll_up": True}, {"lang": "de", "simulate_roll_up": True}][nopt % 4]

                def one(lines=lines, drop=drop, dbl=dbl, offset=offset, sep_edm=sep_edm, opts=opts):
                    doc, timeline = encode(lines, drop, dbl)
                    ref = reference_times(timeline, drop, offset)
                    flashes = any(0 < e - s < 50000 for s, e in ref)
                    try:
                        cs = _SHARED_READER.read(doc, offset=offset, **opts)
                    except CaptionReadTimingError:
                        return flashes, {"raised_timing_error_but_no_caption_is_shorter_than_0.05s": [(float(s), float(e)) for s, e in ref]}
                    if flashes:
                        return False, {"flash_caption_returned": [(float(s), float(e)) for s, e in ref]}
                    got = [(c_.start, c_.end) for c_ in cs.get_captions(opts.get("lang", "en-US"))]
                    ok = len(got) == len(ref) and all(abs(Fraction(g[0]) - r_[0]) <= 1 and abs(Fraction(g[1]) - r_[1]) <= 1
                                                      for g, r_ in zip(got, ref))
                    ok = ok and all(g[0] <= g[1] for g in got) and got == sorted(got)
                    return ok, {"got": got, "expected": [(float(s), float(e)) for s, e in ref], "doc": doc[:500], "options": opts}
                b.guard((drop, dbl, sep_edm, gaps, offset), one, sample={"drop": drop, "doubled": dbl, "separate_edm": sep_edm, "gaps": gaps, "offset_s": offset, "options": opts,
                                                                         "offset_beyond_caption_end": offset == 45})
    # spliced files: drop-frame and non-drop-frame lines in one stream, each line translated by its own separator
    for kinds, dbl, sep_edm in itertools.product([(True, False), (False, True), (True, True, False), (False, False, True, True)], [True, False], [True, False]):
        lines = program(rng, kinds[0], dbl, sep_edm, [30, 30, 30])
        for offset in (0, 2):
            def spliced(lines=lines, kinds=kinds, dbl=dbl, offset=offset):
                doc, timeline = encode(lines, kinds, dbl)
                ref = reference_times(timeline, None, offset)
                cs = _SHARED_READER.read(doc, offset=offset)
                got = [(c_.start, c_.end) for c_ in cs.get_captions("en-US")]
                ok = len(got) == len(ref) and all(abs(Fraction(g[0]) - r_[0]) <= 1 and abs(Fraction(g[1]) - r_[1]) <= 1 for g, r_ in zip(got, ref))
                return ok, {"got": got, "expected": [(float(s), float(e)) for s, e in ref], "doc": doc[:500]}
            b.guard(("spliced", kinds, dbl, sep_edm, offset), spliced, sample={"case": "lines with both kinds of timecode", "drop_by_line": kinds, "doubled": dbl, "separate_edm": sep_edm, "offset_s": offset})
    # a caption shown for a few frames only, the next one loaded right behind it on the same line: whether it is
    # a flash is decided AFTER a gap under five frames has been closed
    for drop, dbl in itertools.product([True, False], repeat=2):
        for shown, gap, short in itertools.product([0, 1, 2, 5], [0, 1, 2, 5], [True, False]):
            t1, t2 = ("S1", "S2") if short else ("T1", "T2")
            words = [("ENM", True), ("RCL", True), ("PAC", True), (t1, False), ("EOC", True)] + [("NUL", False)] * shown + \
                    [("EDM", True)] + [("NUL", False)] * gap + [("RCL", True), ("PAC", True), (t2, False), ("EOC", True)] + \
                    [("NUL", False)] * 30 + [("EDM", True)]

            lang = ["en-US", "fr-FR"][(shown + gap) % 2]

            def quick(words=words, drop=drop, dbl=dbl, lang=lang):
                doc, timeline = encode([(60, words)], drop, dbl)
                ref = reference_times(timeline, drop, 0)
                if reference_times(timeline, drop, 0, band=2) != ref:
                    return True, None       # a gap of exactly five frames: inside the tolerance band of the threshold
                flashes = any(0 < e - s < 50000 for s, e in ref)
                try:
                    cs = _SHARED_READER.read(doc, lang=lang)
                except CaptionReadTimingError:
                    return flashes, {"raised_timing_error_but_no_caption_is_shorter_than_0.05s": [(float(s), float(e)) for s, e in ref], "doc": doc}
                if flashes:
                    return False, {"flash_caption_returned": [(float(s), float(e)) for s, e in ref], "lang": lang}
                got = [(c_.start, c_.end) for c_ in cs.get_captions(lang)]
                ok = len(got) == len(ref) and all(abs(Fraction(g[0]) - r_[0]) <= 1 and abs(Fraction(g[1]) - r_[1]) <= 1 for g, r_ in zip(got, ref))
                return ok, {"got": got, "expected": [(float(s), float(e)) for s, e in ref], "doc": doc}
            b.guard(("quick", drop, dbl, shown, gap, short), quick, sample={"frames_shown": shown + 1, "padding_before_next_caption": gap, "short_text": short, "drop": drop, "doubled": dbl})
    # an unterminated final caption split over non-adjacent rows lasts four seconds in all its parts
    for drop in (True, False):
        def two(drop=drop):
            doc = C.scc_document([(C.timecode(60, drop), [C.ctrl("ENM"), C.ctrl("RCL"), C.pac(1)] + C.text_words("top") +
                                   [C.pac(15)] + C.text_words("bottom") + [C.ctrl("EOC")])])
            caps = _SHARED_READER.read(doc).get_captions("en-US")
            ok = len(caps) == 2 and all(abs(c_.end - c_.start - 4 * 10 ** 6) < 1 for c_ in caps) and caps[0].start == caps[1].start
            return ok, {"captions": [(c_.start, c_.end, c_.get_text()) for c_ in caps]}
        b.guard(("split_last", drop), two, sample={"case": "unterminated two-part caption", "drop": drop})
    # a standalone second EOC right after the first: duration below 0.05 s is rejected
    def three():
        doc = C.scc_document([(C.timecode(60), [C.ctrl("ENM"), C.ctrl("RCL"), C.pac(15)] + C.text_words("flash") + [C.ctrl("EOC"), C.ctrl("RCL"), C.ctrl("EDM")])])
        try:
            cs = _SHARED_READER.read(doc)
        except CaptionReadTimingError:
            return True, None
        caps = cs.get_captions("en-US")
        return all(not (0 < c_.end - c_.start < 50000) for c_ in caps), {"captions": [(c_.start, c_.end) for c_ in caps]}
    b.guard(("flash",), three, sample={"case": "EOC followed two frames later by EDM"})

    # the LAST caption of a stream shown for a single frame and then erased is a flash like any other
    for drop, dbl in itertools.product([True, False], repeat=2):
        words = [("ENM", True), ("RCL", True), ("PAC", True), ("T1", False), ("EOC", True)] + [("NUL", False)] * 40 + [("EDM", True)] + \
                [("NUL", False)] * 20 + [("RCL", True), ("PAC", True), ("T2", False), ("EOC", True), ("EDM", True)]

        def last_flash(words=words, drop=drop, dbl=dbl):
            doc, timeline = encode([(60, words)], drop, dbl)
            ref = reference_times(timeline, drop, 0)
            flashes = any(0 < e - s < 50000 for s, e in ref)
            try:
                cs = _SHARED_READER.read(doc)
            except CaptionReadTimingError:
                return flashes, {"raised_but_no_flash": [(float(s), float(e)) for s, e in ref]}
            got = [(c_.start, c_.end) for c_ in cs.get_captions("en-US")]
            return not flashes, {"flash_caption_returned": got, "reference": [(float(s), float(e)) for s, e in ref]}
        b.guard(("last_flash", drop, dbl), last_flash, sample={"case": "last caption erased right after it was shown", "drop": drop, "doubled": dbl})


def run(ctx):
    P = ctx.prove
    P("scc._SccTimeTranslator._translate_time", translate_time, functions=[_SccTimeTranslator._translate_time])
    P("scc._SccTimeTranslator.get_time", get_time, functions=[_SccTimeTranslator.get_time])
    P("scc._SccTimeTranslator.frames", frame_counting,
      functions=[_SccTimeTranslator.start_at, _SccTimeTranslator.increment_frames])
    P("scc.SCCReader._translate_word", one_frame_per_word, functions=[SCCReader._translate_word])
    P("scc.SCCReader.read[durations and completion]", read_tail, functions=[SCCReader.read], setup_interp=setup, fsem="uf", crosscheck=False)
    P("scc.TimingCorrectingCaptionList._update_last_batch", update_last_batch,
      functions=[TimingCorrectingCaptionList._update_last_batch], setup_interp=setup, crosscheck=False)
    P("scc.fix_last_captions_without_ending", last_captions, functions=[fix_last_captions_without_ending],
      setup_interp=setup, crosscheck=False, fsem="uf")
    import props.C16_list as TLS
    TLS.prove_list_skeleton(ctx)      # (a gap is closed on ALL parts of the previous caption; dropped items close nothing)
    import props.C06_commands as CM
    CM.prove_commands(ctx)
    import props.C06_line as LI
    LI.prove_line(ctx)
    LI.prove_read_head(ctx)
    ctx.bounded("programs", "pop-on programs of three captions: drop / non-drop timecode x single / doubled control "
                "codes x inline / separate EDM x inter-line gaps {1,4,5,6,30} frames squared x offsets {0,1,45} s, "
                "against exact-rational reference timing (start at the EOC word, end at the next EDM/EOC, gaps under "
                "five frames closed, last caption four seconds, flashes rejected); split unterminated caption",
                lambda b: bounded(ctx, b))
    ctx.trust("floats under the standard model: translated times within 16 ulp (+1e-9 us) of the exact rational; "
              "the five-frame threshold is decided outside a band of [5 frames - 0.001 us, 5 frames + 1 us + 0.001 us]; "
              "A: re.match (pattern translated), str slicing / replace / split on structured strings")
    ctx.assume("_translate_command's EOC / EDM transitions and the pop-on queue are bounded-checked only (whole-stream timing)")


# one reader object for every stream of the run: what a read returns must depend on the stream only,
# also right after a read that raised (reader reuse)
_SHARED_READER = SCCReader()
