"""SRTReader.read as a skeleton (C01): which stamp texts are converted, and which cue gets which result.

P[n] over documents of zero to three blocks x spellings of the timing line (blanks / tabs around the arrow and at the line
ends) x one or two text lines x the blank lines between blocks (one, two, with blanks in them) x the language argument.
`_srttomicro` is a recording stub whose answer names the stamp text it was given (its own contract: any hour count,
missing fraction - C01); `Caption`, `CaptionList`, `CaptionSet` are the real classes.

  * nothing but whole stamps of the document is handed to `_srttomicro` (white space around them aside, which `int()`
    ignores);
  * cue i of the result carries exactly the numbers of block i's start and end stamps (never another block's, never swapped), the
    cues come in the order of the blocks, under the language that was asked for, and no other language exists;
  * a document without a block raises the no-captions error; reading a second document with the same reader gives what a
    fresh reader gives.
"""
from pycaption.exceptions import CaptionReadNoCaptions
from pycaption.srt import SRTReader
from pyvc.verify import args_by_name as N, Raised

ARROWS = {"plain": " --> ", "tight": "-->", "tabs and trailing blanks": " \t-->  "}
GAPS = {"one blank line": "\n", "two blank lines": "\n\n", "a line of blanks": "   \n"}


def _doc(n, arrow, two_lines, gap):
    blocks = []
    for k in range(n):
        a, b = f"00:00:0{k + 1},000", f"00:00:0{k + 1},500"
        tail = "  " if arrow != "plain" else ""
        blocks.append(f"{k + 1}\n{a}{ARROWS[arrow]}{b}{tail}\nline {k}a\n" + (f"line {k}b\n" if two_lines else ""))
    return GAPS[gap].join(blocks), [(f"00:00:0{k + 1},000", f"00:00:0{k + 1},500") for k in range(n)]


def _value(stamp):
    """the stub's answer: a number that names the stamp text (a function of the text, so that a reader which remembers
    converted stamps is as right as one that converts each again)"""
    return int("".join(ch for ch in stamp if ch.isdigit()))


def srt_read_skeleton(c):
    n = c.pick("blocks", [0, 1, 2, 3])
    arrow = c.pick("timing_line", list(ARROWS))
    two = c.pick("two_text_lines", [False, True])
    gap = c.pick("between_blocks", list(GAPS)) if n > 1 else "one blank line"
    lang = c.pick("lang", [None, "de"])
    doc, stamps = _doc(n, arrow, two, gap)
    rd = c.new(SRTReader)
    log = []

    def stub(interp, fn, a, kw):
        st = N(fn, a, kw)["stamp"]
        log.append(st)
        return _value(st)
    c.interp.contracts["pycaption.srt:SRTReader._srttomicro"] = stub
    from pyvc.verify import require_callees
    require_callees(c.interp.contracts)      # (a renamed callee makes this contract undecided, never a violation)
    kw = {} if lang is None else {"lang": lang}
    want_lang = lang or "en-US"
    for turn in (1, 2):
        del log[:]
        r = c.call(SRTReader.read, rd, doc, raises=(CaptionReadNoCaptions,), compare=False, **kw)
        if n == 0:
            c.ensure(f"read{turn}/no_block_is_the_no_captions_error", isinstance(r, Raised) and not log)
            continue
        c.ensure(f"read{turn}/a_document_with_blocks_is_read", not isinstance(r, Raised))
        if isinstance(r, Raised):
            continue
        # (white space left around a stamp is harmless: `int()` ignores it - the stamp text itself must be whole)
        flat = [s_ for pair in stamps for s_ in pair]
        c.ensure(f"read{turn}/only_whole_stamps_of_the_document_are_converted", all(x_.strip() in flat for x_ in log))
        caps = r.get_captions(want_lang)
        c.ensure(f"read{turn}/one_language_the_one_asked_for", r.get_languages() == [want_lang])
        c.ensure(f"read{turn}/cue_i_has_the_numbers_returned_for_block_i", [(x.start, x.end) for x in caps] == [(_value(a_), _value(b_)) for a_, b_ in stamps])
        c.ensure(f"read{turn}/cue_i_has_the_text_of_block_i", [x.get_text() for x in caps] == [f"line {k}a" + (f"\nline {k}b" if two else "") for k in range(n)])


def prove_srt_read_skeleton(ctx):
    ctx.prove("srt.SRTReader.read", srt_read_skeleton, functions=[SRTReader.read, SRTReader._find_text_line], crosscheck=False)


# ------------------------------------------------------------------------------------ MicroDVDReader.read

def microdvd_read_skeleton(c):
    """MicroDVDReader.read as a skeleton: P[n] over documents of one to three cue lines x a frame-rate line (none, the
    declared rate first) x blank lines between cues x `lang`.  `_framestomicro` is a
    recording stub whose answer names (frame number, rate).

      * cue i carries the answers for ITS OWN start and end frame numbers, start and end never swapped, each converted
        at the rate of the document: the default 25.0, or the rate declared by a leading `{0}{0}rate` line;
      * a rate line is not a cue; cues come in the order of the lines, under the language asked for, no other exists;
      * a second document read with the same reader starts at the default rate again."""
    from pycaption.microdvd import MicroDVDReader as MR
    n = c.pick("cues", [1, 2, 3])
    rate = c.pick("rate_line", ["none", "first"])       # (a second declaration further down is not in the statement's grammar: not demanded)
    gap = c.pick("between_lines", ["\n", "\n\n"])
    lang = c.pick("lang", [None, "de"])
    frames = [(10 * (k + 1) + k, 10 * (k + 1) + 7) for k in range(n)]
    lines, rates, cur_rate = [], [], 25.0
    if rate != "none":
        lines.append("{0}{0}23.976")
        cur_rate = 23.976
    for k, (a_, b_) in enumerate(frames):
        if rate == "first and again before the last cue" and k == n - 1:
            lines.append("{0}{0}30")
            cur_rate = 30.0
        lines.append(f"{{{a_}}}{{{b_}}}cue {k}|second row")
        rates.append(cur_rate)
    doc = gap.join(lines) + "\n"
    plain = "\n".join(f"{{{a_}}}{{{b_}}}plain {k}" for k, (a_, b_) in enumerate(frames)) + "\n"
    rd = c.new(MR)
    log = []

    def stub(interp, fn, a, kw):
        x = N(fn, a, kw)
        log.append((x["framenum"], float(x["fps"])))
        return int(x["framenum"]) * 1000 + int(round(float(x["fps"])))
    c.interp.contracts["pycaption.microdvd:MicroDVDReader._framestomicro"] = stub
    from pyvc.verify import require_callees
    require_callees(c.interp.contracts)      # (a renamed callee makes this contract undecided, never a violation)
    kw = {} if lang is None else {"lang": lang}
    want_lang = lang or "und"
    val = lambda f_, r_: f_ * 1000 + int(round(r_))
    r = c.call(MR.read, rd, doc, compare=False, **kw)
    caps = r.get_captions(want_lang)
    c.ensure("one_language_the_one_asked_for", r.get_languages() == [want_lang])
    c.ensure("a_rate_line_is_not_a_cue_and_cues_come_in_order", [x.get_text() for x in caps] == [f"cue {k}\nsecond row" for k in range(n)])
    c.ensure("cue_i_has_its_own_frames_at_the_rate_in_force_at_its_line",
             [(x.start, x.end) for x in caps] == [(val(a_, r_), val(b_, r_)) for (a_, b_), r_ in zip(frames, rates)])
    c.ensure("only_frame_numbers_of_the_document_are_converted", all(f_ in [v for p_ in frames for v in p_] for f_, _ in log))
    del log[:]
    r2 = c.call(MR.read, rd, plain, compare=False, **kw)
    c.ensure("the_next_document_starts_at_the_default_rate",
             [(x.start, x.end) for x in r2.get_captions(want_lang)] == [(val(a_, 25.0), val(b_, 25.0)) for a_, b_ in frames])


def prove_microdvd_read_skeleton(ctx):
    from pycaption.microdvd import MicroDVDReader as MR
    ctx.prove("microdvd.MicroDVDReader.read", microdvd_read_skeleton, functions=[MR.read], crosscheck=False)


# ------------------------------------------------------------------------------------ WebVTTReader.read / _parse

def webvtt_read_skeleton(c, clause="times"):
    """WebVTTReader.read + _parse as a skeleton: P[n] over documents of one to three cues x what stands before and between
    them (nothing, a NOTE block, a STYLE block, cue identifiers) x one or two text lines x a last cue with or without a
    blank line after it x `lang`.  `_parse_timing_line` is a recording stub whose answer names the timing line it was
    given; `_decode` marks the text it was given.

      * every timing line is parsed once, in order, together with the start of the PREVIOUS cue (0 for the first) - the
        number the strict ordering test compares with;
      * cue i carries the start and end (C01; the layout: C12) returned for ITS OWN timing line and the decoded lines below it, in order;
        comment blocks, style blocks and cue identifiers are no cue text; the last cue is kept without a closing blank line;
      * one language, the one asked for; a second document read with the same reader gives what a fresh reader gives."""
    from pycaption.webvtt import WebVTTReader as WR
    n = c.pick("cues", [1, 2, 3])
    between = c.pick("before_each_cue", ["nothing", "NOTE block", "STYLE block", "identifier"])
    two = c.pick("two_text_lines", [False, True])
    closed = c.pick("blank_line_after_the_last_cue", [True, False])
    lang = c.pick("lang", [None, "de"])
    lines, timing = ["WEBVTT", ""], []
    for k in range(n):
        if between == "NOTE block":
            lines += ["NOTE a comment", "over two lines", ""]
        elif between == "STYLE block":
            lines += ["STYLE", "::cue { color: red }", ""]
        elif between == "identifier":
            lines += [f"cue id {k}"]
        t = f"00:0{k + 1}.000 --> 00:0{k + 1}.500 line:{k}"
        timing.append(t)
        lines += [t, f"text {k}a"] + ([f"text {k}b"] if two else [])
        if k < n - 1 or closed:
            lines.append("")
    doc = "\n".join(lines)
    rd = c.new(WR, ignore_timing_errors=True, time_shift_microseconds=0)
    log = []
    val = lambda t_: int("".join(ch for ch in t_.split("-->")[0] if ch.isdigit()))

    def timing_stub(interp, fn, a, kw):
        x = N(fn, a, kw)
        log.append((x["line"], x["last_start_time"]))
        return val(x["line"]), val(x["line"]) + 500, ("layout of", x["line"])
    c.interp.contracts["pycaption.webvtt:WebVTTReader._parse_timing_line"] = timing_stub
    c.interp.contracts["pycaption.webvtt:WebVTTReader._decode"] = lambda interp, fn, a, kw: "<" + N(fn, a, kw)["s"] + ">"
    from pyvc.verify import require_callees
    require_callees(c.interp.contracts)      # (a renamed callee makes this contract undecided, never a violation)
    kw = {} if lang is None else {"lang": lang}
    want_lang = lang or "en-US"
    for turn in (1, 2):
        del log[:]
        r = c.call(WR.read, rd, doc, compare=False, **kw)
        caps = r.get_captions(want_lang)
        c.ensure(f"read{turn}/one_language_the_one_asked_for", r.get_languages() == [want_lang])
        c.ensure(f"read{turn}/every_timing_line_parsed_once_in_order_with_the_previous_cues_start",
                 log == [(t_, 0 if k == 0 else val(timing[k - 1])) for k, t_ in enumerate(timing)])
        if clause == "layout":
            # (C12: the cue settings of a timing line belong to the cue below that line)
            c.ensure(f"read{turn}/cue_i_has_the_layout_of_its_own_timing_line", [x.layout_info for x in caps] == [("layout of", t_) for t_ in timing])
            continue
        c.ensure(f"read{turn}/cue_i_has_the_times_of_its_own_timing_line",
                 [(x.start, x.end) for x in caps] == [(val(t_), val(t_) + 500) for t_ in timing])
        c.ensure(f"read{turn}/cue_i_has_the_decoded_lines_below_its_timing_line_and_nothing_else",
                 [x.get_text() for x in caps] == [f"<text {k}a>" + (f"\n<text {k}b>" if two else "") for k in range(n)])


def prove_webvtt_read_skeleton(ctx, clause="times"):
    from pycaption.webvtt import WebVTTReader as WR
    ctx.prove("webvtt.WebVTTReader.read+_parse" + ("" if clause == "times" else "[layout]"), lambda c: webvtt_read_skeleton(c, clause),
              functions=[WR.read, WR._parse], crosscheck=False)


# ------------------------------------------------------------------------------------ DFXPReader.read

class _RTag:
    """a parsed element as DFXPReader.read sees it (A: the bs4 navigation contract - find_all in document order,
    find_parent = nearest enclosing element of that name, parents, attrs, get_text)"""
    def __init__(self, name, attrs=None, text="", children=()):
        self.name, self.attrs, self.text, self.children, self.parent = name, dict(attrs or {}), text, list(children), None
        self.layout_info = ("layout of", name, id(self))
        for ch in self.children:
            ch.parent = self

    def _walk(self):
        for ch in self.children:
            yield ch
            yield from ch._walk()

    def find_all(self, name, *a, **kw):
        return [t for t in self._walk() if t.name == name]

    def find_parent(self, name):
        p = self.parent
        while p is not None and p.name != name:
            p = p.parent
        return p

    @property
    def parents(self):
        p = self.parent
        while p is not None:
            yield p
            p = p.parent

    def get_text(self):
        return self.text + "".join(ch.get_text() for ch in self.children)

    @property
    def tt(self):
        return self if self.name == "tt" else next(t for t in self._walk() if t.name == "tt")


def _dfxp_shapes():
    P = lambda tag, text="words": _RTag("p", {"begin": "1s", "end": "2s", "tag": tag}, text)
    D = lambda lang, *ps: _RTag("div", {"xml:lang": lang} if lang else {}, children=ps)
    return {
        "one div": ("en", [D("en", P("a"), P("b"))]),
        "two languages": ("en", [D("en", P("a")), D("fr", P("b"), P("c"))]),
        "a language in two divs, another between them": ("en", [D("en", P("a")), D("fr", P("b")), D("en", P("c"), P("d"))]),
        "div without a language under a tt that has one": ("de", [D(None, P("a")), D("fr", P("b"))]),
        "no language anywhere": (None, [D(None, P("a"), P("b"))]),
        "blank paragraphs": ("en", [D("en", P("a"), P("blank", "  \n "), P("b")), D("fr", P("blank2", ""), P("c"))]),
        "a div inside a div": ("en", [D("en", P("a"), D("fr", P("b")), P("c"))]),
    }


def dfxp_read_skeleton(c):
    """DFXPReader.read + _convert_div_to_caption_list as a skeleton: P[n] over seven document shapes (one div; two
    languages; a language spread over two divs with another between them; a div without xml:lang under a tt that has one /
    has none; blank paragraphs; a div inside a div).  The parser is the navigation stub above (A), `_convert_p_tag_to_caption`
    and `_convert_style` are recording stubs.

      * every paragraph with text is converted exactly once and is a caption of the language of its NEAREST enclosing div
        (the div's own xml:lang, else the document's, else the default code); blank paragraphs are no captions;
      * the captions of a language are its paragraphs in document order - also when they stand in several divs;
        languages come in the order of their first div;
      * a second document read with the same reader gives what a fresh reader gives."""
    from pycaption.base import Caption, CaptionNode, DEFAULT_LANGUAGE_CODE
    from pycaption.dfxp.base import DFXPReader as DR
    shapes = _dfxp_shapes()
    name = c.pick("document", list(shapes))
    tt_lang, divs = shapes[name]
    root = _RTag("[document]", children=[_RTag("tt", {"xml:lang": tt_lang} if tt_lang else {}, children=[
        _RTag("head", children=[_RTag("styling", children=[_RTag("style", {"xml:id": "s1"})]),
                                _RTag("layout", children=[_RTag("region", {"xml:id": "r1"}, children=[_RTag("style", {"xml:id": "in_region"})])])]),
        _RTag("body", children=divs)])])
    rd = c.new(DR, read_invalid_positioning=False, nodes=[])
    log = []

    def h_p(interp, fn, a, kw):
        p_ = N(fn, a, kw)["p_tag"]
        log.append(p_)
        return Caption(10 ** 6, 2 * 10 ** 6, [CaptionNode.create_text(p_.attrs["tag"])])
    c.interp.contracts.update({
        "pycaption.dfxp.base:DFXPReader._get_dfxp_parser_class": lambda interp, fn, a, kw: (lambda content, **kw_: root),
        "pycaption.dfxp.base:DFXPReader._convert_p_tag_to_caption": h_p,
        "pycaption.dfxp.base:DFXPReader._convert_style": lambda interp, fn, a, kw: {"style of": N(fn, a, kw)["tag"].attrs.get("xml:id")}})
    from pyvc.verify import require_callees
    require_callees(c.interp.contracts)      # (a renamed callee makes this contract undecided, never a violation)
    # expected, from the statement: nearest enclosing div decides the language
    want, order = {}, []
    for p_ in root.find_all("p"):
        if not p_.get_text().strip():
            continue
        d_ = p_.find_parent("div")
        lang = d_.attrs.get("xml:lang") or tt_lang or DEFAULT_LANGUAGE_CODE
        want.setdefault(lang, []).append(p_.attrs["tag"])
    for d_ in root.find_all("div"):
        lang = d_.attrs.get("xml:lang") or tt_lang or DEFAULT_LANGUAGE_CODE
        if lang not in order:
            order.append(lang)
    for turn in (1, 2):
        del log[:]
        r = c.call(DR.read, rd, "<tt/>", compare=False)
        c.ensure(f"read{turn}/every_paragraph_with_text_converted_exactly_once",
                 sorted(p_.attrs["tag"] for p_ in log) == sorted(t_ for v in want.values() for t_ in v))
        c.ensure(f"read{turn}/languages_in_the_order_of_their_first_div", [l for l in r.get_languages() if r.get_captions(l)] == [l for l in order if want.get(l)])
        c.ensure(f"read{turn}/each_language_has_the_paragraphs_of_its_own_divs_in_document_order",
                 {l: [x.get_text() for x in r.get_captions(l)] for l in r.get_languages() if r.get_captions(l)} == want)
        c.ensure(f"read{turn}/styles_of_the_head_outside_regions", dict(r.get_styles()) == {"s1": {"style of": "s1"}})


def prove_dfxp_read_skeleton(ctx):
    from pycaption.dfxp.base import DFXPReader as DR
    ctx.prove("dfxp.DFXPReader.read", dfxp_read_skeleton, functions=[DR.read, DR._convert_div_to_caption_list], crosscheck=False)


# ------------------------------------------------------------------------------------ SAMIReader.read

def sami_read_skeleton(c):
    """SAMIReader.read as a skeleton (C14; shared with C01): P[n] over the languages a document declares (one, two, two in
    the other order, three of which one has no class of its own) x the order of the style classes.  The SAMI pre-parser,
    the XML parser, `_build_layout`, `_translate_lang` and `_translate_parsed_style` are recording stubs.

      * every declared language is translated exactly once, in the order of declaration, from the one parsed document,
        with the layout of the class that names THAT language (else the document's `p` layout);
      * the result has exactly the declared languages, in that order, each with the captions translated for it - never
        another language's; a second document read with the same reader gives what a fresh reader gives."""
    from pycaption.base import Caption, CaptionList, CaptionNode
    from pycaption.sami import SAMIReader as SR
    langs = c.pick("declared_languages", [("en-US",), ("en-US", "fr-FR"), ("fr-FR", "en-US"), ("en", "en-US", "de")])
    rev = c.pick("classes_in_reverse_order", [False, True])
    classes = [(".cc_" + l.lower().replace("-", ""), {"lang": l, "margin-top": l}) for l in langs if l != "de"]
    if rev:
        classes.reverse()
    doc_styles = dict([("p", {"margin-top": "p"})] + classes + [("span", {"lang": langs[0]}), ("#source", {"name": "x"})])
    soup = ("soup",)
    log = []

    class Pre:
        def feed(self, content):
            log.append(("feed", content))
            return "<cleaned>", doc_styles, list(langs)

    def h_layout(interp, fn, a, kw):
        x = N(fn, a, kw)
        return ("layout", x["styles"].get("margin-top"), x["inherit_from"])

    def h_lang(interp, fn, a, kw):
        x = N(fn, a, kw)
        log.append(("lang", x["language"], x["sami_soup"] is soup, x["parent_layout"]))
        return CaptionList([Caption(10 ** 6, 2 * 10 ** 6, [CaptionNode.create_text("cue of " + x["language"])])])
    q = "pycaption.sami:SAMIReader."
    c.interp.contracts.update({
        q + "_get_sami_parser_class": lambda interp, fn, a, kw: Pre,
        q + "_get_xml_parser_class": lambda interp, fn, a, kw: (lambda content, **kw_: (log.append(("xml", content)), soup)[1]),
        q + "_build_layout": h_layout, q + "_translate_lang": h_lang,
        q + "_translate_parsed_style": lambda interp, fn, a, kw: N(fn, a, kw)["styles"]})
    from pyvc.verify import require_callees
    require_callees(c.interp.contracts)      # (a renamed callee makes this contract undecided, never a violation)
    rd = c.new(SR, line=[], first_alignment=None)
    glob = ("layout", "p", None)
    for turn in (1, 2):
        del log[:]
        r = c.call(SR.read, rd, "<SAMI/>", compare=False)
        calls = [e_ for e_ in log if e_[0] == "lang"]
        c.ensure(f"read{turn}/one_parse_of_the_cleaned_document", [e_ for e_ in log if e_[0] in ("feed", "xml")] == [("feed", "<SAMI/>"), ("xml", "<cleaned>")])
        c.ensure(f"read{turn}/every_declared_language_translated_once_in_order_from_that_document", [(e_[1], e_[2]) for e_ in calls] == [(l, True) for l in langs])
        c.ensure(f"read{turn}/with_the_layout_of_the_class_that_names_it_else_the_documents",
                 [e_[3] for e_ in calls] == [glob if l == "de" else ("layout", l, glob) for l in langs])
        c.ensure(f"read{turn}/exactly_the_declared_languages_in_order", r.get_languages() == list(langs))
        c.ensure(f"read{turn}/each_language_has_the_captions_translated_for_it", [[x.get_text() for x in r.get_captions(l)] for l in langs] == [["cue of " + l] for l in langs])


def prove_sami_read_skeleton(ctx):
    from pycaption.sami import SAMIReader as SR
    ctx.prove("sami.SAMIReader.read", sami_read_skeleton, functions=[SR.read], crosscheck=False)


# ------------------------------------------------------------------------------------ DFXPReader._convert_p_tag_to_caption

def dfxp_p_skeleton(c):
    """DFXPReader._convert_p_tag_to_caption over histories of two paragraphs on ONE reader object (C01, C10): the first
    paragraph is converted, has no nodes, or is refused (its times raise the timing error - after or before its nodes were
    looked at); then a second paragraph is converted.  `_find_and_convert_times`, `_convert_tag_to_node` (which appends to
    `self.nodes`) and `_convert_style` are recording stubs.

      * a caption carries the times returned for ITS paragraph, that paragraph's own layout and style, and exactly the
        nodes produced for it - nothing of an earlier paragraph, converted, empty or refused; a paragraph that produces
        no node is no caption."""
    from pycaption.base import CaptionNode
    from pycaption.dfxp.base import DFXPReader as DR
    from pycaption.exceptions import CaptionReadTimingError
    first = c.pick("first_paragraph", ["converted", "without nodes", "refused"])
    rd = c.new(DR, read_invalid_positioning=False, nodes=[])
    p1, p2 = _RTag("p", {"tag": "one"}, "one"), _RTag("p", {"tag": "two"}, "two")

    def h_times(interp, fn, a, kw):
        p_ = N(fn, a, kw)["p_tag"]
        if p_ is p1 and first == "refused":
            raise CaptionReadTimingError("no begin")
        return (1000, 2000) if p_ is p1 else (3000, 4000)

    def h_nodes(interp, fn, a, kw):
        x = N(fn, a, kw)
        me, p_ = x["self"], x["tag"]
        if not (p_ is p1 and first == "without nodes"):
            me.nodes.append(CaptionNode.create_text("text of " + p_.attrs["tag"]))
        return None
    q = "pycaption.dfxp.base:DFXPReader."
    c.interp.contracts.update({q + "_find_and_convert_times": h_times, q + "_convert_tag_to_node": h_nodes,
                               q + "_convert_style": lambda interp, fn, a, kw: {"style of": N(fn, a, kw)["tag"].attrs["tag"]}})
    from pyvc.verify import require_callees
    require_callees(c.interp.contracts)
    r1 = c.call(DR._convert_p_tag_to_caption, rd, p1, raises=(CaptionReadTimingError,), compare=False)
    if first == "converted":
        c.ensure("first/its_own_times_nodes_style_and_layout", not isinstance(r1, Raised) and r1 is not None and (r1.start, r1.end) == (1000, 2000)
                 and [n_.content for n_ in r1.nodes] == ["text of one"] and r1.style == {"style of": "one"} and r1.layout_info == p1.layout_info)
    elif first == "without nodes":
        c.ensure("first/no_node_no_caption", r1 is None)
    else:
        c.ensure("first/the_timing_error_reaches_the_caller", isinstance(r1, Raised))
    r2 = c.call(DR._convert_p_tag_to_caption, rd, p2, compare=False)
    c.ensure("second/its_own_times_style_and_layout", r2 is not None and (r2.start, r2.end) == (3000, 4000) and r2.style == {"style of": "two"} and r2.layout_info == p2.layout_info)
    c.ensure("second/exactly_the_nodes_produced_for_it_nothing_of_the_first", r2 is not None and [n_.content for n_ in r2.nodes] == ["text of two"])
    if first == "converted" and not isinstance(r1, Raised) and r1 is not None:
        c.ensure("first/its_nodes_are_still_its_own_after_the_second", [n_.content for n_ in r1.nodes] == ["text of one"])


def prove_dfxp_p_skeleton(ctx):
    from pycaption.dfxp.base import DFXPReader as DR
    ctx.prove("dfxp.DFXPReader._convert_p_tag_to_caption", dfxp_p_skeleton, functions=[DR._convert_p_tag_to_caption], crosscheck=False)
