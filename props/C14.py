"""C14 - each language's captions stay under their language, in document order."""
import itertools
import os
import random

from pycaption import (CaptionSet, CaptionList, Caption, CaptionNode, DFXPReader, DFXPWriter, SAMIReader, SAMIWriter,
                       WebVTTWriter, SRTReader, WebVTTReader, MicroDVDReader, SCCReader)
from pycaption.base import CaptionSet as CS
from pycaption.dfxp.extras import LegacyDFXPWriter
from pycaption.geometry import Layout, Point, Size, UnitEnum
from pycaption.sami import SAMIParser
from pyvc.verify import Raised
from props import samples
from refs import parsers

T = CaptionNode.create_text


# ------------------------------------------------------------------------------------ proofs

def get_languages_order(c):
    """CaptionSet.get_languages: the keys in insertion order (A: dict preserves insertion order)"""
    order = c.pick("order", list(itertools.permutations(["en", "fr", "de"])))
    d = {}
    for l in order:
        d[l] = []
    cs = c.new(CS, _captions=d, _styles={}, layout_info=None)
    r = c.call(CS.get_languages, cs)
    c.ensure("insertion_order", r == list(order))


def legacy_force(c):
    """LegacyDFXPWriter._force_language: the named language when present"""
    langs = c.pick("langs", [["en"], ["en", "fr"], ["fr", "en", "de"]])
    force = c.pick("force", ["en", "fr", "de", "xx"])
    r = c.call(LegacyDFXPWriter._force_language, c.new(LegacyDFXPWriter), force, langs)
    if force in langs:
        c.ensure("selects_exactly_the_named_language", r == force)
    else:
        c.ensure("falls_back_to_a_language_of_the_set", r in langs)


def sami_find_lang(c):
    """SAMIParser._find_lang: the lang attribute (first two characters), else the language of the class"""
    styles = {"encc": {"lang": "en-US"}, "frcc": {"lang": "fr-FR"}, "plain": {"color": "red"}}
    attrs = c.pick("attrs", [[("lang", "de-DE")], [("class", "ENCC")], [("class", "frcc")], [("class", "PLAIN")],
                             [("class", "nosuch")], [("class", "PLAIN"), ("lang", "it")], [("id", "x")], []])
    p = c.new(SAMIParser, styles=styles)
    r = c.call(SAMIParser._find_lang, p, list(attrs))
    want = {(("lang", "de-DE"),): "de", (("class", "ENCC"),): "en-US", (("class", "frcc"),): "fr-FR", (("class", "PLAIN"),): None,
            (("class", "nosuch"),): None, (("class", "PLAIN"), ("lang", "it")): "it", (("id", "x"),): None, (): None}[tuple(attrs)]
    c.ensure("language_of_the_paragraph", r == want)


def sami_paragraph_class(c):
    """SAMIWriter._recreate_p_lang: a paragraph is written under the class of ITS language - the caption's own style
    class only if that class declares a language (`lang` rule); a class that says nothing about a language, or
    is not declared at all, never decides the language of a paragraph"""
    from pycaption import Caption
    styles = {"ENCC": {"lang": "en-US", "color": "white"}, "shared": {"color": "red", "font-family": "Arial"}, "empty": {}}
    cap_style = c.pick("caption_style", [{}, {"class": "ENCC"}, {"class": "shared"}, {"class": "empty"}, {"class": "undeclared"},
                                          {"italics": True}, {"class": "shared", "italics": True}])
    lang = c.pick("language_being_written", ["fr-FR", "en-US"])
    cs = CaptionSet({"fr-FR": CaptionList(), "en-US": CaptionList()}, styles={k: dict(v) for k, v in styles.items()})
    cap = Caption(0, 10 ** 6, [CaptionNode.create_text("x")], style=dict(cap_style))
    r = c.call(SAMIWriter._recreate_p_lang, SAMIWriter(), cap, lang, cs)
    cls = cap_style.get("class")
    want = cls if (cls in styles and "lang" in styles[cls]) else lang
    c.ensure("class_of_the_paragraph_is_that_of_its_language", r == want)


def webvtt_write_language(c, layout_clauses=False):
    """WebVTTWriter.write: exactly the captions of ONE language are converted, in order - the named one (`lang=`), the
    first one when none is named, none when the named language is absent - and the language-level layout the cues fall
    back to (`global_layout`) is that language's, set before the first caption is converted.  One or two languages of
    any length; `_convert_caption` by a recording stub, `deepcopy` by identity (C09 is about the copy)."""
    import z3
    from pyvc import heap, sym
    from pyvc.heap import SymList, SymRef, SEQ, INT, declare, loop_rule, as_seq
    from pyvc.sym import cur
    from pycaption import WebVTTWriter, Caption
    heap.install(c.interp)
    p = cur()
    k = c.pick("languages", [1, 2])
    lang = c.pick("lang", [None, "l0", "l1", "zz"])
    # (a language without a layout of its own: the cues then fall back to nothing - not to what an earlier write left)
    LAYOUTS = ["layout-of-l0", "layout-of-l1"] if (not layout_clauses or c.pick("languages_have_layouts", [True, False])) else [None, None]
    lists = [SymList(z3.Const(f"captions_{i}", SEQ), Caption, attrs={"layout_info": LAYOUTS[i]}) for i in range(k)]
    p.assume(z3.Or(*[z3.Length(l.t) > 0 for l in lists]))             # (an empty set returns the bare header: separate path below)
    cs = c.new(CS, _captions={f"l{i}": lists[i] for i in range(k)}, _styles={}, layout_info=None)
    w = c.new(WebVTTWriter, global_layout="stale layout of an earlier write", video_width=None, video_height=None, relativize=True, fit_to_screen=True)
    seen = []

    def h_convert(interp, fn, args, kw):
        seen.append(args[0].global_layout if hasattr(args[0], "global_layout") else interp.getattr(args[0], "global_layout"))
        return args[2]                                    # the caption itself stands for its cue block
    CONV = z3.Function("CONVERTED", SEQ, INT, SEQ)          # identity map of the prefix (the stub returns the caption)

    def inv(S):
        seq = S.seq.t
        S.p.assume(z3.Implies(S.i < S.n, z3.SubSeq(seq, 0, S.i + 1) == z3.Concat(z3.SubSeq(seq, 0, S.i), z3.Unit(seq[S.i]))))
        S.p.assume(z3.SubSeq(seq, 0, S.n) == seq)
        return [("cue_blocks_are_the_captions_of_the_language_so_far", as_seq(S.local("__comp")) == z3.SubSeq(seq, 0, S.i))]
    c.interp.loop_hooks[("pycaption.webvtt:WebVTTWriter.write", ("comp", 1))] = loop_rule("convert.comp", inv, locals_={"__comp": ("seq", Caption)})
    joined = []

    class Joined(str):
        pass
    old_getattr = c.interp.getattr

    def join_hook(o, name):
        if isinstance(o, str) and name == "join":
            def join(xs):
                if isinstance(xs, SymList):
                    joined.append(xs)
                    return Joined("<cue blocks>")
                return o.join(xs)
            return join
        return old_getattr(o, name)
    c.interp.getattr = join_hook
    c.interp.contracts.update({"pycaption.webvtt:WebVTTWriter._convert_caption": h_convert,
                               "copy:deepcopy": lambda interp, fn, args, kw: args[0]})
    r = c.call(WebVTTWriter.write, w, cs, lang, compare=False)
    want = 0 if lang in (None, "l0") else 1 if (lang == "l1" and k == 2) else None
    if want is None:
        c.ensure("an_absent_language_yields_no_cue", not joined or z3.Length(joined[0].t) == 0)
    else:
        c.ensure("one_join_of_the_cue_blocks", len(joined) == 1)
        if joined:
            c.ensure("exactly_the_captions_of_the_selected_language_in_order", joined[0].t == lists[want].t)
        if not layout_clauses:
            return               # (which layout the cues fall back to is C12's clause, not C14's)
        layout_then = c.interp.getattr(w, "global_layout")
        exp_layout = LAYOUTS[want]
        nonempty = z3.Length(lists[want].t) > 0
        c.ensure("fallback_layout_is_that_of_the_selected_language", z3.Implies(nonempty, z3.BoolVal(layout_then == exp_layout)))
        c.ensure("fallback_layout_set_before_any_caption_is_converted", all(x == exp_layout or x is None for x in seen))


# ------------------------------------------------------------------------------------ bounded

def gen_set(rng, nlangs):
    # (codes that are prefixes of one another: selecting 'en' must not select 'en-GB')
    langs = rng.sample(["en-US", "fr-FR", "de-DE", "es-ES", "en", "en-GB"], nlangs)
    mode = rng.choice(["interleaved", "coinciding", "disjoint", "second_earlier", "empty_first", "empty_middle", "frames"])
    caps = {}
    for li, l in enumerate(langs):
        k = rng.choice([1, 2, 3])
        if (mode == "empty_first" and li == 0 and nlangs > 1) or (mode == "empty_middle" and li == 1 and nlangs > 2):
            caps[l] = CaptionList()
            continue
        if mode == "frames":
            # frame-based times (SCC / DFXP frame counts): back-to-back cues at instants that are not whole milliseconds
            fr = sorted(rng.sample(range(30 + 7 * li, 900, 7), k + 1))
            caps[l] = CaptionList([Caption(fr[j] * 1001000 / 30, fr[j + 1] * 1001000 / 30, [T(f"{l}#{j}")]) for j in range(k)])
            continue
        if mode == "coinciding":
            starts = [1000 * (2 * j + 1) for j in range(k)]
        elif mode == "disjoint":
            starts = [100000 * li + 1000 * (2 * j + 1) for j in range(k)]
        elif mode == "second_earlier":
            starts = [1000 * (2 * j + 1) + (5000 if li == 0 else 0) for j in range(k)]
        else:
            starts = sorted(rng.sample(range(1, 60), k))
            starts = [s * 1000 + li * 250 for s in starts]
        lst = []
        for j, s in enumerate(starts):
            nxt = starts[j + 1] if j + 1 < len(starts) else s + 3000
            e = rng.choice([nxt, s + (nxt - s) // 2]) if nxt - s >= 2 else nxt
            lst.append(Caption(s * 1000, e * 1000, [T(f"{l}#{j}")]))
        caps[l] = CaptionList(lst)
    if rng.random() < 0.35:
        # every caption refers to one style class that says nothing about a language (what DFXPReader returns for
        # documents whose paragraphs share a style)
        for lst in caps.values():
            for cp in lst:
                cp.style = {"class": "shared"}
        return langs, CaptionSet(caps, styles={"shared": {"color": "red", "font-family": "Arial"}})
    return langs, CaptionSet(caps)


def texts_of(cs):
    return {l: [(c_.start, c_.get_text()) for c_ in cs.get_captions(l)] for l in cs.get_languages()}


SHARED_WRITERS = {}
SHARED_READERS = {}        # one reader object for every document of the run: what a read returns depends on the document only


def bounded(ctx, b):
    rng = random.Random(ctx.seed)
    SHARED_WRITERS.update({"sami": SAMIWriter(), "dfxp": DFXPWriter()})
    SHARED_READERS.update({"sami": SAMIReader(), "dfxp": DFXPReader()})
    n = 150 if not ctx.thorough else 3000
    for i in range(n):
        langs, cs = gen_set(rng, rng.choice([1, 2, 3, 4]))
        want = texts_of(cs)

        def sami_out(cs=cs, langs=langs, want=want):
            doc = SHARED_WRITERS["sami"].write(cs)       # (one writer object for every document of the run)
            d = parsers.parse_sami(doc)
            if d["syncs"] != sorted(d["syncs"]):
                return False, {"sync_blocks_out_of_order": d["syncs"], "doc": doc[-900:]}
            got = {k: [(cu["start"], cu["lines"][0]) for cu in v] for k, v in d["cues"].items()}
            exp = {l: [(s // 1000 * 1000, t) for s, t in want[l]] for l in langs if want[l]}
            if got != exp:
                return False, {"paragraphs_per_language": got, "expected": exp, "doc": doc[-900:]}
            back = SHARED_READERS["sami"].read(doc)
            bl = back.get_languages()
            first_seen = []
            for s, l in sorted((c_[0], l) for l in langs for c_ in want[l][:1]):
                pass
            if {l: [t for _, t in texts_of(back)[l]] for l in bl} != {l: [t for _, t in want[l]] for l in langs if want[l]}:
                return False, {"read_back": texts_of(back), "expected": want}
            # every cue but the last of its language keeps its end (a blank sync of that language, or the next cue)
            for l in bl:
                orig, got_ = cs.get_captions(l), back.get_captions(l)
                ends = [(o.end // 1000 * 1000, g_.end) for o, g_ in zip(orig[:-1], got_[:-1])]
                if any(a != b_ for a, b_ in ends):
                    return False, {"language": l, "ends_read_back": [g_.end for g_ in got_], "expected_ends": [o.end for o in orig], "doc": doc[-900:]}
            return True, None
        b.guard(("sami", i), sami_out, sample={"format": "sami", "languages": langs, "cues": want})

        def dfxp_out(cs=cs, langs=langs, want=want):
            doc = SHARED_WRITERS["dfxp"].write(cs)
            d = parsers.parse_dfxp(doc)
            if d["langs"] != langs:
                return False, {"div_languages": d["langs"], "expected": langs}
            got = {l: [cu["lines"][0] for cu in d["cues"][l]] for l in langs}
            if got != {l: [t for _, t in want[l]] for l in langs}:
                return False, {"paragraphs": got, "expected": want}
            nonempty = [l for l in langs if want[l]]
            if not nonempty:
                return True, None
            back = SHARED_READERS["dfxp"].read(doc)
            return (back.get_languages() == langs and {l: [t for _, t in texts_of(back)[l]] for l in langs} == {l: [t for _, t in want[l]] for l in langs}), \
                {"read_back_languages": back.get_languages(), "read_back": texts_of(back)}
        b.guard(("dfxp", i), dfxp_out, sample={"format": "dfxp", "languages": langs})
        # language options select exactly the named language
        pick = rng.choice(langs)

        def options(cs=cs, langs=langs, want=want, pick=pick):
            d = parsers.parse_dfxp(DFXPWriter().write(cs, force=pick))
            ok = d["langs"] == [pick] and [cu["lines"][0] for cu in d["cues"][pick]] == [t for _, t in want[pick]]
            d2 = parsers.parse_dfxp(LegacyDFXPWriter().write(cs, force=pick))
            ok = ok and d2["langs"] == [pick]
            from pycaption.dfxp import SinglePositioningDFXPWriter
            d3 = parsers.parse_dfxp(SinglePositioningDFXPWriter(Layout(origin=Point(Size(10, UnitEnum.PERCENT), Size(20, UnitEnum.PERCENT)))).write(cs, force=pick))
            ok = ok and d3["langs"] == [pick] and [cu["lines"][0] for cu in d3["cues"][pick]] == [t for _, t in want[pick]]
            # WebVTT lang= writes exactly the named language: its cues, or none when it has none / is absent
            v = parsers.parse_webvtt(WebVTTWriter().write(cs, lang=pick))
            ok = ok and [cu["lines"][0] for cu in v] == [t for _, t in want[pick]]
            if any(want[l] for l in langs):
                ok = ok and parsers.parse_webvtt(WebVTTWriter().write(cs, lang="zz-ZZ")) == []
            # the writers that merge concurrent captions keep every language's cues under that language
            for Wm in (LegacyDFXPWriter, SinglePositioningDFXPWriter):
                dm = parsers.parse_dfxp(Wm().write(cs))
                got_m = {l: [cu["lines"][0] for cu in dm["cues"].get(l, [])] for l in dm["langs"]}
                if dm["langs"] != langs or got_m != {l: [t for _, t in want[l]] for l in langs}:
                    return False, {"writer": Wm.__name__, "divs": dm["langs"], "cues": got_m, "expected": want}
            first = langs[0]
            if want[first]:
                v0 = parsers.parse_webvtt(WebVTTWriter().write(cs))
                ok = ok and [cu["lines"][0] for cu in v0] == [t for _, t in want[first]]
            return ok, {"forced": pick, "languages": langs}
        b.guard(("options", i), options, sample={"force": pick, "languages": langs})
    # readers label their single list with lang=
    for R, doc in ((SRTReader, samples.SRT_DOCS[0]), (WebVTTReader, samples.VTT_DOCS[0]), (MicroDVDReader, samples.MDVD_DOCS[0]),
                   (SCCReader, samples.scc_docs()[0])):
        def lab(R=R, doc=doc):
            return R().read(doc, lang="xx-YY").get_languages() == ["xx-YY"], {"reader": R.__name__}
        b.guard(("lang=", R.__name__), lab, sample={"reader": R.__name__, "lang": "xx-YY"})
    # DFXP div without xml:lang: document language, then the configured default
    body = '<body><div xml:lang="de"><p begin="1s" end="2s">de eins</p></div><div><p begin="1s" end="2s">doc one</p></div><div xml:lang="fr"><p begin="3s" end="4s">fr</p></div></body>'
    for ttlang, exp in (('xml:lang="en"', ["de", "en", "fr"]), ("", ["de", "und", "fr"]), ('xml:lang="it"', ["de", "it", "fr"]), ("", ["de", "und", "fr"])):
        def fb(ttlang=ttlang, exp=exp):
            cs2 = SHARED_READERS["dfxp"].read(f'<tt xmlns="http://www.w3.org/ns/ttml" {ttlang}>{body}</tt>')
            mid = exp[1]
            return cs2.get_languages() == exp and [c_.get_text() for c_ in cs2.get_captions(mid)] == ["doc one"] and \
                [c_.get_text() for c_ in cs2.get_captions("de")] == ["de eins"], {"languages": cs2.get_languages(), "expected": exp}
        b.guard(("dfxp-fallback", ttlang), fb, sample={"tt": ttlang, "expected_languages": exp})
    # SAMI languages in order of first appearance
    for order in itertools.permutations(["ENCC", "FRCC", "DECC"]):
        def so(order=order):
            cls2lang = {"ENCC": "en-US", "FRCC": "fr-FR", "DECC": "de-DE"}
            ps = "".join(f'<SYNC start="{(k + 1) * 1000}"><P class="{c}">{c}</P></SYNC>' for k, c in enumerate(order))
            doc = ('<SAMI><HEAD><STYLE TYPE="text/css"><!-- .ENCC {Name: E; lang: en-US;} .FRCC {Name: F; lang: fr-FR;} '
                   '.DECC {Name: D; lang: de-DE;} --></STYLE></HEAD><BODY>' + ps + "</BODY></SAMI>")
            got = SHARED_READERS["sami"].read(doc).get_languages()
            return got == [cls2lang[c] for c in order], {"languages": got, "expected": [cls2lang[c] for c in order]}
        b.guard(("sami-order", order), so, sample={"order_of_first_appearance": order})


def bounded_repeated_divs(ctx, b):
    """DFXP documents in which a language has several divs, with a div of another language between them, or a div
    that inherits the document language after one that declares it: languages in order of FIRST appearance, every
    language with all of its cues in document order, none shared"""
    tt = '<tt xmlns="http://www.w3.org/ns/ttml" xml:lang="%s"><body>%s</body></tt>'
    def div(lang, texts, t0):
        attr = f' xml:lang="{lang}"' if lang else ""
        return f"<div{attr}>" + "".join(f'<p begin="{t0 + k}s" end="{t0 + k}.5s">{x}</p>' for k, x in enumerate(texts)) + "</div>"
    cases = {"en fr en": ("en", [("en", ["en 1", "en 2"]), ("fr", ["fr 1"]), ("en", ["en 3"])], {"en": ["en 1", "en 2", "en 3"], "fr": ["fr 1"]}),
             "en fr en fr": ("en", [("en", ["en 1"]), ("fr", ["fr 1"]), ("en", ["en 2"]), ("fr", ["fr 2"])], {"en": ["en 1", "en 2"], "fr": ["fr 1", "fr 2"]}),
             "declared then inherited": ("de", [("de", ["de 1"]), ("es", ["es 1"]), ("it", ["it 1"]), (None, ["de 2"])], {"de": ["de 1", "de 2"], "es": ["es 1"], "it": ["it 1"]}),
             "inherited then declared": ("de", [(None, ["de 1"]), ("es", ["es 1"]), ("de", ["de 2"])], {"de": ["de 1", "de 2"], "es": ["es 1"]}),
             "three in a row": ("en", [("fr", ["fr 1"]), ("en", ["en 1"]), ("en", ["en 2"]), ("en", ["en 3"])], {"fr": ["fr 1"], "en": ["en 1", "en 2", "en 3"]})}
    for name, (doc_lang, divs, want) in cases.items():
        def one(doc_lang=doc_lang, divs=divs, want=want):
            doc = tt % (doc_lang, "".join(div(l, tx, 10 * i + 1) for i, (l, tx) in enumerate(divs)))
            cs = SHARED_READERS.setdefault("dfxp", DFXPReader()).read(doc)
            got = {l: [c_.get_text() for c_ in cs.get_captions(l)] for l in cs.get_languages()}
            return got == want and list(got) == list(want), {"read": got, "languages": cs.get_languages(), "expected": want, "expected_order": list(want)}
        b.guard(("repeated_divs", name), one, sample={"divs": name})


def bounded_sami_independence(ctx, b):
    """what a SAMI document says in one language is read the same whatever the other languages say: a language that
    stops early, starts late or has syncs of its own between the other's - each compared with the document that holds
    its paragraphs only (starts, ends, texts)"""
    head = ('<SAMI><HEAD><STYLE TYPE="text/css"><!-- .ENCC {Name: English; lang: en-US;} .FRCC {Name: French; lang: fr-FR;} '
            '--></STYLE></HEAD><BODY>%s</BODY></SAMI>')
    shapes = {"en stops early": [(0, "en", "Hello"), (1000, "en", "Bye"), (6000, "fr", "Salut"), (12000, "fr", "Fin")],
              "fr starts late and ends early": [(0, "en", "a"), (2000, "fr", "x"), (3000, "fr", "y"), (9000, "en", "b"), (15000, "en", "c")],
              "interleaved": [(0, "en", "a"), (500, "fr", "x"), (1000, "en", "b"), (1500, "fr", "y"), (7000, "fr", "z")]}
    cls = {"en": "ENCC", "fr": "FRCC"}
    code = {"en": "en-US", "fr": "fr-FR"}
    for name, syncs in shapes.items():
        def one(syncs=syncs):
            doc = lambda keep: head % "".join(f'<SYNC start="{t}"><P class="{cls[l]}">{x}</P></SYNC>' for t, l, x in syncs if l in keep)
            both = SAMIReader().read(doc(("en", "fr")))
            for l in ("en", "fr"):
                alone = SAMIReader().read(doc((l,)))
                a = [(c_.start, c_.end, c_.get_text()) for c_ in both.get_captions(code[l])]
                b_ = [(c_.start, c_.end, c_.get_text()) for c_ in alone.get_captions(code[l])]
                if a != b_:
                    return False, {"language": code[l], "read_next_to_the_other_language": a, "read_alone": b_}
            return True, None
        b.guard(("sami_independence", name), one, sample={"syncs": name})


def bounded_inline_lang(ctx, b):
    """SAMI paragraphs that name their language themselves (lang= on the P element, no class)"""
    for codes in (("en", "fr"), ("fr", "en"), ("en-US", "fr-FR"), ("en-US", "en-GB"), ("en", "en-GB")):
        def one(codes=codes):
            body = "".join(f'<SYNC start="{1000 * (k + 1)}">' + "".join(f'<P lang="{c_}">{c_} {k}</P>' for c_ in codes) + "</SYNC>" for k in range(2))
            cs = SAMIReader().read(f"<SAMI><HEAD></HEAD><BODY>{body}</BODY></SAMI>")
            got = {l: [c_.get_text() for c_ in cs.get_captions(l)] for l in cs.get_languages()}
            # (the reader files an inline lang= under its primary subtag - pinned by tests/test_sami.py - so the label may
            # be shortened; what may not happen is that the cues of two languages end up in one list)
            lists = sorted(got.values())
            exp = sorted([f"{c_} {k}" for k in range(2)] for c_ in codes)
            return lists == exp, {"codes": codes, "read": got, "expected_one_list_per_language": exp}
        b.guard(("inline_lang", codes), one, sample={"codes": codes, "inline_lang_codes_sharing_a_primary_subtag": len({c_[:2] for c_ in codes}) < len(codes)})


def sami_secondary_sync(c):
    """SAMIWriter._recreate_sync for a language that is NOT the primary one, + _find_closest_sync (A: stub DOM): the body
    holds 0-3 SYNC blocks with non-decreasing start times (any times), a paragraph of the other language is to be placed
    at an arbitrary time.  The block it gets has exactly that start time: the FIRST existing block with that time if
    there is one (nothing is added then), else one new block, put where the start times stay non-decreasing; the blocks
    that were there stay, in their order, with their paragraphs."""
    from pycaption.sami import SAMIWriter
    from refs.stubdom import StubSoup, StubTag
    n = c.pick("syncs_written_so_far", [0, 1, 2, 3])
    ts = [c.int(f"t{k}", 0, 10 ** 8) for k in range(n)]
    for a, b in zip(ts, ts[1:]):
        c.assume(a <= b)
    time = c.int("time", 0, 10 ** 8)
    soup = StubSoup(("sami", ("head", ("style",)), ("body",)))
    old = []
    for k, t in enumerate(ts):
        sy = soup.new_tag("sync", start=t)
        sy.append(StubTag("p", {"class": "en", "of": k}))
        soup.body.append(sy)
        old.append(sy)
    w = c.new(SAMIWriter, open_span=False, last_time=None)
    r = c.call(SAMIWriter._recreate_sync, w, soup, "fr", "en", time, compare=False)
    doc, sync = r
    now = [t for t in soup.body.children if isinstance(t, StubTag)]
    same = [k for k, t in enumerate(ts) if c.truth(t == time)]
    c.ensure("the_block_has_the_time_asked_for", c.truth(sync.attrs["start"] == time) and any(sync is t for t in now) and doc is soup)
    c.ensure("old_blocks_stay_in_their_order_with_their_paragraphs", [t for t in now if any(t is o for o in old)] == old
             and all(len(o.children) == 1 and o.children[0].attrs.get("of") == k for k, o in enumerate(old)))
    if same:
        c.ensure("an_existing_block_of_that_time_is_used_the_first_one", sync is old[same[0]] and len(now) == n)
    else:
        c.ensure("one_new_block", len(now) == n + 1 and not any(sync is o for o in old) and not sync.children)
        c.ensure("start_times_stay_non_decreasing", all(c.truth(a.attrs["start"] <= b.attrs["start"]) for a, b in zip(now, now[1:])))


def sami_stylesheet_languages(c):
    """SAMIWriter._recreate_stylesheet + _recreate_style_block (P[n]: language lists incl. codes that are prefixes of one
    another x which of them a style class of the set already declares x an empty style): in the style sheet that is
    written EVERY language of the set is declared by exactly one class block - the set's own class where it has one, a
    class named after the language otherwise - so that each paragraph's class resolves to its language when read back."""
    import re as _re
    from pycaption.base import CaptionSet, CaptionList
    from pycaption.sami import SAMIWriter
    langs = c.pick("languages", [("en-US",), ("en-US", "en"), ("en", "en-US"), ("en", "fr"), ("fr", "en-GB", "en")])
    declared = c.pick("classes_of_the_set_declare", ["none", "the first language", "the last language", "all"])
    with_empty = c.pick("an_empty_style", [False, True])
    pick = {"none": [], "the first language": [langs[0]], "the last language": [langs[-1]], "all": list(langs)}[declared]
    styles = {"cc" + l.lower().replace("-", ""): {"lang": l, "color": "white"} for l in pick}
    if with_empty:
        styles["empty"] = {}
    styles["p"] = {"font-size": "12pt"}
    cs = CaptionSet({l: CaptionList([]) for l in langs}, styles={k: dict(v) for k, v in styles.items()})
    w = c.new(SAMIWriter, open_span=False, last_time=None)
    r = c.call(SAMIWriter._recreate_stylesheet, w, cs, compare=False)
    blocks = _re.findall(r"\n    (\S+) \{\n(.*?)\}\n", r, _re.S)
    for l in langs:
        c.ensure(f"language_{langs.index(l) + 1}_is_declared_by_exactly_one_class", len([b for b in blocks if f" lang: {l};" in b[1]]) == 1)



def run(ctx):
    P = ctx.prove
    P("base.CaptionSet.get_languages", get_languages_order, functions=[CS.get_languages])
    import props.C09_accessors as AC
    AC.prove_accessors(ctx)           # (asking for a language that is not there adds none)
    P("dfxp.LegacyDFXPWriter._force_language", legacy_force, functions=[LegacyDFXPWriter._force_language])
    # DFXPWriter.write: force= selects exactly the named language, otherwise every language is written, in order, each
    # with its own captions (skeleton contract shared with C07)
    import props.C07_write as WS
    WS.prove_write_skeleton(ctx)
    WS.prove_single_positioning_write(ctx)
    WS.prove_legacy_write_skeleton(ctx)
    WS.prove_sami_write_skeleton(ctx)
    WS.prove_plain_write_skeleton(ctx)        # (SRT / MicroDVD write every language, in the order of the set)
    import props.C01_read as RS
    RS.prove_sami_read_skeleton(ctx)          # (every declared language translated once, in order, stored under its own code)
    P("sami.SAMIParser._find_lang", sami_find_lang, functions=[SAMIParser._find_lang])
    from pycaption.sami import SAMIWriter as _SW
    P("sami.SAMIWriter._recreate_stylesheet/languages", sami_stylesheet_languages, functions=[_SW._recreate_stylesheet, _SW._recreate_style_block], crosscheck=False)
    P("sami.SAMIWriter._recreate_sync[secondary language]", sami_secondary_sync, functions=[_SW._recreate_sync, _SW._find_closest_sync], crosscheck=False)
    # the merge of concurrent captions (legacy / single-position DFXP writers) works language by language: a language
    # without captions is left alone and receives nothing from its neighbours (contract shared with C19)
    P("sami.SAMIWriter._recreate_p_lang", sami_paragraph_class, functions=[SAMIWriter._recreate_p_lang])
    from pycaption import WebVTTWriter
    P("webvtt.WebVTTWriter.write/language", webvtt_write_language, functions=[WebVTTWriter.write], crosscheck=False)
    import props.C19 as C19
    P("base.merge_concurrent_captions", C19.mcc, functions=[C19.merge_concurrent_captions], setup_interp=C19.setup, crosscheck=False)
    ctx.bounded("repeated_divs", "DFXP documents in which a language has several divs (another language between them, a div that "
                "inherits the document language): languages in order of first appearance, each with all its cues in order",
                lambda b: bounded_repeated_divs(ctx, b))
    ctx.bounded("sami_independence", "two-language SAMI documents in which one language stops early, starts late or has syncs of its own "
                "between the other's: each language reads exactly as from the document that holds its paragraphs only",
                lambda b: bounded_sami_independence(ctx, b))
    ctx.bounded("inline_lang", "SAMI documents whose paragraphs carry lang= themselves, for five pairs of codes (two of them sharing "
                "their primary subtag): one cue list per language, none shared", lambda b: bounded_inline_lang(ctx, b))
    ctx.bounded("multi_language", "caption sets with 1-4 languages, cues sorted and non-overlapping within a language, with "
                "interleaved / coinciding / disjoint times, a later language starting earlier, an empty first language: SAMI "
                "output has non-decreasing SYNC blocks with each paragraph in the block of its start under its own class, "
                "DFXP output has one div per language in order; both read back to the same lists; force= / lang= select "
                "exactly the named language; reader lang=; DFXP div without xml:lang; SAMI order of first appearance",
                lambda b: bounded(ctx, b))
    ctx.trust("A: dict insertion order; bs4 find / find_all / insert_after / insert_before (SAMI sync placement is bounded only)")
    ctx.assume("the ordering of SYNC blocks written by SAMIWriter goes through bs4 tree edits: bounded only")
