"""C01 - reading preserves every cue's start and end instant (text formats).

Proved (P): the time-expression functions of every reader, for all inputs of the grammar shape,
against the exact denotation written here from the format grammars (never from pycaption's own
constants).  Bounded (B): whole-document reads (cue count / order / times) over generated
documents, incl. SAMI whose reader walks a BeautifulSoup tree.
"""
import itertools
import random
from fractions import Fraction

from pycaption.base import Caption, CaptionNode
from pycaption.dfxp.base import DFXPReader
from pycaption.exceptions import CaptionReadTimingError, CaptionReadError
from pycaption.microdvd import MicroDVDReader
from pycaption.sami import SAMIReader
from pycaption.srt import SRTReader
from pycaption.webvtt import WebVTTReader
from pycaption import webvtt as webvtt_mod

# denotation constants, from the grammars: 1 h = 3600 s, 1 min = 60 s, 1 s = 10**6 us
US = 10 ** 6
HOUR, MINUTE = 3600 * US, 60 * US


def hms(h, m, s):
    return (h * 60 + m) * 60 * US + s * US


# ------------------------------------------------------------------------------------ contracts

def srt_stamp(c):
    """SRT  H+:MM:SS[,mmm]  ->  microseconds"""
    frac = c.pick("frac", [True, False])
    H, M, S = c.digits("H", lo=1), c.digits("M", n=2), c.digits("S", n=2)
    stamp, ms = H + ":" + M + ":" + S, 0
    if frac:
        F = c.digits("F", n=3)
        stamp, ms = stamp + "," + F, F.val
    r = c.call(SRTReader._srttomicro, c.new(SRTReader), stamp)
    c.ensure("is_int", c.is_int(r))
    c.ensure("value", r == hms(H.val, M.val, S.val) + ms * 1000)


def webvtt_stamp(c):
    """WebVTT  [H+:]MM:SS.mmm"""
    hours = c.pick("hours", [True, False])
    M, S, F = c.digits("M", n=2), c.digits("S", n=2), c.digits("F", n=3)
    hv = 0
    if hours:
        H = c.digits("H", lo=1)
        stamp, hv = H + ":" + M + ":" + S + "." + F, H.val
    else:
        stamp = M + ":" + S + "." + F
    r = c.call(WebVTTReader._parse_timestamp, c.new(WebVTTReader), stamp)
    c.ensure("is_int", c.is_int(r))
    c.ensure("value", r == hms(hv, M.val, S.val) + F.val * 1000)


def webvtt_microseconds(c):
    h, m, s, f = c.digits("h", lo=1), c.digits("m", n=2), c.digits("s", n=2), c.digits("f", n=3)
    r = c.call(webvtt_mod.microseconds, h, m, s, f)
    c.ensure("is_int", c.is_int(r))
    c.ensure("value", r == hms(h.val, m.val, s.val) + f.val * 1000)


def webvtt_timing_line(c):
    """start --> end [settings]: both ends shifted by the configured time shift"""
    M1, S1, F1 = c.digits("M1", n=2), c.digits("S1", n=2), c.digits("F1", n=3)
    H2, M2, S2, F2 = c.digits("H2", lo=1), c.digits("M2", n=2), c.digits("S2", n=2), c.digits("F2", n=3)
    shift = c.int("shift_ms", -10 ** 7, 10 ** 7)
    settings = c.pick("settings", ["", " align:left position:10%", "   line:5%  "])
    sep = c.pick("sep", [" --> ", "\t-->  "])
    line = M1 + ":" + S1 + "." + F1 + sep + H2 + ":" + M2 + ":" + S2 + "." + F2 + settings
    rd = c.new(WebVTTReader, ignore_timing_errors=True, time_shift_microseconds=shift * 1000)
    r = c.call(WebVTTReader._parse_timing_line, rd, line, 0)
    start, end, layout = r
    c.ensure("start", start == hms(0, M1.val, S1.val) + F1.val * 1000 + shift * 1000)
    c.ensure("end", end == hms(H2.val, M2.val, S2.val) + F2.val * 1000 + shift * 1000)
    c.ensure("settings", (layout is None) if not settings.strip()
             else (layout.webvtt_positioning == settings.strip()))


def webvtt_timing_validation(c):
    """with ignore_timing_errors off: start > end and start < previous start (both as the reader
    reports them, i.e. shifted - `last_start` is the previous cue's reported start) are rejected,
    everything else passes with both ends shifted"""
    M1, S1, F1 = c.digits("M1", n=2), c.digits("S1", n=2), c.digits("F1", n=3)
    M2, S2, F2 = c.digits("M2", n=2), c.digits("S2", n=2), c.digits("F2", n=3)
    last = c.int("last_start", 0, 10 ** 10)
    line = M1 + ":" + S1 + "." + F1 + " --> " + M2 + ":" + S2 + "." + F2
    shift = c.int("shift_ms", -10 ** 7, 10 ** 7)
    rd = c.new(WebVTTReader, ignore_timing_errors=False, time_shift_microseconds=shift * 1000)
    st = hms(0, M1.val, S1.val) + F1.val * 1000 + shift * 1000
    en = hms(0, M2.val, S2.val) + F2.val * 1000 + shift * 1000
    r = c.call(WebVTTReader._parse_timing_line, rd, line, last, raises=(CaptionReadError,))
    bad = c.truth((st > en) | (st < last))
    from pyvc.verify import Raised
    if isinstance(r, Raised):
        c.ensure("rejected_only_if_invalid", bad)
    else:
        c.ensure("accepted_only_if_valid", not bad)
        c.ensure("start", r[0] == st)
        c.ensure("end", r[1] == en)
        c.ensure("end", r[1] == en)


def dfxp_clock(c):
    """TTML clock time  H+:MM:SS  |  H+:MM:SS.d+  (fraction of any length, truncated to us)"""
    form = c.pick("form", ["plain", "f1", "f2", "f3", "f4", "f5", "f6", "long"])
    H, M, S = c.digits("H", lo=1), c.digits("M", n=2), c.digits("S", n=2)
    stamp = H + ":" + M + ":" + S
    base = hms(H.val, M.val, S.val)
    if form == "plain":
        exp = base
    elif form == "long":
        F6, R = c.digits("F6", n=6), c.digits("R", lo=1)
        stamp = stamp + "." + F6 + R
        exp = base + F6.val              # 0.F6R s = F6 us + (0.R) us, floor drops 0.R
    else:
        n = int(form[1])
        F = c.digits("F", n=n)
        stamp = stamp + "." + F
        exp = base + F.val * 10 ** (6 - n)
    r = c.call(DFXPReader._convert_timestamp_to_microseconds, c.new(DFXPReader), stamp)
    c.ensure("is_int", c.is_int(r))
    c.ensure("value", r == exp)


def dfxp_clock_frames(c):
    """H+:MM:SS:FF at 30 frames per second, below 1000 h; FF is enumerated (00-99), the float
    term int(FF)/30*10**6 is then computed by CPython itself and enters the VC as the exact
    value of that double; the int + float sum and the truncation are under the standard model."""
    FFs = ["%02d" % i for i in range(100)]
    ff = c.pick("FF", FFs)
    H, M, S = c.digits("H", lo=1), c.digits("M", n=2), c.digits("S", n=2)
    c.assume(H.val < 1000)
    stamp = H + ":" + M + ":" + S + ":" + ff
    r = c.call(DFXPReader._convert_timestamp_to_microseconds, c.new(DFXPReader), stamp)
    c.ensure("is_int", c.is_int(r))
    c.ensure("value", r == hms(H.val, M.val, S.val) + (int(ff) * US) // 30)


UNIT_US = {"h": HOUR, "m": MINUTE, "s": US, "ms": 1000}


def dfxp_offset(c):
    """TTML offset time  d+(.d+)?(h|m|s|ms|f): exact decimal times unit, truncated to us"""
    metric = c.pick("metric", ["h", "m", "s", "ms", "f"])
    frac = c.pick("frac", [False, True])
    I = c.digits("I", lo=1)
    stamp, x = I, c.ratio(I.val, 1)
    if frac:
        F = c.digits("F", lo=1)
        stamp, x = stamp + "." + F, x + c.ratio(F.val, F.scale)
    r = c.call(DFXPReader._convert_timestamp_to_microseconds, c.new(DFXPReader), stamp + metric)
    c.ensure("is_int", c.is_int(r))
    exact = x * US / 30 if metric == "f" else x * UNIT_US[metric]
    c.ensure("value", r == c.trunc(exact))


def dfxp_begin_dur(c):
    """begin + dur, and the missing-attribute errors, on an abstract <p> (A: Tag.get / __getitem__)"""
    which = c.pick("attrs", ["begin,end", "begin,dur", "begin", "end", "dur,end", "begin,dur,end", "begin,dur(clock)"])
    B, D, E = c.digits("B", lo=1), c.digits("D", lo=1), c.digits("E", lo=1)
    attrs = {}
    dur_us = D.val * 1000
    if "begin" in which:
        attrs["begin"] = B + "s"
    if "dur(clock)" in which:
        # a duration spelled as a clock time hh:mm:ss.fff
        DM, DS, DF = c.digits("DM", n=2), c.digits("DS", n=2), c.digits("DF", n=3)
        c.assume(c.conj(DM.val < 60, DS.val < 60))
        attrs["dur"] = D + ":" + DM + ":" + DS + "." + DF
        dur_us = hms(D.val, DM.val, DS.val) + DF.val * 1000
    elif "dur" in which:
        attrs["dur"] = D + "ms"
    if "end" in which:
        attrs["end"] = E + "s"
    r = c.call(DFXPReader._find_and_convert_times, c.new(DFXPReader), AbstractTag(attrs),
               raises=(CaptionReadTimingError,))
    from pyvc.verify import Raised
    if "begin" not in which or ("end" not in which and "dur" not in which):
        c.ensure("missing_attribute_rejected", isinstance(r, Raised))
    else:
        c.ensure("accepted", not isinstance(r, Raised))
        if not isinstance(r, Raised):
            c.ensure("start", r[0] == B.val * US)
            c.ensure("end", r[1] == (E.val * US if "end" in which else B.val * US + dur_us))


class AbstractTag(dict):
    """stand-in for a bs4 Tag: .get(name) and tag[name] (assumed contract of bs4)"""

    def __repr__(self):
        return "<p>"


COMMON_FPS = [25.0, 23.976, 24.0, 29.97, 30.0, 50.0, 59.94, 60.0, 12.5, 15.0, 23.98, 120.0]


def microdvd_frames(c):
    """frame number -> us at the default 25 fps and at each common declared rate, all frames"""
    fps = c.pick("fps", [None] + COMMON_FPS)
    n = c.int("frame", 0, 10 ** 9)
    rd = c.new(MicroDVDReader)
    r = c.call(MicroDVDReader._framestomicro, rd, n) if fps is None else \
        c.call(MicroDVDReader._framestomicro, rd, n, fps)
    c.ensure("is_int", c.is_int(r))
    rate = Fraction("25") if fps is None else Fraction(repr(fps))     # the decimal the document shows
    c.ensure("value", r == c.trunc(c.ratio(n * US * rate.denominator, rate.numerator)))


def caption_rejects_non_numeric(c):
    bad = c.pick("bad", [None, "12", "x", [1], (1,)])
    which = c.pick("which", ["start", "end"])
    t = c.int("t", 0, 10 ** 12)
    nodes = [CaptionNode.create_text("x")]
    args = (bad, t, nodes) if which == "start" else (t, bad, nodes)
    from pyvc.verify import Raised
    r = c.call(Caption, *args, raises=(CaptionReadTimingError,))
    c.ensure("rejected", isinstance(r, Raised))


def caption_accepts_numeric(c):
    kind = c.pick("kind", ["int", "float"])
    s = c.int("s", 0, 10 ** 12) if kind == "int" else c.real("s", 0, 10 ** 12)
    e = c.int("e", 0, 10 ** 12) if kind == "int" else c.real("e", 0, 10 ** 12)
    nodes = [CaptionNode.create_text("x")]
    r = c.call(Caption, s, e, nodes)
    c.ensure("start_kept", r.start == s)
    c.ensure("end_kept", r.end == e)


# ------------------------------------------------------------------------------------ bounded part

def carry_instants(rng, n_random):
    """microsecond instants that hit every carry, plus seeded random ones below 1000 h"""
    pts = {0, 1000, 999000, 1 * US, 59 * US, 59 * US + 999000, 60 * US, 3599 * US + 999000, HOUR,
           23 * HOUR + 59 * MINUTE + 59 * US + 999000, 24 * HOUR, 99 * HOUR + 59 * MINUTE, 100 * HOUR,
           999 * HOUR + 59 * MINUTE + 59 * US + 999000, 8040000, 33 * US + 366000}
    for _ in range(n_random):
        pts.add(rng.randrange(0, 1000 * HOUR) // 1000 * 1000)
    return sorted(pts)


def split(t):
    ms = t // 1000
    return ms // 3600000, ms // 60000 % 60, ms // 1000 % 60, ms % 1000


def bounded_documents(ctx, b):
    rng = random.Random(ctx.seed)
    n = 40 if not ctx.thorough else 400
    inst = carry_instants(rng, n)

    readers = {}

    def reader(cls, **kw):
        # one reader object per (class, options), reused for every document of the run: a reader
        # that keeps state between reads shows up here, a fresh reader being the first use
        key = (cls, tuple(sorted(kw.items())))
        if key not in readers:
            readers[key] = cls(**kw)
        return readers[key]

    def cues(k):
        # k sorted spans
        pts = sorted(rng.sample(inst, 2 * k))
        return [(pts[2 * i], pts[2 * i + 1]) for i in range(k)]

    # ---- SRT
    for rep in range(n):
        for k in (1, 2, 4):
            sp = cues(k)
            hw = rng.choice([1, 2, 3])
            withfrac = rng.random() < 0.7
            blocks = []
            for i, (s, e) in enumerate(sp):
                def st(t):
                    h, m, sec, ms = split(t)
                    x = f"{h:0{hw}d}:{m:02d}:{sec:02d}"
                    return x + (f",{ms:03d}" if withfrac else "")
                blocks.append(f"{i + 1}\n{st(s)} --> {st(e)}\nline {i}a\nline {i}b\n")
            doc = "\n".join(blocks)
            doc = doc.replace("\n", rng.choice(["\n", "\n", "\r\n", "\r"]))      # (the three line terminators text files come with)
            exp = [((s, e) if withfrac else (s // US * US, e // US * US)) for s, e in sp]
            caps = reader(SRTReader).read(doc).get_captions("en-US")
            got = [(c_.start, c_.end) for c_ in caps]
            b.case(("srt", doc), got == exp and all(type(x) is int for p in got for x in p),
                   {"expected": exp, "got": got}, sample={"format": "srt", "doc": doc})
    # ---- WebVTT
    for rep in range(n):
        for k in (1, 3):
            sp = cues(k)
            if k == 3 and rep % 3 == 1:
                # cues that overlap (the next one starts while the previous is still shown) or share a start: legal
                # WebVTT, which only asks for non-decreasing start times - also for a reader told to check timings
                a, b_, c_ = sp
                sp = [(a[0], c_[0] + 1000), (b_[0], b_[1]), (b_[0], c_[1])]
            shift = rng.choice([0, 0, 1154, -1154, 3600000])
            if shift < 0 and sp[0][0] < 2000000:
                shift = 0           # a shifted start below zero is (rightly) a timing error
            ite = rng.choice([True, False])
            lines = ["WEBVTT", ""]
            for i, (s, e) in enumerate(sp):
                def st(t):
                    h, m, sec, ms = split(t)
                    if h == 0 and rng.random() < 0.5:
                        return f"{m:02d}:{sec:02d}.{ms:03d}"
                    return f"{h:02d}:{m:02d}:{sec:02d}.{ms:03d}"
                lines += [f"{st(s)} --> {st(e)}" + rng.choice(["", " align:left", " position:10% line:3"]),
                          f"cue {i}", "second line", ""]
            doc = "\n".join(lines).replace("\n", rng.choice(["\n", "\n", "\r\n", "\r"]))    # (WebVTT line terminators: LF, CRLF, CR)
            exp = [(s + shift * 1000, e + shift * 1000) for s, e in sp]
            caps = reader(WebVTTReader, ignore_timing_errors=ite, time_shift_milliseconds=shift).read(doc).get_captions("en-US")
            got = [(c_.start, c_.end) for c_ in caps]
            b.case(("vtt", doc, shift, ite), got == exp, {"expected": exp, "got": got},
                   sample={"format": "webvtt", "doc": doc, "shift": shift})
    # ---- DFXP
    tmpl = '<tt xmlns="http://www.w3.org/ns/ttml" xml:lang="en"><body><div>%s</div></body></tt>'
    decs = ["0", "1", "1.5", "1.001", "1.005", "1.000001", "0.1", "17.1", "2.675", "59.9999999", "3599.999", "0.0000019"]
    for rep in range(n):
        sp = cues(3)
        ps, exp = [], []
        for i, (s, e) in enumerate(sp):
            form = rng.choice(["clock3", "clockN", "frames", "offset", "dur"])
            if form == "clock3":
                def st(t):
                    h, m, sec, ms = split(t)
                    return f"{h:02d}:{m:02d}:{sec:02d}.{ms:03d}"
                ps.append(f'<p begin="{st(s)}" end="{st(e)}">t{i}</p>')
                exp.append((s, e))
            elif form == "clockN":
                k = rng.randrange(1, 9)
                digs = "".join(rng.choice("0123456789") for _ in range(k))
                h, m, sec, _ = split(s)
                val = hms(h, m, sec) + int(digs.ljust(6, "0")[:6])
                ps.append(f'<p begin="{h}:{m:02d}:{sec:02d}.{digs}" end="999:00:00">t{i}</p>')
                exp.append((val, 999 * HOUR))
            elif form == "frames":
                ff = rng.randrange(0, 30)
                h, m, sec, _ = split(s)
                ps.append(f'<p begin="{h:02d}:{m:02d}:{sec:02d}:{ff:02d}" end="999:00:00:00">t{i}</p>')
                exp.append((hms(h, m, sec) + ff * US // 30, 999 * HOUR))
            elif form == "offset":
                d1, u1 = rng.choice(decs), rng.choice(["h", "m", "s", "ms", "f"])
                v1 = int(Fraction(d1) * (Fraction(US, 30) if u1 == "f" else UNIT_US[u1]))
                ps.append(f'<p begin="{d1}{u1}" end="999h">t{i}</p>')
                exp.append((v1, 999 * HOUR))
            else:
                d1, d2 = rng.choice(decs), rng.choice(decs)
                v1, v2 = int(Fraction(d1) * US), int(Fraction(d2) * US)
                ps.append(f'<p begin="{d1}s" dur="{d2}s">t{i}</p>')
                exp.append((v1, v1 + v2))
        if rep % 3 == 1:
            # paragraphs without text are not cues, timed or not (a spacer with an id, a blank one, one with a begin only)
            for filler in rng.sample(['<p xml:id="spacer"></p>', '<p> </p>', '<p begin="1s"></p>', '<p begin="2s" end="3s">\n  </p>'], 2):
                ps.insert(rng.randrange(0, len(ps) + 1), filler)
        doc = tmpl % "".join(ps)
        if rep % 5 == 2 and len(ps) == 3 and all(x.endswith("</p>") for x in ps):
            # the body divided into several divs of the one language (scenes / chapters), a div of another language
            # between them, or the last division nested in the first: every cue once (document order for sibling divs)
            how = ["siblings", "other_language_between", "nested", "siblings_in_different_regions"][(rep // 5) % 4]
            if how == "siblings":
                doc = tmpl % (ps[0] + "</div><div>" + ps[1] + "</div><div>" + ps[2])
            elif how == "siblings_in_different_regions":
                doc = (tmpl % (ps[0] + '</div><div region="top">' + ps[1] + '</div><div region="low">' + ps[2])).replace(
                    "<body>", '<head><layout xmlns:tts="http://www.w3.org/ns/ttml#styling"><region xml:id="top" tts:origin="10% 10%" tts:extent="80% 20%"/>'
                    '<region xml:id="low" tts:origin="10% 70%" tts:extent="80% 20%"/></layout></head><body>')
            elif how == "other_language_between":
                doc = tmpl % (ps[0] + ps[1] + '</div><div xml:lang="fr"><p begin="1s" end="2s">fr</p></div><div>' + ps[2])
            else:
                doc = tmpl % (ps[0] + ps[1] + "<div>" + ps[2] + "</div>")
        if rep % 4 == 3:
            # a second language without any non-empty cue (before or after the first): the cues of the populated
            # language are returned all the same
            other = '<div xml:lang="fr"><p begin="1s" end="2s"> </p></div>'
            doc = doc.replace("<body>", "<body>" + other) if rep % 8 == 3 else doc.replace("</body>", other + "</body>")
        caps = reader(DFXPReader).read(doc).get_captions("en")
        got = [(c_.start, c_.end) for c_ in caps]
        b.case(("dfxp", doc), got == exp and all(type(x) is int for p in got for x in p),
               {"expected": exp, "got": got}, sample={"format": "dfxp", "doc": doc})
    # ---- SAMI: end = next sync of the language with a different start; last = +4 s
    head = ('<SAMI><HEAD><STYLE TYPE="text/css"><!-- .ENCC {Name: English; lang: %s;} '
            '.FRCC {Name: French; lang: %s;} .SUB {color: yellow;} --></STYLE></HEAD><BODY>%s</BODY></SAMI>')
    for rep in range(n):
        # the second language may be a sub-tag extension of the first one (en / en-US): the cues of a
        # language come from the syncs of exactly that language
        la, lb = rng.choice([("en-US", "fr-FR"), ("en", "en-US"), ("fr", "fr-CA"), ("en-US", "en")])
        k = rng.choice([1, 2, 4])
        starts = sorted(rng.sample(range(0, 10 ** 7), k))
        own_syncs = rng.random() < 0.5
        blank_only = own_syncs and rng.random() < 0.25
        ends = []
        body = ""
        other = []
        twins = rng.random() < 0.3        # two paragraphs of the language in every sync: two cues with the same times
        # (a paragraph may name its language itself, next to a class that is about styling only)
        # (two-letter codes only: the reader keeps the primary subtag of an inline lang=, pinned by tests/test_sami.py)
        ENP = f'<P class="SUB" lang="{la}">' if (len(la) == 2 and rng.random() < 0.6) else '<P class="ENCC">'
        for i, s in enumerate(starts):
            body += f'<SYNC start="{s}">{ENP}en {i}</P>' + (f'{ENP}EN {i}</P>' if twins else "")
            if not own_syncs and rng.random() < 0.5:
                body += f'<P class="FRCC">fr {i}</P>'
            body += "</SYNC>"
            nxt = starts[i + 1] if i + 1 < len(starts) else s + 9000
            if own_syncs and nxt - s > 2 and rng.random() < 0.7:
                o = rng.randrange(s + 1, nxt)
                if blank_only:
                    # the second language is used for blank paragraphs only: it has no cue
                    body += f'<SYNC start="{o}"><P class="FRCC">&nbsp;</P></SYNC>'
                else:
                    other.append(o)
                    body += f'<SYNC start="{o}"><P class="FRCC">fr {i}</P></SYNC>'
            if i + 1 < len(starts) and rng.random() < 0.5:
                blank = rng.randrange((other[-1] if other and other[-1] > s else s) + 1, starts[i + 1] + 1)
                if blank_only:
                    blank = starts[i + 1]             # (keep clear of the other language's blank syncs)
                if blank < starts[i + 1]:
                    body += f'<SYNC start="{blank}"><P class="ENCC">&nbsp;</P></SYNC>'
                    ends.append(blank)
                    continue
            ends.append(starts[i + 1] if i + 1 < len(starts) else s + 4000)
        doc = head % (la, lb, body)
        cs = reader(SAMIReader).read(doc)
        caps = cs.get_captions(la)
        got = [(c_.start, c_.end) for c_ in caps]
        exp = [(s * 1000, e * 1000) for s, e in zip(starts, ends) for _ in range(2 if twins else 1)]
        ok = got == exp
        if own_syncs and other:
            got_b = [(c_.start, c_.end) for c_ in cs.get_captions(lb)]
            exp_b = [(s * 1000, e * 1000) for s, e in zip(other, other[1:] + [other[-1] + 4000])]
            ok = ok and got_b == exp_b
            got, exp = (got, got_b), (exp, exp_b)
        b.case(("sami", doc), ok, {"expected": exp, "got": got}, sample={"format": "sami", "doc": doc})
    # ---- MicroDVD
    for rep in range(n):
        fps = rng.choice([None, None, "23.976", "29.97", "30", "12.5", "24.000"])
        k = rng.choice([1, 3])
        frames = sorted(rng.sample(range(0, 3 * 10 ** 6), 2 * k)) if rep % 2 else \
            sorted(rng.sample([201, 203, 205, 402, 803, 1, 2, 3, 25, 100, 2997, 5994], 2 * k))
        if rep % 4 == 1:
            frames[0] = 0            # (a cue may start at frame 0; only {0}{0} declares the frame rate)
        lines = ([f"{{0}}{{0}}{fps}"] if fps else []) + \
                [f"{{{frames[2 * i]}}}{{{frames[2 * i + 1]}}}text {i}|second" for i in range(k)]
        doc = "\n".join(lines).replace("\n", rng.choice(["\n", "\n", "\r\n", "\r"]))
        rate = Fraction(fps) if fps else Fraction(25)
        exp = [(int(frames[2 * i] * US / rate), int(frames[2 * i + 1] * US / rate)) for i in range(k)]
        caps = reader(MicroDVDReader).read(doc).get_captions("und")
        got = [(c_.start, c_.end) for c_ in caps]
        b.case(("microdvd", doc), got == exp and all(type(x) is int for p in got for x in p),
               {"expected": exp, "got": got}, sample={"format": "microdvd", "doc": doc})


from pycaption.base import CaptionSet


def set_is_empty(c):
    """CaptionSet.is_empty (the readers raise the no-captions error on it): true exactly when NO language has a
    caption - one populated language is enough for the set to be returned, wherever it stands among empty ones"""
    import z3
    from pyvc import heap
    from pyvc.heap import SymList, SEQ
    from pycaption.base import CaptionSet
    heap.install(c.interp)
    k = c.pick("languages", [0, 1, 2, 3])
    lists = [SymList(z3.Const(f"captions_{i}", SEQ), None) for i in range(k)]
    cs = c.new(CaptionSet, _captions={f"l{i}": lists[i] for i in range(k)}, _styles={}, layout_info=None)
    r = c.call(CaptionSet.is_empty, cs, compare=False)
    import pyvc.sym as sym
    some = z3.Or(*[z3.Length(l.t) > 0 for l in lists]) if lists else z3.BoolVal(False)
    c.ensure("empty_iff_no_language_has_a_caption", sym.zbool(r) == z3.Not(some))


def run(ctx):
    P = ctx.prove
    P("base.CaptionSet.is_empty", set_is_empty, functions=[CaptionSet.is_empty], crosscheck=False)
    P("srt._srttomicro", srt_stamp, functions=[SRTReader._srttomicro])
    import props.C01_read as RS
    RS.prove_srt_read_skeleton(ctx)
    RS.prove_webvtt_read_skeleton(ctx)    # (cue i has the times and layout of its own timing line; the ordering test sees the previous start)
    RS.prove_microdvd_read_skeleton(ctx)
    RS.prove_sami_read_skeleton(ctx)      # (every declared language translated once and stored under its own code)
    RS.prove_dfxp_p_skeleton(ctx)         # (a caption has the times and the nodes of its own paragraph, nothing of an earlier one)
    RS.prove_dfxp_read_skeleton(ctx)      # (every paragraph once, under the language of its nearest div, in document order)  # (every cue at the rate in force at its own line; a new document at the default rate)       # (every block's stamps converted once; cue i gets the numbers of block i)
    P("webvtt.microseconds", webvtt_microseconds, functions=[webvtt_mod.microseconds])
    P("webvtt._parse_timestamp", webvtt_stamp, functions=[WebVTTReader._parse_timestamp])
    P("webvtt._parse_timing_line", webvtt_timing_line, functions=[WebVTTReader._parse_timing_line])
    P("webvtt._validate_timings", webvtt_timing_validation,
      functions=[WebVTTReader._parse_timing_line, WebVTTReader._validate_timings])
    P("dfxp.clock_time", dfxp_clock, functions=[DFXPReader._convert_timestamp_to_microseconds,
                                                DFXPReader._convert_clock_time_to_microseconds])
    P("dfxp.clock_time_frames", dfxp_clock_frames,
      functions=[DFXPReader._convert_clock_time_to_microseconds])
    P("dfxp.offset_time", dfxp_offset, functions=[DFXPReader._convert_time_count_to_microseconds])
    P("dfxp.begin_dur", dfxp_begin_dur, functions=[DFXPReader._find_and_convert_times])
    P("microdvd._framestomicro", microdvd_frames, functions=[MicroDVDReader._framestomicro])
    P("base.Caption.__init__/reject", caption_rejects_non_numeric, functions=[Caption.__init__])
    P("base.Caption.__init__/accept", caption_accepts_numeric, functions=[Caption.__init__])
    ctx.bounded("documents", "generated documents of the five grammars (cue lists of 1-4 cues on a carry "
                "grid + seeded instants below 1000 h, spelling variants, reader options); a case is one "
                "document, non-trivial = distinct document text", lambda b: bounded_documents(ctx, b))
    ctx.trust("A: re (patterns are translated from the compiled pattern object by pyvc.regex), "
              "fractions.Fraction exact rational arithmetic and decimal-string parsing, int() truncation, "
              "str.split/strip/ljust, bs4 Tag.get/[] (dfxp.begin_dur only)")
    ctx.assume("DFXP :ff clause: hour count below 1000 (float exactness, as the property's domain states)")
    ctx.assume("MicroDVD declared rates: proved for 12 common decimal rates x all frames <= 1e9; other rates bounded only")
    ctx.assume("floats: IEEE-754 binary64 round-to-nearest (standard error model, exact on integers < 2**53)")
