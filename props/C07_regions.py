"""RegionCreator.get_positioning_info / cleanup_regions and DFXPWriter._assign_positioning_data (C07: every region= names a
region that is defined and every defined region is referenced; C12: an element is placed by ITS OWN layout).

P[n] over which of node / caption / language / set have a layout of their own x the element that asks (div, p, span) x
whether the layouts have regions in the map.  `_convert_layout_to_attributes` is a recording stub; the DOM is the stub of
refs/stubdom.py (A) with `findChildren` / `extract`.

  * the layout that counts is the nearest one: the node's (for a span), else the caption's (p, span), else the language's,
    else the set's; the region id is the one the map holds for exactly THAT layout, the default region when it holds none;
    the positioning attributes are those of that layout;
  * the id handed out is remembered as assigned - so the clean-up keeps its region - and the tag gets it as `region=`;
  * the clean-up removes exactly the regions whose id was never handed out, and leaves the others in their order.
"""
from pycaption.base import Caption, CaptionList, CaptionNode, CaptionSet
from pycaption.dfxp.base import DFXPWriter, RegionCreator, DFXP_DEFAULT_REGION_ID
from pycaption.geometry import Layout, Point, Size, UnitEnum
from pyvc.verify import args_by_name as N
from refs.stubdom import StubSoup, StubTag


def _layout(k):
    return Layout(origin=Point(Size(10 * k, UnitEnum.PERCENT), Size(5 * k, UnitEnum.PERCENT)))


def positioning_info(c):
    has = {lvl: c.pick(f"{lvl}_has_a_layout", [False, True]) for lvl in ("node", "caption", "language", "set")}
    asks = c.pick("element", ["div", "p", "span"])
    mapped = c.pick("layouts_have_regions", [True, False])
    inline = c.pick("write_inline_positioning", [False, True])
    L = {lvl: (_layout(k + 1) if has[lvl] else None) for k, lvl in enumerate(("node", "caption", "language", "set"))}
    node = CaptionNode.create_text("x", layout_info=L["node"])
    cap = Caption(10 ** 6, 2 * 10 ** 6, [node], layout_info=L["caption"])
    cs = CaptionSet({"en": CaptionList([cap], layout_info=L["language"]), "fr": CaptionList([], layout_info=_layout(9))}, layout_info=L["set"])
    rmap = {l_: f"r{k}" for k, l_ in enumerate([x for x in L.values() if x is not None] + [_layout(9)])} if mapped else {}
    rc = c.new(RegionCreator, _dfxp=None, _region_map=dict(rmap), _id_seed=7, _assigned_region_ids=set(["earlier"]))
    c.interp.contracts["pycaption.dfxp.base:_convert_layout_to_attributes"] = lambda interp, fn, a, kw: {"attrs of": N(fn, a, kw)["layout"]}
    from pyvc.verify import require_callees
    require_callees(c.interp.contracts)
    args = {"div": (None, None), "p": (cap, None), "span": (cap, node)}[asks]
    chain = {"div": ["language", "set"], "p": ["caption", "language", "set"], "span": ["node", "caption", "language", "set"]}[asks]
    eff = next((L[lvl] for lvl in chain if L[lvl] is not None), None)
    want_id = rmap.get(eff, DFXP_DEFAULT_REGION_ID) if eff is not None else DFXP_DEFAULT_REGION_ID
    w = c.new(DFXPWriter, region_creator=rc, write_inline_positioning=inline, open_span=False, p_style=False)
    tag = StubTag(asks, {"keep": "me"})
    c.call(DFXPWriter._assign_positioning_data, w, tag, "en", cs, args[0], args[1], compare=False)
    c.ensure("region_of_the_nearest_layout_else_the_default", tag.attrs.get("region") == want_id)
    c.ensure("the_id_handed_out_is_remembered_and_earlier_ones_kept", rc._assigned_region_ids == {"earlier", want_id})
    attrs = {k: v for k, v in tag.attrs.items() if k not in ("region", "keep")}
    c.ensure("inline_positioning_only_when_asked_and_of_that_layout", attrs == ({"attrs of": eff} if inline else {}) and tag.attrs.get("keep") == "me")
    c.ensure("the_map_is_left_alone", rc._region_map == rmap)


class _Tag(StubTag):
    def findChildren(self, name, *a, **kw):
        return [t for t in self.children if isinstance(t, StubTag) and t.name == name]

    def extract(self):
        self.parent.children.remove(self)
        self.parent = None
        return self


def cleanup(c):
    ids = ["bottom", "r0", "r1"]
    assigned = set(i for i in ids if c.pick(f"{i}_was_handed_out", [True, False]))
    empty = c.pick("layout_section", ["with regions", "without regions", "absent"])
    soup = StubSoup(("tt", ("head", ("styling",)), ("body",)))
    head = soup.find("head")
    if empty != "absent":
        lay = _Tag("layout")
        head.append(lay)
        if empty == "with regions":
            for i in ids:
                r_ = _Tag("region", {"xml:id": i})
                lay.append(r_)
    rc = c.new(RegionCreator, _dfxp=soup, _region_map={}, _id_seed=2, _assigned_region_ids=set(assigned))
    c.call(RegionCreator.cleanup_regions, rc, compare=False)
    left = [t.attrs["xml:id"] for t in soup.find_all("region")]
    c.ensure("exactly_the_regions_never_handed_out_are_removed", left == ([i for i in ids if i in assigned] if empty == "with regions" else []))
    c.ensure("the_record_of_handed_out_ids_is_kept", rc._assigned_region_ids == assigned)


def prove_regions(ctx):
    ctx.prove("dfxp.RegionCreator.get_positioning_info+_assign_positioning_data", positioning_info,
              functions=[RegionCreator.get_positioning_info, DFXPWriter._assign_positioning_data], crosscheck=False)
    ctx.prove("dfxp.RegionCreator.cleanup_regions", cleanup, functions=[RegionCreator.cleanup_regions], crosscheck=False)
