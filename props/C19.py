"""C19 - timing adjustment and concurrent-caption merging keep all text in order.

All three functions are loops over caption lists of unknown length: they are proved with loop
invariants (no bound) over a field-array heap and z3 sequences; the spec functions are folds
defined by recursion on the prefix (`F_kept`, `J_nodes`, `RS_run_start`, `MS_merged`), written
from the statement.  The bounded part enumerates all small lists.
"""
import copy
import itertools
import random

import z3

from pycaption.base import Caption, CaptionList, CaptionNode, CaptionSet, merge, merge_concurrent_captions
from pycaption.dfxp.extras import LegacyDFXPWriter, SinglePositioningDFXPWriter
from pyvc import heap
from pyvc.heap import SymList, SymRef, declare, loop_rule, SEQ, INT, REAL, heap_array, as_seq
from pyvc.sym import cur, SNum, Inapplicable

declare(Caption, start="num", end="num", nodes="list:CaptionNode", style="id", layout_info="id")
declare(CaptionNode)
BRK = -2           # code of a freshly created break node (all fresh breaks are alike)
R = REAL


def node_coder(x):
    if isinstance(x, CaptionNode) and x.type_ == CaptionNode.BREAK and x.content is None and x.layout_info is None:
        return z3.IntVal(BRK)
    return None


_orig_as_seq = heap.as_seq


def as_seq2(v):
    if isinstance(v, (list, tuple)) and any(isinstance(x, CaptionNode) for x in v):
        parts = []
        for x in v:
            c = node_coder(x)
            if c is None:
                parts.append(_orig_as_seq([x]))
            else:
                parts.append(z3.Unit(c))
        return parts[0] if len(parts) == 1 else z3.Concat(*parts)
    return _orig_as_seq(v)


heap.as_seq = as_seq2
as_seq = as_seq2


def setup(interp):
    heap.install(interp)


def distinct(p, lists):
    """pairwise distinct caption objects, within and across the languages: every caption knows its language and
    its index (an injective numbering - friendlier to the solver than 'for all i < j: caps[i] != caps[j]')"""
    POS, LANG = z3.Function("POSITION_OF", INT, INT), z3.Function("LANGUAGE_OF", INT, INT)
    j_ = z3.Int("j_")
    for li, l in enumerate(lists):
        p.assume(z3.ForAll([j_], z3.Implies(z3.And(0 <= j_, j_ < z3.Length(l.t)),
                                            z3.And(POS(l.t[j_]) == j_, LANG(l.t[j_]) == li, l.t[j_] >= 0))))


# ------------------------------------------------------------------------------- adjust_caption_timing

def adjust(c):
    """every start/end t becomes t*skew+offset (the same float expression: uninterpreted), the
    survivors of EACH language are exactly its own captions whose new start is >= 0, in order, nodes
    untouched - one or two languages, each of any length (also empty).
    Requires pairwise distinct caption objects (an aliased caption would be shifted twice)."""
    fmul, fadd = z3.Function("fmul", R, R, R), z3.Function("fadd", R, R, R)
    F = z3.Function("F_kept", SEQ, INT, SEQ)
    p = cur()
    k = c.pick("languages", [1, 2])
    lists = [SymList(z3.Const(f"caps_{i}", SEQ), Caption) for i in range(k)]
    distinct(p, lists)
    skew, offset = c.real("skew", 0, 4), c.real("offset", -10 ** 12, 10 ** 12)
    cs = c.new(CaptionSet, _captions={f"l{i}": lists[i] for i in range(k)}, _styles={}, layout_info=None)
    start0, end0 = heap_array(p, Caption, "start"), heap_array(p, Caption, "end")
    new = lambda t: fadd(fmul(t, skew.t), offset.t)
    for l in lists:
        p.assume(F(l.t, 0) == z3.Empty(SEQ))
    A = z3.Int("any_caption")              # an arbitrary caption of any language

    def mapped(st, en, x):
        return z3.And(st[x] == new(start0[x]), en[x] == new(end0[x]))

    def same(st, en, x):
        return z3.And(st[x] == start0[x], en[x] == end0[x])

    def member(seq, x, lo, hi):
        j = z3.Int("j_m")
        return z3.Exists([j], z3.And(lo <= j, j < hi, seq[j] == x))

    def inv(S):
        seq = S.seq.t
        n = z3.Length(seq)
        S.p.assume(F(seq, S.i + 1) == z3.If(new(start0[seq[S.i]]) >= 0, z3.Concat(F(seq, S.i), z3.Unit(seq[S.i])), F(seq, S.i)))
        j = z3.Int("j")
        st, en = S.field(Caption, "start"), S.field(Caption, "end")
        idx = next(i for i, l in enumerate(lists) if l.t is seq or z3.eq(l.t, seq))
        earlier = [l.t for l in lists[:idx]]
        later = [l.t for l in lists[idx + 1:]]
        clauses = [("out_is_filter_of_prefix", as_seq(S.local("out_captions")) == F(seq, S.i)),
                   ("prefix_mapped", z3.ForAll([j], z3.Implies(z3.And(0 <= j, j < S.i), mapped(st, en, seq[j])))),
                   ("suffix_untouched", z3.ForAll([j], z3.Implies(z3.And(S.i <= j, j < n), same(st, en, seq[j]))))]
        for e in earlier:
            clauses.append(("earlier_languages_stay_mapped", z3.ForAll([j], z3.Implies(z3.And(0 <= j, j < z3.Length(e)), mapped(st, en, e[j])))))
        for e in later:
            clauses.append(("later_languages_untouched_so_far", z3.ForAll([j], z3.Implies(z3.And(0 <= j, j < z3.Length(e)), same(st, en, e[j])))))
        return clauses
    c.interp.loop_hooks[("pycaption.base:CaptionSet.adjust_caption_timing", 2)] = loop_rule(
        "adjust.loop", inv, locals_={"out_captions": ("seq", Caption)}, fields=[(Caption, "start"), (Caption, "end")])
    c.call(CaptionSet.adjust_caption_timing, cs, offset, skew, compare=False)
    j = z3.Int("j")
    st, en = heap_array(p, Caption, "start"), heap_array(p, Caption, "end")
    c.ensure("languages_kept", list(cs._captions) == [f"l{i}" for i in range(k)])
    for i, l in enumerate(lists):
        out = cs._captions[f"l{i}"]
        n = z3.Length(l.t)
        c.ensure("survivors_are_exactly_the_non_negative_starts_in_order", as_seq(out) == F(l.t, n))
        c.ensure("every_time_mapped_to_t_skew_plus_offset", z3.ForAll([j], z3.Implies(z3.And(0 <= j, j < n), mapped(st, en, l.t[j]))))
    c.ensure("nodes_untouched", heap_array(p, Caption, "nodes") is p.ghost["heap0"][("Caption", "nodes")])


# ------------------------------------------------------------------------------- merge

def J_fold(caps_t, NODES):
    """J(0) = [], J(1) = nodes(c0), J(k+1) = J(k) ++ [BRK] ++ nodes(ck): all nodes in order, separated
    by line breaks"""
    J = z3.Function("J_nodes", INT, SEQ)

    def jdef(k):
        nd = NODES[caps_t[k]]
        return J(k + 1) == z3.If(k == 0, nd, z3.Concat(J(k), z3.Unit(z3.IntVal(BRK)), nd))
    return J, jdef


def merge_contract(c):
    """merge(captions) for a non-empty list of captions (each with at least one node: the Caption
    constructor's invariant): a new caption with the first one's times and style and all the
    nodes in order, separated by line breaks; the inputs are not modified"""
    p = cur()
    caps = SymList(z3.Const("caps", SEQ), Caption)
    n = z3.Length(caps.t)
    p.assume(n >= 1)
    NODES = heap_array(p, Caption, "nodes")
    r_ = z3.Int("r_")
    p.assume(z3.ForAll([r_], z3.Length(NODES[r_]) >= 1))
    # a node code is never the break token
    J, jdef = J_fold(caps.t, NODES)
    p.assume(J(0) == z3.Empty(SEQ))

    def outer(S):
        S.p.assume(jdef(S.i))
        nn = as_seq(S.local("new_nodes"))
        return [("new_nodes_is_J_of_prefix", nn == J(S.i)),
                ("non_empty_after_first", z3.Implies(S.i >= 1, z3.Length(nn) >= 1))]

    def inner(S):
        base = as_seq(S.entry_local("new_nodes"))
        return [("appended_prefix_of_caption_nodes", as_seq(S.local("new_nodes")) ==
                 z3.Concat(base, z3.SubSeq(S.seq.t, 0, S.i)))]
    q = "pycaption.base:merge"
    c.interp.loop_hooks[(q, 1)] = loop_rule("merge.outer", outer, locals_={"new_nodes": ("seq", None), "node": ("skip", None)})
    c.interp.loop_hooks[(q, 2)] = loop_rule("merge.inner", inner, locals_={"new_nodes": ("seq", None)})
    r = c.call(merge, caps, compare=False)
    first = caps.elem(0)
    c.ensure("is_caption", isinstance(r, Caption))
    c.ensure("times_of_the_first", c.conj(r.start == first.start, r.end == first.end))
    c.ensure("style_of_the_first", r.style == first.style)
    c.ensure("all_nodes_in_order_separated_by_breaks", as_seq(r.nodes) == J(n))
    c.ensure("inputs_not_modified", all(heap_array(p, Caption, f) is p.ghost["heap0"][("Caption", f)]
                                        for f in ("start", "end", "nodes", "style")))


# ------------------------------------------------------------------------------- merge_concurrent_captions

def merge_handler(NEWCAP):
    """merge() under contract (proved above): the result is a fresh caption NEWCAP(list)"""
    def h(interp, fn, args, kw):
        (lst,) = args
        p = cur()
        t = as_seq(lst)
        p.require("merge/precondition_non_empty_list", z3.Length(t) >= 1, kind="pre")
        r = NEWCAP(t)
        st, en = heap_array(p, Caption, "start"), heap_array(p, Caption, "end")
        p.assume(z3.And(r < -10, st[r] == st[t[0]], en[r] == en[t[0]]))
        return SymRef(Caption, r)
    return h


def mcc(c):
    """merge_concurrent_captions: the captions of EACH language are replaced by one merged caption per
    maximal run of consecutive captions with identical (start, end), in order - one or two languages,
    each of any length; a language without captions is left alone and does not stop the others."""
    p = cur()
    k = c.pick("languages", [1, 2])
    lists = [SymList(z3.Const(f"caps_{i}", SEQ), Caption) for i in range(k)]
    distinct(p, lists)
    ST, EN = heap_array(p, Caption, "start"), heap_array(p, Caption, "end")
    NEWCAP = z3.Function("NEWCAP", SEQ, INT)
    CONC = z3.Function("CONC_current_run", SEQ, INT, SEQ)   # the run that element k-1 belongs to, so far
    MS = z3.Function("MS_merged", SEQ, INT, SEQ)            # merged captions of the runs completed before k
    for l in lists:
        p.assume(z3.And(CONC(l.t, 0) == z3.Empty(SEQ), MS(l.t, 0) == z3.Empty(SEQ)))

    def defs(seq, k_):
        # element k continues the current run iff it has the same (start, end) as element k-1;
        # otherwise the current run is complete: it is merged, and k starts a new run
        cont = z3.And(k_ >= 1, ST[seq[k_]] == ST[seq[k_ - 1]], EN[seq[k_]] == EN[seq[k_ - 1]])
        return z3.And(
            CONC(seq, k_ + 1) == z3.If(cont, z3.Concat(CONC(seq, k_), z3.Unit(seq[k_])), z3.Unit(seq[k_])),
            MS(seq, k_ + 1) == z3.If(z3.Or(cont, k_ == 0), MS(seq, k_), z3.Concat(MS(seq, k_), z3.Unit(NEWCAP(CONC(seq, k_))))))
    cs = c.new(CaptionSet, _captions={f"l{i}": lists[i] for i in range(k)}, _styles={}, layout_info=None)

    def inv(S):
        seq = S.seq.t
        S.p.assume(defs(seq, S.i))
        last = S.local("last_caption")
        conc = as_seq(S.local("concurrent_captions"))
        merged = as_seq(S.local("merged_captions"))
        lastc = heap.code_of(last)
        return [("nothing_before_the_first", z3.Implies(S.i == 0, z3.And(lastc == -1, z3.Length(conc) == 0))),
                ("last_is_previous", z3.Implies(S.i >= 1, lastc == seq[S.i - 1])),
                ("concurrent_is_current_run", conc == CONC(seq, S.i)),
                ("current_run_non_empty", z3.Implies(S.i >= 1, z3.Length(conc) >= 1)),
                ("merged_is_completed_runs", merged == MS(seq, S.i))]
    c.interp.loop_hooks[("pycaption.base:merge_concurrent_captions", 2)] = loop_rule(
        "mcc.loop", inv, locals_={"last_caption": ("oref", Caption), "concurrent_captions": ("seq", Caption),
                                  "merged_captions": ("seq", Caption), "last_timespan": ("skip", None),
                                  "current_timespan": ("skip", None)})
    c.interp.contracts["pycaption.base:merge"] = merge_handler(NEWCAP)
    r = c.call(merge_concurrent_captions, cs, compare=False)
    c.ensure("returns_the_same_set", r is cs)
    c.ensure("languages_kept", list(cs._captions) == [f"l{i}" for i in range(k)])
    for i, l in enumerate(lists):
        out = cs._captions[f"l{i}"]
        n = z3.Length(l.t)
        if p.branch(n == 0):
            c.ensure("empty_language_left_alone", out is l)
        else:
            c.ensure("one_merged_caption_per_maximal_run_in_order",
                     as_seq(out) == z3.Concat(MS(l.t, n), z3.Unit(NEWCAP(CONC(l.t, n)))))
    c.ensure("input_captions_not_modified", all(heap_array(p, Caption, f) is p.ghost["heap0"][("Caption", f)]
                                                for f in ("start", "end", "nodes", "style")))


# ------------------------------------------------------------------------------- bounded part

T = lambda s: CaptionNode.create_text(s)


def runs_of(spans):
    out = []
    for i, sp in enumerate(spans):
        if out and out[-1][0] == sp:
            out[-1][1].append(i)
        else:
            out.append((sp, [i]))
    return out


def dump(cs):
    return {l: [(c_.start, c_.end, [(n.type_, n.content) for n in c_.nodes]) for c_ in cs.get_captions(l)]
            for l in cs.get_languages()}


def bounded(ctx, b):
    rng = random.Random(ctx.seed)
    spans_alphabet = [(0, 10), (0, 20), (10, 20), (5, 5)]
    maxlen = 5 if not ctx.thorough else 6
    BRK_ = (CaptionNode.BREAK, None)

    def shape(i):
        """node shapes differ from caption to caption: text / break / text, a single text, ending with a
        break, starting with a break"""
        a, b_ = (CaptionNode.TEXT, f"a{i}"), (CaptionNode.TEXT, f"b{i}")
        # (... and captions whose text is blank: they are captions like any other)
        return [[a, BRK_, b_], [a], [(CaptionNode.TEXT, " ")], [a, BRK_], [BRK_, a], [(CaptionNode.TEXT, "\xa0")], [(CaptionNode.TEXT, "")]][i % 7]

    def build(desc):
        return [CaptionNode.create_break() if k == CaptionNode.BREAK else T(v) for k, v in desc]
    for n in range(0, maxlen + 1):
        for spans in itertools.product(spans_alphabet, repeat=n):
            def mk():
                return CaptionSet({"en": CaptionList([Caption(s, e, build(shape(i))) for i, (s, e) in enumerate(spans)]),
                                   "fr": CaptionList([Caption(1, 2, [T("x")])])})

            def one():
                cs = mk()
                res = merge_concurrent_captions(cs)
                got = dump(res)["en"]
                exp = []
                for sp, idx in runs_of(spans):
                    nodes = []
                    for k, i in enumerate(idx):
                        if k:
                            nodes.append((CaptionNode.BREAK, None))
                        nodes += shape(i)
                    exp.append((sp[0], sp[1], nodes))
                if got != exp or dump(res)["fr"] != [(1, 2, [(CaptionNode.TEXT, "x")])]:
                    return False, {"spans": spans, "got": got, "expected": exp}
                again = dump(merge_concurrent_captions(res))
                if again["en"] != exp:
                    return False, {"spans": spans, "second_merge_changed": again["en"]}
                return True, None
            b.guard(("merge", spans), one, sample={"spans": spans}, nontrivial=n > 0)
    # histories: a set that has been merged (or adjusted) before is a set like any other - merged, then edited in place
    # (a caption appended, a caption re-timed onto its neighbour), then merged again
    def ref_merge(desc):
        out = []
        for sp, idx in runs_of([(s_, e_) for s_, e_, _ in desc]):
            nodes = []
            for k, i in enumerate(idx):
                nodes += ([BRK_] if k else []) + list(desc[i][2])
            out.append((sp[0], sp[1], nodes))
        return out
    for spans in itertools.product(spans_alphabet[:3], repeat=3):
        for edit in ("append_concurrent", "retime_last", "append_then_adjust"):
            def hist(spans=spans, edit=edit):
                cs = CaptionSet({"en": CaptionList([Caption(s_, e_, build(shape(i))) for i, (s_, e_) in enumerate(spans)]),
                                 "fr": CaptionList([Caption(1, 2, [T("x")]), Caption(1, 2, [T("y")])])})
                cs = merge_concurrent_captions(cs)
                cs = merge_concurrent_captions(cs)
                lst = cs.get_captions("en")
                if edit == "retime_last" and len(lst) > 1:
                    lst[-1].start, lst[-1].end = lst[-2].start, lst[-2].end
                else:
                    lst.append(Caption(lst[-1].start, lst[-1].end, [T("added")]))
                if edit == "append_then_adjust":
                    cs.adjust_caption_timing(offset=7, rate_skew=1.0)
                desc = dump(cs)["en"]
                got = dump(merge_concurrent_captions(cs))["en"]
                exp = ref_merge(desc)
                return got == exp, {"spans": spans, "edit": edit, "before_the_last_merge": desc, "got": got, "expected": exp}
            b.guard(("history", spans, edit), hist, sample={"spans": spans, "edit_after_two_merges": edit})
    # timing adjustment
    starts = [0, 1000, 5000, 2500, 100000]
    skews = [0.5, 1.0, 1.1, 4.0]
    offsets = [0, 5, -3000, -1000.5, 10 ** 6, -2600]
    # new starts that land exactly on, or within an ulp of, zero: the test is on the ADJUSTED start
    for skew, offset, st in [(0.7, -700000, 1000000), (0.7, -490000, 700000), (1.1, -1100, 1000), (0.1, -100, 1000), (3.3, -3300, 1000),
                             (0.7, -700, 1000), (1.0, -1000, 1000), (0.3, -300.0, 1000), (0.6, -600, 1000), (1.9, -1900, 1000)]:
        def edge(skew=skew, offset=offset, st=st):
            caps = [Caption(st, st + 700, [T("edge")]), Caption(st + 5000, st + 6000, [T("later")])]
            cs = CaptionSet({"en": CaptionList(caps)})
            cs.adjust_caption_timing(offset=offset, rate_skew=skew)
            exp = [(x * skew + offset, y * skew + offset, [(CaptionNode.TEXT, t)]) for x, y, t in ((st, st + 700, "edge"), (st + 5000, st + 6000, "later"))
                   if x * skew + offset >= 0]
            got = dump(cs)["en"]
            return got == exp, {"start": st, "skew": skew, "offset": offset, "new_start": st * skew + offset, "got": got, "expected": exp}
        b.guard(("adjust-edge", st, skew, offset), edge, sample={"start": st, "skew": skew, "offset": offset})
    # every start and end is mapped on its own: also where a caption starts exactly where the RETIMED end of the previous one
    # falls (a gap equal to the offset, a gap that the skew doubles), and for captions that start below zero
    for spans_, skew, offset in [([(1000000, 2000000), (3000000, 4000000), (5000000, 6000000)], 1.0, 1000000),
                                 ([(1000000, 2000000), (4000000, 5000000)], 2.0, 0), ([(0, 3000000), (2000000, 5000000)], 1.0, -1000000),
                                 ([(1000000, 2000000), (2000000, 3000000)], 1.5, 250), ([(-3000000, -1000000), (1000000, 2000000)], 1.0, 2000000),
                                 ([(-3000000, 500000), (-1, 10), (0, 5)], 1.0, 0), ([(-5, 5), (5, 15)], 2.0, 10)]:
        def exact(spans_=spans_, skew=skew, offset=offset):
            cs = CaptionSet({"en": CaptionList([Caption(s_, e_, [T(f"n{i}")]) for i, (s_, e_) in enumerate(spans_)])})
            cs.adjust_caption_timing(offset=offset, rate_skew=skew)
            exp = [(s_ * skew + offset, e_ * skew + offset, [(CaptionNode.TEXT, f"n{i}")]) for i, (s_, e_) in enumerate(spans_) if s_ * skew + offset >= 0]
            got = dump(cs)["en"]
            return got == exp, {"spans": spans_, "skew": skew, "offset": offset, "got": got, "expected": exp}
        b.guard(("adjust-exact", tuple(spans_), skew, offset), exact, sample={"spans": spans_, "skew": skew, "offset": offset})
    # a language added to the set after it was built (set_captions) is a language like the others
    for op in ("merge", "adjust"):
        def later(op=op):
            cs = CaptionSet({"en": CaptionList([Caption(0, 10, [T("a")]), Caption(0, 10, [T("b")])])})
            cs.set_captions("fr", CaptionList([Caption(5, 9, [T("v")]), Caption(5, 9, [T("w")]), Caption(20, 30, [T("x")])]))
            if cs.get_languages() != ["en", "fr"]:
                return False, {"languages": cs.get_languages(), "expected": ["en", "fr"]}
            if op == "merge":
                got = dump(merge_concurrent_captions(cs))
                exp = {"en": [(0, 10, [(CaptionNode.TEXT, "a"), BRK_, (CaptionNode.TEXT, "b")])],
                       "fr": [(5, 9, [(CaptionNode.TEXT, "v"), BRK_, (CaptionNode.TEXT, "w")]), (20, 30, [(CaptionNode.TEXT, "x")])]}
            else:
                cs.adjust_caption_timing(offset=3, rate_skew=1.0)
                got = dump(cs)
                exp = {"en": [(3.0, 13.0, [(CaptionNode.TEXT, "a")]), (3.0, 13.0, [(CaptionNode.TEXT, "b")])],
                       "fr": [(8.0, 12.0, [(CaptionNode.TEXT, "v")]), (8.0, 12.0, [(CaptionNode.TEXT, "w")]), (23.0, 33.0, [(CaptionNode.TEXT, "x")])]}
            return got == exp, {"operation": op, "got": got, "expected": exp}
        b.guard(("language-added-later", op), later, sample={"operation": op, "language_added_with_set_captions": "fr"})
    for n in range(0, 5):
        for seq in itertools.product(starts, repeat=n):
            skew, offset = rng.choice(skews), rng.choice(offsets)

            def one():
                caps = [Caption(s, s + 700, [T(f"n{i}")]) for i, s in enumerate(seq)]
                cs = CaptionSet({"en": CaptionList(caps), "de": CaptionList([Caption(10, 20, [T("d")])])})
                cs.adjust_caption_timing(offset=offset, rate_skew=skew)
                exp = [(s * skew + offset, (s + 700) * skew + offset, [(CaptionNode.TEXT, f"n{i}")])
                       for i, s in enumerate(seq) if s * skew + offset >= 0]
                got = dump(cs)["en"]
                de = dump(cs)["de"]
                exp_de = [(10 * skew + offset, 20 * skew + offset, [(CaptionNode.TEXT, "d")])] if 10 * skew + offset >= 0 else []
                return got == exp and de == exp_de, {"starts": seq, "skew": skew, "offset": offset, "got": got, "expected": exp}
            b.guard(("adjust", seq, skew, offset), one, sample={"starts": seq, "skew": skew, "offset": offset}, nontrivial=n > 0)
    # several languages, some of them without captions, in every order: each language on its own
    def lang_caps(tag, spans):
        return CaptionList([Caption(s_, e_, [T(f"{tag}{i}")]) for i, (s_, e_) in enumerate(spans)])
    shapes = {"none": [], "runs": [(0, 10), (0, 10), (10, 20), (30, 40), (30, 40)], "one": [(5, 5)], "late": [(100, 200), (100, 200)]}
    for order in itertools.permutations(shapes, 3):
        def many(order=order):
            mk = lambda: CaptionSet({f"l-{nm}": lang_caps(nm, shapes[nm]) for nm in order})
            res = dump(merge_concurrent_captions(mk()))
            for nm in order:
                exp = [(sp[0], sp[1], sum(([(CaptionNode.BREAK, None)] * (1 if k else 0) + [(CaptionNode.TEXT, f"{nm}{i}")] for k, i in enumerate(idx)), []))
                       for sp, idx in runs_of(shapes[nm])]
                if res[f"l-{nm}"] != exp:
                    return False, {"languages": order, "language": nm, "got": res[f"l-{nm}"], "expected": exp}
            cs2 = mk()
            cs2.adjust_caption_timing(offset=-50, rate_skew=1.0)
            res2 = dump(cs2)
            for nm in order:
                exp = [(s_ - 50.0, e_ - 50.0, [(CaptionNode.TEXT, f"{nm}{i}")]) for i, (s_, e_) in enumerate(shapes[nm]) if s_ - 50 >= 0]
                if res2[f"l-{nm}"] != exp:
                    return False, {"languages": order, "language": nm, "adjusted": res2[f"l-{nm}"], "expected": exp}
            return list(res) == [f"l-{nm}" for nm in order], {"languages": list(res)}
        b.guard(("languages", order), many, sample={"languages": order})
    # users of the merge: the legacy / single-position writers write one <p> per run
    from refs import parsers
    for spans in itertools.product(spans_alphabet[:3], repeat=3):
        cs = CaptionSet({"en": CaptionList([Caption(s * 10 ** 6, e * 10 ** 6, [T(f"t{i}")]) for i, (s, e) in enumerate(spans)])})
        for Wr in (LegacyDFXPWriter, SinglePositioningDFXPWriter):
            def one(Wr=Wr):
                before = dump(cs)
                d = parsers.parse_dfxp(Wr().write(cs))
                cues = d["cues"].get("en", [])
                exp = [(sp[0] * 10 ** 6, sp[1] * 10 ** 6, [f"t{i}" for i in idx]) for sp, idx in runs_of(spans)]
                got = [(cu["start"], cu["end"], cu["lines"]) for cu in cues]
                return got == exp and dump(cs) == before, {"writer": Wr.__name__, "spans": spans, "got": got, "expected": exp}
            b.guard((Wr.__name__, spans), one, sample={"writer": Wr.__name__, "spans": spans})


def run(ctx):
    P = ctx.prove
    P("base.CaptionSet.adjust_caption_timing", adjust, functions=[CaptionSet.adjust_caption_timing], fsem="uf",
      setup_interp=setup, crosscheck=False)
    P("base.merge", merge_contract, functions=[merge], setup_interp=setup, crosscheck=False)
    P("base.merge_concurrent_captions", mcc, functions=[merge_concurrent_captions], setup_interp=setup, crosscheck=False)
    ctx.bounded("small_lists", "every caption list up to length 5 (thorough: 6) over 4 timespans (runs of every length "
                "and position): merge result = maximal runs with all nodes separated by breaks, second merge changes "
                "nothing, other language untouched; timing adjustment over start sequences x skews x offsets of both "
                "signs; legacy / single-position writers write one <p> per run and leave the input unchanged",
                lambda b: bounded(ctx, b), exhaustive=True)
    ctx.trust("loop invariants over z3 sequences and field arrays; spec folds F_kept / J_nodes / CONC_current_run / MS_merged "
              "are definitions by recursion on the prefix; allocation of the merged caption is modelled by the "
              "uninterpreted NEWCAP(list) with the field values merge()'s proved contract gives it")
    ctx.assume("adjust_caption_timing: caption objects of a language are pairwise distinct; float arithmetic is the "
               "statement's own expression t*skew+offset (uninterpreted fmul/fadd)")
    ctx.assume("merge: non-empty list of captions, each with at least one node (Caption's constructor invariant); "
               "no CPython cross-check for these three contracts (symbolic heaps cannot be concretised) - the bounded "
               "enumeration runs the same clauses natively instead")
