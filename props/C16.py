"""C16 - roll-up and paint-on SCC text is conserved and ordered."""
import itertools
import random

import z3

from pycaption import SCCReader
from pycaption.scc.specialized_collections import CaptionCreator, PreCaption, TimingCorrectingCaptionList
from pyvc import heap
from pyvc.heap import SymList, SymRef, declare, loop_rule, SEQ, INT, heap_array
from pyvc.sym import cur
from refs import cea608 as C
import props.C06 as C06          # declares the PreCaption schema


def setup(interp):
    heap.install(interp)


def correct_last_timing(c):
    """CaptionCreator.correct_last_timing: with force (roll-up), or when the captions being edited have
    no end yet, EVERY caption still being edited ends at the given time - so each roll-up caption ends
    exactly when the next one begins; otherwise nothing changes.  Any number of captions."""
    p = cur()
    force = c.pick("force", [True, False])
    editing = SymList(z3.Const("still_editing", SEQ), PreCaption)
    n = z3.Length(editing.t)
    C06.distinct(p, editing.t)
    EN = heap_array(p, PreCaption, "end")
    t = c.real("end_time", 0, 10 ** 11)
    cc = c.new(CaptionCreator, _collection=[], _still_editing=editing)
    J = z3.Int("any_index")
    p.assume(z3.And(0 <= J, J < n))

    def inv(S):
        en = S.field(PreCaption, "end")
        return [("prefix_ends_at_the_given_time", z3.If(J < S.i, en[editing.t[J]] == t.t, en[editing.t[J]] == EN[editing.t[J]]))]
    c.interp.loop_hooks[("pycaption.scc.specialized_collections:CaptionCreator.correct_last_timing", 1)] = \
        loop_rule("end.loop", inv, fields=[(PreCaption, "end")])
    c.call(CaptionCreator.correct_last_timing, cc, t, force, compare=False)
    en = heap_array(p, PreCaption, "end")
    last_end = EN[editing.t[n - 1]]
    applies = z3.BoolVal(True) if force else (last_end == 0)
    c.ensure("all_edited_captions_end_at_the_given_time", z3.Implies(applies, en[editing.t[J]] == t.t))
    c.ensure("otherwise_unchanged", z3.Implies(z3.Not(applies), en[editing.t[J]] == EN[editing.t[J]]))
    c.ensure("starts_untouched", heap_array(p, PreCaption, "start") is p.ghost["heap0"][("PreCaption", "start")])


# ------------------------------------------------------------------------------------ bounded part

TEXTS = ["HELLO THERE", "   centred title", "  speaker one", "    FOUR BLANKS FIRST", "AT B B C", " B B B", "A ROW OF EXACTLY THIRTY-TWO CHAR ", "LOW  ",
         "GENERAL KENOBI", "YOU ARE A BOLD ONE", "OK", "A", "it's 5 o'clock.", "One, two!", "x y z",
         "THE QUICK BROWN FOX JUMPS", "over", "12345 67890",
         "Seg\u00fan el men\u00fa", "\u00e1\u00e9\u00ed\u00f3\u00fa \u00e7\u00f7\u00d1\u00f1\u2588", "[ab]=c/d; e+f<g>h? #1 $2 %3 &4@6", "(5) \"q\" it's: x-y, z.",
         "\u00c9l no viene", "\u00a1Hola!", "MA\u00d1ANA \u00c1 \u00fc", "\u00d3",
         "A ROW OF EXACTLY THIRTY-TWO CHAR", "thirty-one characters in this row"[:31], "ABCDEFGHIJKLMNOPQRSTUVWXYZ012345"]
assert [len(t_) for t_ in TEXTS[-3:]] == [32, 31, 32] and len(TEXTS[6]) == 33


def norm(s):
    """a row up to runs of blanks inside it and blanks at its end; blanks sent at the START of a row are characters
    of the row like any other (text centred with blanks)"""
    return s[:len(s) - len(s.lstrip(" "))] + " ".join(s.split())


def addr(row, indent, to, dbl):
    """the address of a row: a preamble address code with an indent, optionally followed by a tab offset; doubled,
    the pair is sent twice as a unit (PAC TO PAC TO)"""
    ws = [C.pac(row, indent)] + ([C.ctrl(f"TO{to}")] if to else [])
    return ws + ws if dbl else ws


STAND_IN = {"\u00c9": "E", "\u00a1": "!", "\u00c1": "A", "\u00fc": "u", "\u00d3": "O"}     # extended characters and the basic ones sent before them


def row_words(text, dbl=False):
    """code words of a row: basic characters two per word; an extended character is sent as its stand-in basic
    character followed by the two-byte extended code (which overwrites the stand-in)"""
    ws, run = [], ""
    for ch in text:
        if ch in STAND_IN:
            ws += C.text_words(run + STAND_IN[ch])
            run = ""
            ws += [C.extended(ch)] * (2 if dbl else 1)
        else:
            run += ch
    return ws + (C.text_words(run) if run else [])


def rollup_doc(rng, depth, rows, texts, dbl, drop, gaps, ru_every_line, t0=40):
    lines, t = [], t0
    ctl = lambda w: [w, w] if dbl else [w]
    ru = C.ctrl({2: "RU2", 3: "RU3", 4: "RU4"}[depth])
    for i, (row, text) in enumerate(zip(rows, texts)):
        ws = (ctl(ru) if (ru_every_line or i == 0) else []) + ctl(C.ctrl("CR")) + addr(row, rng.choice([0, 4, 8]), rng.choice([0, 0, 1, 2, 3]), dbl) + row_words(text, dbl)
        lines.append((C.timecode(t, drop), ws))
        t += len(ws) + gaps[i]
    lines.append((C.timecode(t, drop), ctl(C.ctrl("CR"))))
    return C.scc_document(lines)


def painton_doc(rng, rowsets, dbl, drop, gaps, t0=40):
    lines, t = [], t0
    ctl = lambda w: [w, w] if dbl else [w]
    for i, rows in enumerate(rowsets):
        ws = ctl(C.ctrl("RDC"))
        for row, text in rows:
            ws += addr(row, rng.choice([0, 0, 4, 8]), rng.choice([0, 0, 2, 3]), dbl) + row_words(text, dbl)
        lines.append((C.timecode(t, drop), ws))
        t += len(ws) + gaps[i]
    lines.append((C.timecode(t, drop), ctl(C.ctrl("RDC"))))
    return C.scc_document(lines)


def rows_of(cp):
    """the rows of a caption from its nodes (get_text() trims the caption as a whole)"""
    from pycaption.base import CaptionNode
    rows = [""]
    for n_ in cp.nodes:
        if n_.type_ == CaptionNode.BREAK:
            rows.append("")
        elif n_.type_ == CaptionNode.TEXT:
            rows[-1] += n_.content
    return rows


def check_captions(caps, expected_rows):
    # (a caption that opens with a line break - the row address was one below the previous caption's - has no text before it)
    got_lines = [norm(x) for cp in caps for x in rows_of(cp) if x != ""]
    if got_lines != [norm(x) for x in expected_rows]:
        return False, {"rows_read": got_lines, "rows_sent": expected_rows}
    starts = [cp.start for cp in caps]
    if starts != sorted(starts):
        return False, {"not_ordered_by_start": starts}
    for cp in caps:
        if not cp.start < cp.end:
            return False, {"start_not_before_end": (cp.start, cp.end, cp.get_text())}
    return True, None


def bounded(ctx, b):
    rng = random.Random(ctx.seed)
    n = 250 if not ctx.thorough else 5000
    for i in range(n):
        depth = rng.choice([2, 3, 4])
        k = rng.choice([1, 2, 3, 5, 8])
        base = rng.choice([15, 14, 12, 5])
        moving = rng.random() < 0.3
        rows = [min(15, base + (j if moving else 0)) for j in range(k)]
        if moving and rng.random() < 0.5:
            rows = [max(1, base - j) for j in range(k)]
        texts = [rng.choice(TEXTS) for _ in range(k)]
        dbl, drop = rng.choice([False, True]), rng.choice([False, True])
        gaps = [rng.choice([0, 3, 30, 90]) for _ in range(k)]
        every = rng.choice([True, False])
        t0 = rng.choice([0, 0, 1, 40, 40, 1799, 107892])          # a program may start at timecode zero

        lang = rng.choice(["en-US", "en-US", "de-DE"])

        def one(depth=depth, rows=rows, texts=texts, dbl=dbl, drop=drop, gaps=gaps, every=every, t0=t0, lang=lang, i=i):
            doc = rollup_doc(rng, depth, rows, texts, dbl, drop, gaps, every, t0)
            if i % 7 == 3:
                damage_shared_reader()
            # (an offset that no caption of the program falls short of leaves every clause as it is)
            kw = {"offset": [2, -1.5, 0.25][i % 3]} if (t0 >= 1799 and i % 2) else {}
            caps = _SHARED_READER.read(doc, lang=lang, **kw).get_captions(lang)
            ok, d = check_captions(caps, texts)
            if not ok:
                return False, dict(d, doc=doc[:600])
            for a, b_ in zip(caps, caps[1:]):
                if a.end != b_.start:
                    return False, {"caption_does_not_end_when_the_next_begins": (a.end, b_.start), "doc": doc[:600]}
            return True, None
        b.guard(("rollup", i), one, sample={"mode": "roll-up", "depth": depth, "rows": rows, "texts": texts, "doubled": dbl, "drop": drop, "ru_on_every_line": every, "first_frame": t0})
    for i in range(n // 2):
        k = rng.choice([1, 2, 3])
        rowsets = []
        for j in range(k):
            start_row = rng.choice([13, 12, 1, 7])
            m = rng.choice([1, 2, 3])
            adjacent = rng.random() < 0.6
            rs = [start_row + (q if adjacent else 2 * q) for q in range(m)]
            rowsets.append([(r, rng.choice(TEXTS)) for r in rs if r <= 15])
        dbl, drop = rng.choice([False, True]), rng.choice([False, True])
        gaps = [rng.choice([0, 3, 30, 90]) for _ in range(k)]
        t0 = rng.choice([0, 0, 1, 40, 40, 1799, 107892])

        lang = rng.choice(["en-US", "fr-FR", "de-DE"])

        def two(rowsets=rowsets, dbl=dbl, drop=drop, gaps=gaps, t0=t0, lang=lang, i=i):
            doc = painton_doc(rng, rowsets, dbl, drop, gaps, t0)
            if i % 5 == 2:
                damage_shared_reader()
            kw = {"offset": [2, -1.5, 0.25][i % 3]} if (t0 >= 1799 and i % 2) else {}
            caps = _SHARED_READER.read(doc, lang=lang, **kw).get_captions(lang)
            ok, d = check_captions(caps, [t for rows in rowsets for _, t in rows])
            return ok, (dict(d, doc=doc[:600]) if d else None)
        b.guard(("painton", i), two, sample={"mode": "paint-on", "rows": [[r for r, _ in rows] for rows in rowsets], "doubled": dbl, "drop": drop, "first_frame": t0})
    # programs that change mode: paint-on / roll-up passages in every order of three
    for order in itertools.product(["paint", "roll"], repeat=3):
        for dbl in (False, True):
            def mixed(order=order, dbl=dbl):
                ctl = lambda w: [w, w] if dbl else [w]
                lines, t, sent = [], 40, []
                for pi, kind in enumerate(order):
                    for j in range(2):
                        text = f"{kind.upper()} {pi} ROW {j}"
                        sent.append(text)
                        if kind == "paint":
                            ws = ctl(C.ctrl("RDC")) + ctl(C.pac(3 + 2 * j)) + C.text_words(text)
                        else:
                            ws = ctl(C.ctrl("RU3")) + ctl(C.ctrl("CR")) + ctl(C.pac(15)) + C.text_words(text)
                        lines.append((C.timecode(t), ws))
                        t += len(ws) + 45
                last = order[-1]
                lines.append((C.timecode(t), ctl(C.ctrl("RDC")) if last == "paint" else ctl(C.ctrl("CR"))))
                doc = C.scc_document(lines)
                caps = _SHARED_READER.read(doc).get_captions("en-US")
                ok, d = check_captions(caps, sent)
                return ok, (dict(d, doc=doc[:700]) if d else None)
            b.guard(("mixed", order, dbl), mixed, sample={"passages": order, "doubled": dbl})
    # timecodes crossing an hour
    for drop in (True, False):
        def three(drop=drop):
            lines, t = [], 3600 * 30 - 70
            for text in ["BEFORE THE HOUR", "AT THE HOUR", "AFTER"]:
                ws = [C.ctrl("RU2"), C.ctrl("CR"), C.pac(15)] + C.text_words(text)
                lines.append((C.timecode(t, drop), ws))
                t += 75
            lines.append((C.timecode(t, drop), [C.ctrl("CR")]))
            caps = _SHARED_READER.read(C.scc_document(lines)).get_captions("en-US")
            ok, d = check_captions(caps, ["BEFORE THE HOUR", "AT THE HOUR", "AFTER"])
            return ok and all(a.end == b_.start for a, b_ in zip(caps, caps[1:])), d
        b.guard(("hour", drop), three, sample={"mode": "roll-up across 01:00:00", "drop": drop})


def run(ctx):
    ctx.prove("scc.CaptionCreator.correct_last_timing", correct_last_timing, functions=[CaptionCreator.correct_last_timing],
              setup_interp=setup, crosscheck=False)
    # a caption that was never ended (end 0: roll-up lines re-sent with their mode code, paint-on buffers) ends
    # when the next one begins - whatever its own start, zero included
    ctx.prove("scc.TimingCorrectingCaptionList._update_last_batch", C06.update_last_batch,
              functions=[TimingCorrectingCaptionList._update_last_batch], setup_interp=setup, crosscheck=False)
    import props.C16_list as TLS
    TLS.prove_list_skeleton(ctx)      # (append / extend: what is kept, and that ALL parts of the previous caption are closed)
    # captions that never got an end (the last paint-on group, split over non-adjacent rows) all get one: start < end
    from pycaption.scc import fix_last_captions_without_ending
    ctx.prove("scc.fix_last_captions_without_ending", C06.last_captions, functions=[fix_last_captions_without_ending],
              setup_interp=setup, fsem="uf", crosscheck=False)
    import props.C06_commands as CM
    CM.prove_commands(ctx)
    import props.C06_line as LI
    LI.prove_line(ctx)            # (each code word handed on once; a line resets nothing the doubling logic relies on)
    LI.prove_read_head(ctx)       # (nothing of an earlier read is left; the offset is applied where the times are made)
    ctx.bounded("programs", "roll-up programs (depth 2-4, fixed and moving base rows incl. one row down / up per line, 1-8 "
                "rows of text, single / doubled codes, drop / non-drop, gaps 0-90 frames, mode code on every line or only "
                "once) and paint-on programs (1-3 buffers of 1-3 adjacent or non-adjacent rows): every transmitted row "
                "appears exactly once, in order, kept together; ordered by start, start < end, each roll-up caption ends "
                "when the next begins; timecodes crossing an hour", lambda b: bounded(ctx, b))
    ctx.trust("loop invariant over a field-array heap for correct_last_timing; the mode-switch / buffer-flush logic of "
              "SCCReader._translate_command is bounded-checked only (protocol-level conservation invariant)")
    ctx.assume("conservation is checked at the granularity of rows (whitespace-normalised), as the statement's 'text of "
               "each transmitted row kept together'")


def damage_shared_reader():
    """a read that fails half-way (damaged timecode after two good lines) on the shared reader: the next read must not
    be affected by what the failed one left behind"""
    from pycaption.exceptions import CaptionReadError
    bad = C.scc_document([(C.timecode(40), [C.ctrl("RU2"), C.ctrl("CR"), C.pac(15)] + C.text_words("THIS FILE IS DAMAGED")),
                          (C.timecode(140), [C.ctrl("RU2"), C.ctrl("CR"), C.pac(15)] + C.text_words("SECOND ROW")),
                          ("00:00:0x;00", [C.ctrl("CR")])])
    try:
        _SHARED_READER.read(bad)
    except Exception:
        pass


# one reader object for every stream of the run: what a read returns must depend on the stream only,
# also right after a read that raised (reader reuse)
_SHARED_READER = SCCReader()
