"""Caption.get_text_nodes / is_empty (C15, C17: the rows a caption shows are what its nodes say): P[n] over node lists of
length 0-3 x the three node kinds, with every text content an ARBITRARY string (abstract: known by identity only).

  * joined, the entries of get_text_nodes say, in order: a text node's own content (that very string, untouched), a line
    break's "\\n", nothing for a style node - whatever the node's other fields hold;
  * is_empty is true exactly for a caption without nodes; neither call changes the caption."""
from pycaption.base import Caption, CaptionNode


def text_nodes(c):
    n = c.pick("nodes", [0, 1, 2, 3])
    kinds = [c.pick(f"kind{k}", ["text", "break", "style"]) for k in range(n)]
    contents = [c.text(f"T{k}") for k in range(n)]
    nodes = []
    for k, kind in enumerate(kinds):
        if kind == "text":
            nodes.append(c.new(CaptionNode, type_=CaptionNode.TEXT, content=contents[k], start=None, layout_info=None, position=None))
        elif kind == "break":
            nodes.append(c.new(CaptionNode, type_=CaptionNode.BREAK, content=None, start=None, layout_info=None, position=None))
        else:
            # (a style node's content is a dict; one that were a string must still print nothing)
            nodes.append(c.new(CaptionNode, type_=CaptionNode.STYLE, content=contents[k], start=bool(k % 2), layout_info=None, position=None))
    cap = c.new(Caption, start=0, end=10 ** 6, nodes=list(nodes), style={}, layout_info=None)
    r = c.call(Caption.get_text_nodes, cap, compare=False)
    # (stated over what the entries say when joined - the text the callers measure and print - not over the number of
    # entries: an implementation that leaves out the empty entries of style nodes says the same)
    said = [x for x in r if not (isinstance(x, str) and x == "")]
    want = [contents[k] if kind == "text" else "\n" for k, kind in enumerate(kinds) if kind != "style"]
    # (line breaks at the very beginning and end are outside what C15 measures - get_text() strips them)
    def core(seq):
        seq = list(seq)
        while seq and isinstance(seq[0], str) and seq[0] == "\n":
            seq.pop(0)
        while seq and isinstance(seq[-1], str) and seq[-1] == "\n":
            seq.pop()
        return seq
    said, want = core(said), core(want)
    c.ensure("entries_say_the_text_and_breaks_of_the_nodes_in_order_and_nothing_else",
             len(said) == len(want) and all((a is b) if not isinstance(b, str) else (isinstance(a, str) and a == b) for a, b in zip(said, want)))
    e = c.call(Caption.is_empty, cap, compare=False)
    c.ensure("empty_iff_no_nodes", c.truth(e) == (n == 0))
    c.ensure("caption_unchanged", len(cap.nodes) == n and all(a is b for a, b in zip(cap.nodes, nodes)))


def prove_text_nodes(ctx):
    ctx.prove("base.Caption.get_text_nodes+is_empty", text_nodes, functions=[Caption.get_text_nodes, Caption.is_empty], crosscheck=False)
