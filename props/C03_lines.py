"""No blank line can appear inside a WebVTT cue: WebVTTWriter._group_cues_by_layout proved, for EVERY
node list, with a loop invariant.  (A blank line ends a WebVTT cue, so text after it would be lost
or taken for a new cue: the 'never end the cue' clause of C03.)

The cue text being built is abstracted to a `Lines` value: is it empty, does it end with a line
break, does it contain a blank line (two consecutive breaks, or a break at the very start).  Escaped
node text, tags and '&nbsp;' are non-empty pieces without a line break (precondition of the domain:
a text node holds one line - no newline character; A: the escaping functions add none)."""
import z3

from pycaption.base import CaptionNode
from pycaption.webvtt import WebVTTWriter
from pyvc import heap, sym
from pyvc.heap import SymList, SymRef, declare, loop_rule, SEQ, INT, heap_array
from pyvc.interp import SymObject
from pyvc.sym import cur, Inapplicable

EMPTY, ATSTART, INLINE = 0, 1, 2


class Lines(SymObject):
    def __init__(self, state, blank):
        self.state, self.blank = state, blank

    @staticmethod
    def of(x):
        if isinstance(x, Lines):
            return x
        if isinstance(x, str):
            if x == "":
                return Lines(z3.IntVal(EMPTY), z3.BoolVal(False))
            blank = x.startswith("\n") or "\n\n" in x
            return Lines(z3.IntVal(ATSTART if x.endswith("\n") else INLINE), z3.BoolVal(blank))
        raise Inapplicable(f"cue text of {type(x).__name__}")

    def __add__(self, o):
        if isinstance(o, Piece):
            return Lines(z3.IntVal(INLINE), self.blank)
        if isinstance(o, str):
            cur_ = self
            for ch in o:
                if ch == "\n":
                    cur_ = Lines(z3.IntVal(ATSTART), z3.Or(cur_.blank, cur_.state != INLINE))
                else:
                    cur_ = Lines(z3.IntVal(INLINE), cur_.blank)
            return cur_
        if isinstance(o, Lines):
            raise Inapplicable("concatenation of two cue texts")
        return NotImplemented

    def __radd__(self, o):
        if o == "":
            return self
        raise Inapplicable("text before an abstract cue text")

    def __bool__(self):
        return cur().branch(self.state != EMPTY)


class Piece(SymObject):
    """a non-empty piece of text without a line break"""

    def __radd__(self, o):
        return Lines.of(o) + self

    def __bool__(self):
        return True


class OptLayout(heap.SymId):
    """a layout_info value: None or some Layout, compared by equality of identities"""

    def __bool__(self):
        return cur().branch(self.t != heap.NONE_REF)

    def __ne__(self, o):
        if isinstance(o, OptLayout):
            return sym.mkbool(self.t != o.t)
        if o is None:
            return sym.mkbool(self.t != heap.NONE_REF)
        return True

    def __eq__(self, o):
        r = self.__ne__(o)
        return sym.snot(r) if isinstance(r, sym.SBool) else (not r)

    def __hash__(self):
        return id(self)


class Groups(SymObject):
    """the list of (cue text, layout) groups, abstracted to: was every group appended so far a
    non-empty text without a blank line"""

    def __init__(self, ok):
        self.ok = ok

    def append(self, item):
        s = Lines.of(item[0])
        self.ok = z3.And(self.ok, z3.Not(s.blank), s.state != EMPTY)

    def sym_getattr(self, interp, name):
        if name == "append":
            return self.append
        raise Inapplicable(f"list.{name} on the abstract group list")


def cue_lines(c):
    """_group_cues_by_layout for any node list whose text nodes hold one line each: every cue text
    returned is non-empty and contains no blank line"""
    heap.install(c.interp)
    saved, saved_kinds = dict(heap.SCHEMAS), dict(heap.CUSTOM_KINDS)
    p = cur()
    try:
        heap.CUSTOM_KINDS["optlayout"] = OptLayout
        declare(CaptionNode, type_="int", start="bool", content="id", layout_info="optlayout")
        nodes = SymList(z3.Const("nodes", SEQ), CaptionNode)
        TY = heap_array(p, CaptionNode, "type_")
        q = "pycaption.webvtt:WebVTTWriter._group_cues_by_layout"
        old_truth = c.interp.truth
        c.interp.truth = lambda v: bool(v) if isinstance(v, (Lines, Piece, OptLayout)) else old_truth(v)

        def inv(S):
            s = Lines.of(S.local("s"))
            g = S.local("layout_groups")
            g_ok = g.ok if isinstance(g, Groups) else z3.BoolVal(True)
            prev_is_text = z3.And(S.i > 0, TY[nodes.t[S.i - 1]] == CaptionNode.TEXT)
            return [("no_blank_line_so_far", z3.And(z3.Not(s.blank), g_ok)),
                    ("text_node_leaves_the_line_non_empty", z3.Implies(prev_is_text, s.state == INLINE)),
                    ("state_in_range", z3.And(s.state >= 0, s.state <= 2))]

        def havoc_s(p_, v):
            return Lines(p_.fresh_int("state"), p_.fresh_bool("blank"))
        c.interp.loop_hooks[(q, 1)] = loop_rule(
            "nodes", inv, locals_={"s": ("custom", havoc_s), "layout_groups": ("custom", lambda p_, v: Groups(p_.fresh_bool("groups_ok"))),
                                   "current_layout": ("custom", lambda p_, v: OptLayout(p_.fresh_int("layout"))),
                                   "resulting_style": ("skip", None), "styles": ("skip", None), "style": ("skip", None),
                                   "tags": ("skip", None), "i": ("skip", None), "node": ("skip", None)})

        def h_style(interp, fn, args, kw):
            k = cur().choose(4, "style")
            return [{}, {"italics": True}, {"bold": True, "underline": False}, {"italics": True, "underline": True, "bold": True}][k]
        c.interp.contracts.update({
            "pycaption.webvtt:WebVTTWriter._calculate_resulting_style": h_style,
            "pycaption.webvtt:WebVTTWriter._encode_illegal_characters":
                lambda interp, fn, a, kw: (Piece() if cur().choose(2, "text") == 0 else ""),     # '' -> the code's `or "&nbsp;"`
        })
        w = c.new(WebVTTWriter)
        r = c.call(WebVTTWriter._group_cues_by_layout, w, nodes, None, compare=False)
        if isinstance(r, Groups):
            c.ensure("every_cue_text_is_non_empty_and_has_no_blank_line", r.ok)
        else:
            c.ensure("every_cue_text_is_non_empty_and_has_no_blank_line",
                     all(not z3.is_true(z3.simplify(Lines.of(t).blank)) for t, _ in r))
    finally:
        heap.SCHEMAS.clear()
        heap.SCHEMAS.update(saved)
        heap.CUSTOM_KINDS.clear()
        heap.CUSTOM_KINDS.update(saved_kinds)


def prove_cue_lines(ctx):
    ctx.prove("webvtt.WebVTTWriter._group_cues_by_layout/no_blank_line", cue_lines,
              functions=[WebVTTWriter._group_cues_by_layout], crosscheck=False)
    ctx.assume("WebVTT cue lines: a text node holds one line (no newline character), as in the statement's domain; the "
               "escaped text, tags and '&nbsp;' are non-empty pieces without a line break")
