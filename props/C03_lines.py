"""WebVTTWriter._group_cues_by_layout proved for EVERY node list with a loop invariant (shared by C03
and C11):

  lines (C03)  every cue text returned is non-empty and contains no blank line - a blank line ends a
               WebVTT cue, so text after it would be lost or taken for a new cue;
  tags  (C11)  for flat, balanced style spans whose nodes lie within one layout, the <i> / <u> / <b>
               tags of every cue text are balanced and properly nested (a cue split at a layout change
               takes the freshly opened tags along).

The cue text being built is abstracted to a `Cue` value: is it empty / does it end with a line
break / does it contain a blank line; the stack of open tags; how many opening tags stand at its very
end.  Escaped node text and '&nbsp;' are non-empty pieces without a line break (domain: a text node
holds one line; A: the escaping function adds no newline and no tag).  `pending_tags` is abstracted
to the sequence of tags it holds; `s[:len(s) - len(pending_tags)]` is given meaning by the proof
obligation that pending_tags IS the text of the trailing opening tags of s."""
import z3

from pycaption.base import CaptionNode
from pycaption.webvtt import WebVTTWriter
from pyvc import heap, sym
from pyvc.heap import SymList, declare, loop_rule, SEQ, INT, heap_array
from pyvc.interp import SymObject
from pyvc.sym import cur, Inapplicable

EMPTY, ATSTART, INLINE = 0, 1, 2
E0 = z3.Empty(SEQ)
OPEN = {"<i>": 1, "<u>": 2, "<b>": 3}
CLOSE = {"</i>": 1, "</u>": 2, "</b>": 3}


def tags_of(mask):
    """the tags opened for a style mask (bit 0 italics, bit 1 underline, bit 2 bold), in the order the
    writer opens them"""
    one = lambda cond, code: z3.If(cond, z3.Unit(z3.IntVal(code)), E0)
    return z3.Concat(one(mask % 2 == 1, 1), one((mask / 2) % 2 == 1, 2), one(mask / 4 == 1, 3))


def now():
    """index of the node being processed (the number of nodes once the loop is over, 0 before it)"""
    return cur().ghost.get("loop_index", {}).get("nodes", z3.IntVal(0))


class Cue(SymObject):
    """`first`: index of the first node whose text is part of this cue text (ghost, for the layout clause)"""

    def __init__(self, state, blank, stack, bad, ntrail, base, first=None, nlt=None):
        self.state, self.blank, self.stack, self.bad, self.ntrail, self.base = state, blank, stack, bad, ntrail, base
        self.first = now() if first is None else first
        # `nlt`: line ends written after the trailing opening tags (a break right after opening tags stays with them:
        # tags and line ends since the last text form the segment that `pending_tags` mirrors)
        self.nlt = z3.IntVal(0) if nlt is None else nlt

    @staticmethod
    def of(x):
        if isinstance(x, Cue):
            return x
        if isinstance(x, Pending):
            n = z3.Length(x.tags)
            # (a cue text that starts with the pending segment: its tags, and - if a break came after them - "&nbsp;" lines)
            return Cue(z3.If(x.nlines > 0, ATSTART, z3.If(n > 0, INLINE, EMPTY)), z3.BoolVal(False), x.tags, z3.BoolVal(False), n,
                       z3.IntVal(EMPTY), now(), x.nlines)
        if isinstance(x, str):
            c = Cue(z3.IntVal(EMPTY), z3.BoolVal(False), E0, z3.BoolVal(False), z3.IntVal(0), z3.IntVal(EMPTY), now())
            return c if x == "" else c + x
        raise Inapplicable(f"cue text of {type(x).__name__}")

    def _text(self):
        return Cue(z3.IntVal(INLINE), self.blank, self.stack, self.bad, z3.IntVal(0), z3.IntVal(INLINE), self.first)

    def __add__(self, o):
        if isinstance(o, Piece):
            return self._text()
        if isinstance(o, str):
            if o in OPEN:
                base = z3.If(z3.And(self.ntrail == 0, self.nlt == 0), self.state, self.base)
                return Cue(z3.IntVal(INLINE), self.blank, z3.Concat(self.stack, z3.Unit(z3.IntVal(OPEN[o]))), self.bad,
                           self.ntrail + 1, base, self.first, self.nlt)
            if o in CLOSE:
                n = z3.Length(self.stack)
                match = z3.And(n > 0, self.stack[n - 1] == CLOSE[o])
                return Cue(z3.IntVal(INLINE), self.blank, z3.If(match, z3.SubSeq(self.stack, 0, n - 1), self.stack),
                           z3.Or(self.bad, z3.Not(match)), z3.IntVal(0), z3.IntVal(INLINE), self.first)
            if "<" in o:
                raise Inapplicable(f"unknown markup {o!r} appended to a cue text")
            c = self
            for ch in o:
                if ch == "\n":
                    c = Cue(z3.IntVal(ATSTART), z3.Or(c.blank, c.state != INLINE), c.stack, c.bad, z3.IntVal(0), z3.IntVal(ATSTART), c.first)
                else:
                    c = c._text()
            if o.endswith("\n") and o.count("\n") == 1:
                # a line end ("\n", "&nbsp;\n"): written right after opening tags it extends the pending segment
                inseg = z3.Or(self.ntrail > 0, self.nlt > 0)
                return Cue(c.state, c.blank, c.stack, c.bad, z3.If(inseg, self.ntrail, 0), z3.If(inseg, self.base, c.base), c.first,
                           z3.If(inseg, self.nlt + 1, 0))
            return c
        if isinstance(o, (Cue, Pending)):
            raise Inapplicable("concatenation of two cue texts")
        return NotImplemented

    def __radd__(self, o):
        if o == "":
            return self
        raise Inapplicable("text before an abstract cue text")

    def __bool__(self):
        return cur().branch(self.state != EMPTY)

    def length(self):
        return AbsLen(self)

    def sym_getitem(self, interp, k):
        """s[:len(s) - len(pending_tags)]: s without its trailing opening tags - PROVIDED pending_tags
        is exactly their text, which is registered as a proof obligation"""
        p = cur()
        if isinstance(k, slice) and k.start is None and k.step is None and isinstance(k.stop, NegLen) and isinstance(k.stop.owner, Pending):
            if p.branch(z3.And(z3.Length(k.stop.owner.tags) == 0, k.stop.owner.nlines == 0)):
                return Cue.of("")                      # s[:-0] == ''
            k = slice(None, CutPoint(self, k.stop.owner))
        if not (isinstance(k, slice) and k.start is None and k.step is None and isinstance(k.stop, CutPoint)
                and k.stop.whole is self):
            raise Inapplicable("cue text sliced other than s[:len(s) - len(pending_tags)]")
        pend = k.stop.pending
        n = z3.Length(self.stack)
        cond = z3.And(z3.Length(pend.tags) == self.ntrail, self.ntrail >= 0, self.ntrail <= n, pend.nlines == self.nlt,
                      pend.tags == z3.SubSeq(self.stack, n - self.ntrail, self.ntrail))
        p.require_then_assume("pending_tags_are_the_trailing_opening_tags", cond, kind="side")
        return Cue(self.base, self.blank, z3.SubSeq(self.stack, 0, n - self.ntrail), self.bad, z3.IntVal(0), self.base, self.first)


class AbsLen:
    def __init__(self, owner):
        self.owner = owner

    def __neg__(self):
        return NegLen(self.owner)

    def __sub__(self, o):
        if isinstance(o, AbsLen) and isinstance(o.owner, Pending) and isinstance(self.owner, Cue):
            return CutPoint(self.owner, o.owner)
        if isinstance(o, int) and o == 0:
            return self
        raise Inapplicable("arithmetic on the length of an abstract text")


class NegLen:
    """-len(pending_tags): as a slice bound it cuts that many characters off the end - and EVERYTHING when
    the length is zero (s[:-0] is s[:0])"""

    def __init__(self, owner):
        self.owner = owner


class CutPoint:
    def __init__(self, whole, pending):
        self.whole, self.pending = whole, pending


class Pending(SymObject):
    """pending_tags: the opening tags written since the last text or line break"""

    def __init__(self, tags, nlines=None):
        self.tags = tags
        self.nlines = z3.IntVal(0) if nlines is None else nlines          # line ends written after the tags (see Cue.nlt)

    @staticmethod
    def of(x):
        if isinstance(x, Pending):
            return x
        if x == "":
            return Pending(E0)
        raise Inapplicable(f"pending tags of {x!r}")

    def __add__(self, o):
        if isinstance(o, str) and o in OPEN:
            return Pending(z3.Concat(self.tags, z3.Unit(z3.IntVal(OPEN[o]))), self.nlines)
        if isinstance(o, str) and o == "":
            return self
        if isinstance(o, str) and o.endswith("\n") and o.count("\n") == 1 and "<" not in o:
            return Pending(self.tags, self.nlines + 1)            # a line end joins the segment
        if isinstance(o, Piece):
            return Cue.of(self) + o
        if isinstance(o, str):
            return Cue.of(self) + o
        return NotImplemented

    def __radd__(self, o):
        if o == "":
            return self
        raise Inapplicable("text before pending tags")

    def length(self):
        return AbsLen(self)

    def __bool__(self):
        return cur().branch(z3.Or(z3.Length(self.tags) > 0, self.nlines > 0))


class Piece(SymObject):
    """a non-empty piece of text without a line break or tag"""

    def __radd__(self, o):
        if isinstance(o, str) and o == "":
            return Cue.of("") + self
        return Cue.of(o) + self

    def __bool__(self):
        return True


class OptLayout(heap.SymId):
    """a layout_info value: None or some Layout, compared by equality of identities"""

    def __bool__(self):
        return cur().branch(self.t != heap.NONE_REF)

    def __ne__(self, o):
        if isinstance(o, OptLayout):
            return sym.mkbool(self.t != o.t)
        if o is None:
            return sym.mkbool(self.t != heap.NONE_REF)
        return True

    def __eq__(self, o):
        r = self.__ne__(o)
        return sym.snot(r) if isinstance(r, sym.SBool) else (not r)

    def __hash__(self):
        return id(self)


class Groups(SymObject):
    """the list of (cue text, layout) groups, abstracted to: every group appended so far was a
    non-empty text without a blank line (lines_ok) and with balanced, properly nested tags (tags_ok)"""

    is_text_k = None       # set by the contract: (lo, hi) -> "node K is a text node with lo <= K < hi", and K's layout

    def __init__(self, lines_ok, tags_ok, count=None, k_in=None, k_ok=None):
        self.lines_ok, self.tags_ok = lines_ok, tags_ok
        self.count = z3.IntVal(0) if count is None else count
        # layout clause, for one arbitrary node index K: K's text is in a group appended so far / every appended
        # group that holds K's text carries K's own layout
        self.k_in = z3.BoolVal(False) if k_in is None else k_in
        self.k_ok = z3.BoolVal(True) if k_ok is None else k_ok

    def append(self, item):
        s = Cue.of(item[0])
        self.count = self.count + 1
        if Groups.is_text_k is not None:
            lay = item[1]
            lay_t = lay.t if isinstance(lay, OptLayout) else z3.IntVal(heap.NONE_REF)
            holds_k, lay_k = Groups.is_text_k(s.first, now())
            self.k_in = z3.Or(self.k_in, holds_k)
            self.k_ok = z3.And(self.k_ok, z3.Implies(holds_k, lay_k == lay_t))
        self.lines_ok = z3.And(self.lines_ok, z3.Not(s.blank), s.state != EMPTY)
        self.tags_ok = z3.And(self.tags_ok, z3.Not(s.bad), s.stack == E0)

    def sym_getattr(self, interp, name):
        if name == "append":
            return self.append
        raise Inapplicable(f"list.{name} on the abstract group list")


def cue_groups(c):
    """see the module docstring"""
    heap.install(c.interp)
    saved, saved_kinds = dict(heap.SCHEMAS), dict(heap.CUSTOM_KINDS)
    p = cur()
    try:
        heap.CUSTOM_KINDS["optlayout"] = OptLayout
        declare(CaptionNode, type_="int", start="bool", content="id", layout_info="optlayout")
        nodes = SymList(z3.Const("nodes", SEQ), CaptionNode)
        n = z3.Length(nodes.t)
        TY, ST = heap_array(p, CaptionNode, "type_"), heap_array(p, CaptionNode, "start")
        CONT, LAY = heap_array(p, CaptionNode, "content"), heap_array(p, CaptionNode, "layout_info")
        TEXT, STYLE = CaptionNode.TEXT, CaptionNode.STYLE
        q = "pycaption.webvtt:WebVTTWriter._group_cues_by_layout"
        old_truth = c.interp.truth
        c.interp.truth = lambda v: bool(v) if isinstance(v, (Cue, Piece, OptLayout, Pending)) else old_truth(v)
        old_len = c.interp.overrides[len]
        c.interp.overrides[len] = lambda x: x.length() if isinstance(x, (Cue, Pending)) else old_len(x)
        MASKOF = z3.Function("style_mask", INT, INT)          # the i/u/b flags a style node's content resolves to
        FLAT, M, CUR = z3.Function("FLAT", INT, INT), z3.Function("OPENMASK", INT, INT), z3.Function("CURLAYOUT", INT, INT)
        HASTEXT = z3.Function("HASTEXT", INT, z3.BoolSort())         # a text node among the first k nodes
        AFTERSTART = z3.Function("AFTERSTART", INT, z3.BoolSort())   # node k comes right after a span start, or after line breaks that follow one
        p.assume(z3.And(FLAT(0) == 0, CUR(0) == heap.NONE_REF, z3.Not(HASTEXT(0)), z3.Not(AFTERSTART(0))))
        node = lambda k: nodes.t[k]
        K = z3.Int("any_text_node")
        text_k = z3.And(0 <= K, K < n, TY[nodes.t[K]] == CaptionNode.TEXT)
        Groups.is_text_k = staticmethod(lambda lo, hi: (z3.And(text_k, lo <= K, K < hi), LAY[nodes.t[K]]))
        is_start = lambda k: z3.And(TY[node(k)] == STYLE, ST[node(k)])
        is_end = lambda k: z3.And(TY[node(k)] == STYLE, z3.Not(ST[node(k)]))

        def defs(k):
            x = node(k)
            return z3.And(FLAT(k + 1) == z3.If(is_start(k), 1, z3.If(is_end(k), 0, FLAT(k))),
                          M(k + 1) == z3.If(is_start(k), MASKOF(CONT[x]), M(k)),
                          CUR(k + 1) == z3.If(TY[x] == TEXT, LAY[x], CUR(k)),
                          HASTEXT(k + 1) == z3.Or(HASTEXT(k), TY[x] == TEXT),
                          AFTERSTART(k + 1) == z3.Or(is_start(k), z3.And(TY[x] == CaptionNode.BREAK, AFTERSTART(k))),
                          MASKOF(CONT[x]) >= 0, MASKOF(CONT[x]) <= 7)

        def dom(k):
            """the statement's domain at node k: flat balanced spans, each within nodes of one layout"""
            x = node(k)
            return z3.Implies(z3.And(k >= 0, k < n), z3.And(
                z3.Implies(is_start(k), FLAT(k) == 0),
                z3.Implies(is_end(k), z3.And(FLAT(k) == 1, MASKOF(CONT[x]) == M(k))),
                z3.Implies(z3.And(TY[x] == TEXT, FLAT(k) == 1),
                           z3.Or(LAY[x] == CUR(k), AFTERSTART(k)))))

        def inv(S):
            i = S.i
            S.p.assume(defs(i))
            S.p.assume(z3.Implies(i > 0, defs(i - 1)))
            S.p.assume(dom(i))
            s = Cue.of(S.local("s"))
            pend = Pending.of(S.local("pending_tags"))
            g = S.local("layout_groups")
            g_lines, g_tags = (g.lines_ok, g.tags_ok) if isinstance(g, Groups) else (z3.BoolVal(True), z3.BoolVal(True))
            g_count = g.count if isinstance(g, Groups) else z3.IntVal(0)
            g_in, g_ok = (g.k_in, g.k_ok) if isinstance(g, Groups) else (z3.BoolVal(False), z3.BoolVal(True))
            cl = S.local("current_layout")
            cl_t = cl.t if isinstance(cl, OptLayout) else z3.IntVal(heap.NONE_REF)
            prev_is_text = z3.And(i > 0, TY[node(i - 1)] == TEXT)
            ns = z3.Length(s.stack)
            return [("a_text_node_yields_a_cue", z3.And(g_count >= 0, z3.Implies(HASTEXT(i), z3.Or(s.state != EMPTY, g_count >= 1)))),
                    ("no_blank_line_so_far", z3.And(z3.Not(s.blank), g_lines)),
                    ("text_node_leaves_the_line_non_empty", z3.Implies(prev_is_text, s.state == INLINE)),
                    ("states_in_range", z3.And(s.state >= 0, s.state <= 2, s.base >= 0, s.base <= 2, z3.Or(FLAT(i) == 0, FLAT(i) == 1))),
                    ("pending_tags_are_the_trailing_tags", z3.And(z3.Length(pend.tags) == s.ntrail, s.ntrail >= 0, s.ntrail <= ns,
                                                                  pend.nlines == s.nlt, s.nlt >= 0, z3.Implies(s.nlt > 0, s.ntrail > 0),
                                                                  pend.tags == z3.SubSeq(s.stack, ns - s.ntrail, s.ntrail))),
                    ("current_layout_is_that_of_the_last_text", cl_t == CUR(i)),
                    ("has_text_is_a_text_node_so_far", (sym.zbool(S.local("has_text")) == HASTEXT(i)) if S.local("has_text") is not None else z3.BoolVal(True)),
                    ("text_before_the_trailing_tags_once_a_text_was_written", z3.Implies(HASTEXT(i), z3.And(s.base != EMPTY, s.state != EMPTY))),
                    ("open_tags_are_those_of_the_open_span", z3.And(z3.Not(s.bad), g_tags,
                                                                    s.stack == z3.If(FLAT(i) == 1, tags_of(M(i)), E0))),
                    ("right_after_a_span_start_all_its_tags_are_trailing", z3.Implies(AFTERSTART(i), s.ntrail == ns)),
                    ("base_is_the_state_without_trailing_tags", z3.Implies(z3.And(s.ntrail == 0, s.nlt == 0), s.base == s.state)),
                    # layout clause (C12), for an arbitrary text node K
                    ("open_cue_starts_at_a_node_seen", z3.And(s.first >= 0, s.first <= i)),
                    ("a_text_node_seen_sets_has_text", z3.Implies(z3.And(text_k, K < i), HASTEXT(i))),
                    ("texts_of_the_open_cue_have_the_current_layout", z3.Implies(z3.And(text_k, s.first <= K, K < i), LAY[node(K)] == cl_t)),
                    ("a_text_seen_is_in_the_open_cue_or_in_a_group", z3.Implies(z3.And(text_k, K < i), z3.Or(s.first <= K, g_in))),
                    ("groups_holding_the_text_carry_its_layout", g_ok)]

        def fresh_cue(p_, v):
            return Cue(p_.fresh_int("state"), p_.fresh_bool("blank"), z3.Const(p_._name("stack"), SEQ), p_.fresh_bool("bad"),
                       p_.fresh_int("ntrail"), p_.fresh_int("base"), p_.fresh_int("first"), p_.fresh_int("nlt"))
        c.interp.loop_hooks[(q, 1)] = loop_rule(
            "nodes", inv, locals_={"s": ("custom", fresh_cue),
                                   "pending_tags": ("custom", lambda p_, v: Pending(z3.Const(p_._name("pending"), SEQ), p_.fresh_int("pending_lines"))),
                                   "layout_groups": ("custom", lambda p_, v: Groups(p_.fresh_bool("lines_ok"), p_.fresh_bool("tags_ok"), p_.fresh_int("groups"),
                                                                                        p_.fresh_bool("k_in"), p_.fresh_bool("k_ok"))),
                                   "current_layout": ("custom", lambda p_, v: OptLayout(p_.fresh_int("layout"))),
                                   "has_text": ("bool", None),
                                   "resulting_style": ("skip", None), "styles": ("skip", None), "style": ("skip", None),
                                   "tags": ("skip", None), "i": ("skip", None), "node": ("skip", None), "line_end": ("skip", None)})

        def h_style(interp, fn, args, kw):
            content = args[1]
            m = MASKOF(content.t)
            k = cur().choose(8, "mask")
            cur().assume_or_end(m == k)
            return {"italics": bool(k & 1), "underline": bool(k & 2), "bold": bool(k & 4), "color": "red"}
        c.interp.contracts.update({
            "pycaption.webvtt:WebVTTWriter._calculate_resulting_style": h_style,
            "pycaption.webvtt:WebVTTWriter._encode_illegal_characters":
                lambda interp, fn, a, kw: (Piece() if cur().choose(2, "text") == 0 else ""),     # '' -> the code's `or "&nbsp;"`
        })
        w = c.new(WebVTTWriter)
        r = c.call(WebVTTWriter._group_cues_by_layout, w, nodes, None, compare=False)
        if isinstance(r, Groups):
            c.ensure("every_cue_text_is_non_empty_and_has_no_blank_line", r.lines_ok)
            c.ensure("every_cue_text_has_balanced_properly_nested_tags", z3.Implies(FLAT(n) == 0, r.tags_ok))
            p.assume(z3.Implies(n == 0, z3.Not(HASTEXT(n))))
            c.ensure("a_caption_with_a_text_node_yields_at_least_one_cue", z3.Implies(HASTEXT(n), r.count >= 1))
            # C12: nodes of one caption with different layouts become separate cues - every text node's text is in a
            # cue group, and every group that holds it carries the node's own layout_info (None: the caption's)
            c.ensure("every_text_node_is_in_a_cue_group", z3.Implies(text_k, r.k_in))
            c.ensure("a_cue_group_carries_the_layout_of_each_of_its_text_nodes", z3.Implies(text_k, r.k_ok))
        else:
            c.ensure("every_cue_text_is_non_empty_and_has_no_blank_line", len(r) == 0)
            c.ensure("every_cue_text_has_balanced_properly_nested_tags", len(r) == 0)
    finally:
        Groups.is_text_k = None
        heap.SCHEMAS.clear()
        heap.SCHEMAS.update(saved)
        heap.CUSTOM_KINDS.clear()
        heap.CUSTOM_KINDS.update(saved_kinds)


def prove_cue_lines(ctx):
    ctx.prove("webvtt.WebVTTWriter._group_cues_by_layout/cue_texts", cue_groups,
              functions=[WebVTTWriter._group_cues_by_layout, WebVTTWriter._convert_style_to_text_tag], crosscheck=False)
    ctx.assume("WebVTT cue texts: a text node holds one line (no newline character), as in the statement's domain; the "
               "escaped text and '&nbsp;' are non-empty pieces without a line break or tag; style spans are flat and "
               "balanced (end node resolves to the same i/u/b flags as its start node) and lie within nodes of one layout "
               "(a layout change inside a span is only allowed at its first node)")
