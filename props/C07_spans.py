"""Span-markup balance of the hand-written <span> / </span> text of the DFXP writers (shared by C03,
C07, C11); proved with a loop invariant for EVERY node sequence.

The text being built is abstracted to what matters here: a `Markup` value counts the '<span' and
'</span>' it contains (assumed contract A: escaped text and escaped attribute values contain no '<',
validated exhaustively by C03's escape_contracts).  Nodes are symbolic heap objects."""
import z3

from pycaption.base import CaptionNode, Caption
from pycaption.dfxp.base import DFXPWriter, RegionCreator
from pycaption.dfxp.extras import LegacyDFXPWriter
from pycaption.sami import SAMIWriter
from pyvc import heap
from pyvc.heap import SymList, SymRef, declare, loop_rule, SEQ, INT, heap_array
from pyvc.interp import SymObject
from pyvc.sym import cur, mkint, zint, Inapplicable



class StyleContent(heap.SymId):
    """the content dict of a style node, opaque: membership of a key is a free choice, values are
    tag-free text (A: class names and style values contain no markup)"""

    def contains(self, key):
        return bool(cur().choose(2, f"has_{key}"))

    def sym_getitem(self, interp, k):
        return Markup(0, 0, True)

    def __hash__(self):
        return id(self)


heap.CUSTOM_KINDS["style"] = StyleContent
declare(CaptionNode, type_="int", start="bool", content="style", layout_info="bool")
declare(RegionCreator)
declare(DFXPWriter, open_span="bool", write_inline_positioning="bool", region_creator="ref:RegionCreator")
declare(LegacyDFXPWriter, open_span="bool")
declare(SAMIWriter, open_span="bool")
TEXT, STYLE, BREAK = CaptionNode.TEXT, CaptionNode.STYLE, CaptionNode.BREAK


class Markup(SymObject):
    """a piece of output text known by the number of '<span' and '</span>' it contains"""

    def __init__(self, opens=0, closes=0, nonempty=True):
        self.opens, self.closes, self.nonempty = opens, closes, nonempty

    @staticmethod
    def of(x):
        if isinstance(x, Markup):
            return x
        if isinstance(x, str):
            return Markup(x.count("<span"), x.count("</span>"), bool(x))
        raise Inapplicable(f"markup of {type(x).__name__}")

    def __add__(self, o):
        o = Markup.of(o)
        return Markup(self.opens + o.opens, self.closes + o.closes, self.nonempty or o.nonempty)

    def __radd__(self, o):
        return Markup.of(o) + self

    def rstrip(self, *a):
        return self

    def sym_getattr(self, interp, name):
        if name == "rstrip":
            return self.rstrip
        raise Inapplicable(f"str.{name} on abstract markup")

    def sym_format(self, spec):
        return self

    def __bool__(self):
        if isinstance(self.nonempty, bool):
            return self.nonempty
        return cur().branch(self.nonempty)

    def depth(self):
        return zint(self.opens) - zint(self.closes)


def text_piece(interp, fn, args, kw):
    return Markup(0, 0, True)              # escaped text / attribute value: no tags inside (A)


def style_dict(interp, fn, args, kw):
    """_recreate_style under contract: some attribute dict (empty or not) with tag-free keys"""
    k = cur().choose(3, "style")
    return {} if k == 0 else ({"tts:fontStyle": "italic"} if k == 1 else {"style": "c1", "tts:color": "red"})


def positioning(interp, fn, args, kw):
    return "r1", {"tts:origin": "10% 10%"}


def setup(interp):
    heap.install(interp)
    import builtins
    old_truth = interp.truth
    interp.truth = lambda v: bool(v) if isinstance(v, Markup) else old_truth(v)


def span_balance(W):
    qual = f"{W.__module__}:{W.__qualname__}"

    def contract(c):
        """_recreate_text for any node list, entered with no span open: the text contains as many
        '</span>' as '<span' - plus exactly one unclosed '<span' iff open_span is left set; and for a flat
        balanced node list (style nodes alternate start, end, ...) open_span is false afterwards"""
        p = cur()
        nodes = SymList(z3.Const("nodes", SEQ), CaptionNode)
        n = z3.Length(nodes.t)
        TY, STARTS = heap_array(p, CaptionNode, "type_"), heap_array(p, CaptionNode, "start")
        w = SymRef(W, z3.Int("writer"))
        OS0 = heap_array(p, W, "open_span")
        p.assume(z3.Not(OS0[w.ref]))
        cap = c.new(Caption, start=0, end=1, nodes=nodes, style={}, layout_info=None)
        # FLAT(k): 0 outside a style pair, 1 inside, 2 = the style nodes do not alternate start / end
        FLAT = z3.Function("FLAT", INT, INT)
        p.assume(FLAT(0) == 0)

        def fdef(k):
            x = nodes.t[k]
            st = z3.If(TY[x] != STYLE, FLAT(k),
                       z3.If(STARTS[x], z3.If(FLAT(k) == 0, 1, 2), z3.If(FLAT(k) == 1, 0, 2)))
            return FLAT(k + 1) == z3.If(FLAT(k) == 2, 2, st)

        def inv(S):
            S.p.assume(fdef(S.i))
            line = Markup.of(S.local("line"))
            os_ = z3.Select(S.field(W, "open_span"), w.ref)
            return [("unclosed_spans_equal_the_open_span_flag", line.depth() == z3.If(os_, 1, 0)),
                    ("span_open_only_inside_a_style_pair", z3.Implies(z3.And(os_, FLAT(S.i) != 2), FLAT(S.i) == 1))]

        def havoc_line(p_, name):
            o, cl = p_.fresh_int("opens"), p_.fresh_int("closes")
            p_.assume(z3.And(o >= 0, cl >= 0))
            return Markup(mkint(o), mkint(cl), True)
        c.interp.loop_hooks[(qual + "._recreate_text", 1)] = loop_rule(
            "text.loop", inv, locals_={"line": ("custom", havoc_line)}, fields=[(W, "open_span")])
        c.interp.contracts.update({
            qual + "._encode": text_piece,
            "pycaption.dfxp.base:_escape_attribute": text_piece,
            "pycaption.dfxp.base:_recreate_style": style_dict,
            qual + "._recreate_style": style_dict,
            "pycaption.dfxp.base:RegionCreator.get_positioning_info": positioning,
            "xml.sax.saxutils:escape": text_piece,
        })
        import xml.sax.saxutils as sx
        c.interp.overrides[sx.escape] = lambda *a, **k: Markup(0, 0, True)
        args = (w, cap, None, None, None) if W is DFXPWriter else (w, cap, None)
        r = c.call(W._recreate_text, *args, compare=False)
        r = Markup.of(r)
        os_end = z3.Select(heap_array(p, W, "open_span"), w.ref)
        c.ensure("as_many_closing_as_opening_span_tags_up_to_the_open_flag", r.depth() == z3.If(os_end, 1, 0))
        c.ensure("flat_balanced_style_nodes_leave_no_span_open", z3.Implies(FLAT(n) == 0, z3.Not(os_end)))
    return contract


def sami_span_balance(c):
    """SAMIWriter._recreate_text for any node list whose style nodes alternate start, end, ... (flat
    spans), entered with no span open: as many '</span>' as '<span' - plus one unclosed '<span' iff
    open_span is left set -, and when the last span was ended no span is open afterwards"""
    W = SAMIWriter
    qual = "pycaption.sami:SAMIWriter"
    p = cur()
    nodes = SymList(z3.Const("nodes", SEQ), CaptionNode)
    n = z3.Length(nodes.t)
    TY, STARTS = heap_array(p, CaptionNode, "type_"), heap_array(p, CaptionNode, "start")
    w = SymRef(W, z3.Int("writer"))
    p.assume(z3.Not(heap_array(p, W, "open_span")[w.ref]))
    FLAT = z3.Function("FLAT", INT, INT)
    p.assume(FLAT(0) == 0)

    def fdef(k):
        x = nodes.t[k]
        st = z3.If(TY[x] != STYLE, FLAT(k),
                   z3.If(STARTS[x], z3.If(FLAT(k) == 0, 1, 2), z3.If(FLAT(k) == 1, 0, 2)))
        return FLAT(k + 1) == z3.If(FLAT(k) == 2, 2, st)

    def inv(S):
        S.p.assume(fdef(S.i))
        S.p.assume(z3.Or(FLAT(S.i) == 0, FLAT(S.i) == 1, FLAT(S.i) == 2))
        line = Markup.of(S.local("line"))
        os_ = z3.Select(S.field(W, "open_span"), w.ref)
        return [("flat_spans_are_balanced", z3.Implies(FLAT(S.i) != 2, z3.And(line.depth() == z3.If(os_, 1, 0),
                                                                              z3.Implies(os_, FLAT(S.i) == 1))))]

    def havoc_line(p_, name):
        o, cl = p_.fresh_int("opens"), p_.fresh_int("closes")
        p_.assume(z3.And(o >= 0, cl >= 0))
        return Markup(mkint(o), mkint(cl), True)
    c.interp.loop_hooks[(qual + "._recreate_text", 1)] = loop_rule(
        "text.loop", inv, locals_={"line": ("custom", havoc_line)}, fields=[(W, "open_span")])
    c.interp.contracts.update({qual + "._encode": text_piece, qual + "._recreate_style": style_dict})
    r = Markup.of(c.call(W._recreate_text, w, nodes, compare=False))
    os_end = z3.Select(heap_array(p, W, "open_span"), w.ref)
    c.ensure("flat_spans_give_balanced_markup", z3.Implies(FLAT(n) != 2, r.depth() == z3.If(os_end, 1, 0)))
    c.ensure("closed_spans_leave_no_span_open", z3.Implies(FLAT(n) == 0, z3.Not(os_end)))


def prove_span_balance(ctx):
    ctx.prove("sami.SAMIWriter._recreate_text/span_balance", sami_span_balance,
              functions=[SAMIWriter._recreate_text, SAMIWriter._recreate_line_style, SAMIWriter._recreate_span],
              setup_interp=setup, crosscheck=False)
    ctx.prove("dfxp.DFXPWriter._recreate_text/span_balance", span_balance(DFXPWriter),
              functions=[DFXPWriter._recreate_text, DFXPWriter._recreate_span], setup_interp=setup, crosscheck=False)
    ctx.prove("dfxp.LegacyDFXPWriter._recreate_text/span_balance", span_balance(LegacyDFXPWriter),
              functions=[LegacyDFXPWriter._recreate_text, LegacyDFXPWriter._recreate_span], setup_interp=setup, crosscheck=False)
