"""Span-markup balance of the hand-written <span> / </span> text of the DFXP and SAMI writers
(shared by C03, C07, C11); proved with a loop invariant for every node sequence."""


def prove_span_balance(ctx):
    pass
