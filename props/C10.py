"""C10 - reading is a deterministic, isolated function of document and options."""
import copy
import hashlib
import importlib
import json
import os
import subprocess
import sys

import pycaption
from pycaption import (DFXPReader, MicroDVDReader, SAMIReader, SCCReader, SRTReader, WebVTTReader, SRTWriter,
                       DFXPWriter, CaptionNode)
from pycaption.sami import SAMIParser
from pycaption.dfxp.base import LayoutAwareDFXPParser, LayoutInfoScraper
from pyvc import frames
from props import samples

READERS = {"srt": SRTReader, "webvtt": WebVTTReader, "microdvd": MicroDVDReader, "dfxp": DFXPReader,
           "sami": SAMIReader, "scc": SCCReader}
MODULES = ["pycaption.base", "pycaption.srt", "pycaption.webvtt", "pycaption.microdvd", "pycaption.sami",
           "pycaption.dfxp.base", "pycaption.scc", "pycaption.scc.specialized_collections",
           "pycaption.scc.state_machines", "pycaption.geometry", "pycaption.scc.constants", "pycaption.utils", "pycaption.exceptions"]


def frame_obligations(g):
    for R in READERS.values():
        frames.object_invariant(R, "read", g)
    # module-wide obligations restricted to what the readers' entry points can reach (by name,
    # over-approximated): code only writers use is C09's business
    trees = {m: frames.module_ast_of(importlib.import_module(m)) for m in MODULES + ["pycaption"]}
    entries = [(R.__name__, f) for R in READERS.values() for f in ("read", "detect", "__init__")] + [(None, "detect_format")]
    scoped, dropped = frames.reachable_trees(trees, entries)
    g.check("scope: some code is reachable from the readers", sum(len(t.body) for t in scoped.values()) > 0, None)
    for m in MODULES:
        frames.no_mutable_defaults(scoped[m], g, m)
        frames.no_global_mutation(scoped[m], g, m)
        frames.no_hash_order(scoped[m], g, m)
    # the helper objects a read() creates are fresh per call
    import ast
    for R, helper in ((SAMIReader, "_get_sami_parser_class"), (DFXPReader, "_get_dfxp_parser_class")):
        fn = frames.methods_of(R)["read"][0]
        calls = [n for n in ast.walk(fn) if isinstance(n, ast.Call) and isinstance(n.func, ast.Call)
                 and isinstance(n.func.func, ast.Attribute) and n.func.func.attr == helper]
        # (one syntactic way of being fresh; when the call is not where this looks the question goes to the object
        # invariant above and to the bounded reuse histories: undecided here, not a violation)
        if len(calls) == 1:
            g.check(f"{R.__name__}.read builds a new parser object in every call", True, None)
        else:
            g.undecided(f"{R.__name__}.read builds a new parser object in every call", f"{len(calls)} such calls found in read()")


# ------------------------------------------------------------------------------------ bounded part

def read_all_digest():
    h = {}
    for fmt, docs in samples.all_docs().items():
        for i, d in enumerate(docs):
            cs = READERS[fmt]().read(d)
            h[f"{fmt}{i}"] = hashlib.sha256(json.dumps(samples.dump(cs), sort_keys=False, default=repr).encode()).hexdigest()[:16]
    return h


def _all_writers():
    import pycaption
    from pycaption.dfxp.extras import LegacyDFXPWriter, SinglePositioningDFXPWriter
    return [pycaption.SRTWriter, pycaption.WebVTTWriter, pycaption.DFXPWriter, pycaption.SAMIWriter, pycaption.MicroDVDWriter,
            pycaption.SCCWriter, LegacyDFXPWriter, SinglePositioningDFXPWriter]


ALL_WRITERS = _all_writers()


def scramble(obj, seen):
    """edit, in place, every number and enumeration value reachable from a layout object"""
    import enum
    if obj is None or id(obj) in seen or not hasattr(obj, "__dict__"):
        return
    seen.add(id(obj))
    for k, v in list(vars(obj).items()):
        if isinstance(v, enum.Enum):
            members = list(type(v))
            setattr(obj, k, members[(members.index(v) + 1) % len(members)])
        elif isinstance(v, (int, float)) and not isinstance(v, bool):
            setattr(obj, k, v + 1.5)
        else:
            scramble(v, seen)


def bounded(ctx, b):
    docs = samples.all_docs()
    # what a reader returns does not depend on what was WRITTEN earlier in the process: a MicroDVD document with a declared
    # frame rate and frame numbers in the millions, read after every writer has been at work - against exact rational times
    def after_writers():
        from fractions import Fraction
        from pycaption import CaptionSet, CaptionList, Caption, MicroDVDReader
        own = CaptionSet({"en-US": CaptionList([Caption(12345678, 23456789, [CaptionNode.create_text("a")]), Caption(3603603603, 3603999999, [CaptionNode.create_text("b")])])})
        for Wr in ALL_WRITERS:
            try:
                Wr().write(own)
            except Exception:
                pass
        frames = [(1237, 1301), (86400, 86500), (2589408, 2589500)]
        doc = "{0}{0}23.976\n" + "".join(f"{{{a}}}{{{z}}}line {k}\n" for k, (a, z) in enumerate(frames))
        got = [(c_.start, c_.end) for c_ in MicroDVDReader().read(doc).get_captions("und")]
        want = [(int(Fraction(a * 10 ** 6) / Fraction("23.976")), int(Fraction(z * 10 ** 6) / Fraction("23.976"))) for a, z in frames]
        return got == want, {"read_after_every_writer_was_used": got, "expected": want}
    b.guard(("microdvd_after_writers",), after_writers, sample={"case": "MicroDVD document with a declared rate read after unrelated writes"})
    for fmt, ds in docs.items():
        R = READERS[fmt]
        fresh = [samples.dump(R().read(d)) for d in ds]
        # reuse of one reader object in every order of two documents, then the first again
        for i, a in enumerate(ds):
            for j, bdoc in enumerate(ds):
                def one(i=i, j=j, a=a, bdoc=bdoc):
                    r = R()
                    x1 = samples.dump(r.read(a))
                    x2 = samples.dump(r.read(bdoc))
                    x3 = samples.dump(r.read(a))
                    ok = x1 == fresh[i] and x2 == fresh[j] and x3 == fresh[i]
                    return ok, {"format": fmt, "order": (i, j, i),
                                "differs": [n for n, (x, y) in enumerate(((x1, fresh[i]), (x2, fresh[j]), (x3, fresh[i]))) if x != y]}
                b.guard(("reuse", fmt, i, j), one, sample={"format": fmt, "documents": (i, j, i)})
        # reuse right after a read that RAISED half-way (a damaged document): the next result is the fresh one
        damaged = {"scc": lambda d: d.rstrip("\n") + "\n\n00:00:0x;00\t9420 9420\n", "srt": lambda d: d + "\n9\n00:00:xx,000 --> 00:00:01,000\nbad\n",
                   "webvtt": lambda d: d + "\n\n00:99:99.000 --> 00:00:01.000\nbad\n", "microdvd": lambda d: d + "{1}{x}bad\n",
                   "dfxp": lambda d: d.replace("</div>", '<p end="3s">no begin</p></div>', 1),
                   "sami": lambda d: d.replace("</BODY>", '<SYNC><P class="ENCC">no start</P></SYNC></BODY>').replace("</body>", '<SYNC><P class="ENCC">no start</P></SYNC></body>')}
        for i, a in enumerate(ds):
            def failed_then(i=i, a=a):
                r = R(ignore_timing_errors=False) if fmt == "webvtt" else R()
                ref = samples.dump((R(ignore_timing_errors=False) if fmt == "webvtt" else R()).read(a))
                raised = False
                try:
                    r.read(damaged[fmt](a))
                except Exception:
                    raised = True
                got = samples.dump(r.read(a))
                return got == ref, {"format": fmt, "document": i, "the_damaged_read_raised": raised}
            b.guard(("after_failed_read", fmt, i), failed_then, sample={"format": fmt, "document": i, "after_a_read_that_raised": True})
        # isolation: editing one result changes neither another result nor a later read
        for i, a in enumerate(ds):
            def two(i=i, a=a):
                r = R()
                first, second = r.read(a), R().read(a)
                first.add_style("injected", {"color": "red"})
                lang = first.get_languages()[0]
                if first.get_captions(lang):
                    c0 = first.get_captions(lang)[0]
                    c0.style["injected"] = True
                    c0.nodes.append(CaptionNode.create_text("injected"))
                    # ... nor does editing the layout objects hanging off it (objects must not be shared between reads)
                    for lay in [c0.layout_info] + [n_.layout_info for n_ in c0.nodes]:
                        if lay is not None:
                            scramble(lay, set())        # in-place edits of the alignment / point / size objects below it
                            lay.origin, lay.extent, lay.alignment = None, None, None
                    # ... nor does editing the node objects themselves (breaks included)
                    from pycaption.geometry import Layout, Point, Size, UnitEnum
                    for n_ in c0.nodes:
                        n_.layout_info = Layout(origin=Point(Size(3, UnitEnum.PERCENT), Size(4, UnitEnum.PERCENT)))
                        n_.content = "edited"
                        n_.position = (1, 1)
                    first.get_captions(lang).append(copy.deepcopy(c0))
                # ... nor does editing, IN PLACE, the dictionaries a result is made of (style nodes' content, captions' styles):
                # a dictionary handed out by a reader belongs to that result alone
                for l_ in first.get_languages():
                    for cp_ in first.get_captions(l_):
                        if isinstance(cp_.style, dict):
                            cp_.style["edited in place"] = True
                        for n_ in cp_.nodes:
                            if isinstance(n_.content, dict):
                                for k_ in list(n_.content):
                                    n_.content[k_] = "edited in place"
                                n_.content["injected"] = True
                # unrelated activity in the process: every writer, on a copy of this result and on a set of its own with
                # concurrent captions and line breaks (the single-position / legacy writers merge and reposition those)
                from pycaption import CaptionSet, CaptionList, Caption
                from pycaption.geometry import Layout as _L, Point as _P, Size as _S, UnitEnum as _U
                own = CaptionSet({"en-US": CaptionList([
                    Caption(10 ** 6, 2 * 10 ** 6, [CaptionNode.create_text("a"), CaptionNode.create_break(), CaptionNode.create_text("b")]),
                    Caption(10 ** 6, 2 * 10 ** 6, [CaptionNode.create_text("c")]), Caption(3 * 10 ** 6, 4 * 10 ** 6, [CaptionNode.create_text("d")])])})
                for Wr in ALL_WRITERS:
                    for target in (copy.deepcopy(second), own):
                        try:
                            w_ = Wr(default_positioning=_L(origin=_P(_S(10, _U.PERCENT), _S(10, _U.PERCENT)))) if Wr.__name__ == "SinglePositioningDFXPWriter" else Wr()
                            w_.write(target)       # (whether a writer alters its input is C09's business)
                        except Exception:
                            pass
                third = r.read(a)
                fourth = R().read(a)
                ok = samples.dump(second) == fresh[i] and samples.dump(third) == fresh[i] and samples.dump(fourth) == fresh[i]
                return ok, {"format": fmt, "document": i, "leak_into": [n for n, x in (("other result", second), ("later read, same reader", third), ("later read, fresh reader", fourth)) if samples.dump(x) != fresh[i]]}
            b.guard(("isolation", fmt, i), two, sample={"format": fmt, "document": i})
    # reader options: a reader built with options and read with keyword arguments returns, on a used object, what a
    # fresh one built and called the same way returns - and options of one call do not leak into the next
    variants = {
        "dfxp": [({"read_invalid_positioning": True}, {}), ({}, {})],
        "webvtt": [({"ignore_timing_errors": False}, {}), ({"time_shift_milliseconds": 1500}, {"lang": "de"}), ({}, {})],
        "srt": [({}, {"lang": "fr-FR"}), ({}, {})],
        "microdvd": [({}, {"lang": "es"}), ({}, {})],
        "sami": [({}, {})],
        "scc": [({}, {"offset": 1}), ({}, {"lang": "de-DE", "simulate_roll_up": True}), ({}, {"offset": 2, "lang": "fr"}), ({}, {})],
    }
    for fmt, ds in docs.items():
        R = READERS[fmt]
        for ctor_kw, _ in variants[fmt]:
            used = R(**ctor_kw)
            for read_kw in [kw for ck, kw in variants[fmt] if ck == ctor_kw] + [kw for _, kw in variants[fmt]]:
                for i, a in enumerate(ds):
                    def opt(R=R, used=used, ctor_kw=ctor_kw, read_kw=read_kw, a=a, i=i, fmt=fmt):
                        def run(r):
                            try:
                                return samples.dump(r.read(a, **read_kw))
                            except Exception as e:
                                return f"raised {type(e).__name__}"
                        got, ref = run(used), run(R(**ctor_kw))
                        return got == ref, {"format": fmt, "document": i, "reader_options": ctor_kw, "read_arguments": read_kw}
                    b.guard(("options", fmt, str(ctor_kw), str(read_kw), i, len(b.nontrivial)), opt,
                            sample={"format": fmt, "document": i, "reader_options": ctor_kw, "read_arguments": read_kw})
    # reads interleaved across formats on long-lived reader objects
    long_lived = {f: R() for f, R in READERS.items()}
    order = [(f, i) for f in sorted(docs) for i in range(len(docs[f]))]
    for rep in range(2):
        for f, i in order + order[::-1]:
            def three(f=f, i=i):
                got = samples.dump(long_lived[f].read(docs[f][i]))
                return got == samples.dump(READERS[f]().read(docs[f][i])), {"format": f, "document": i}
            b.guard(("interleaved", rep, f, i, len(b.nontrivial)), three, sample={"format": f, "document": i})
    seeds = ["0", "1", "2", "random"] if not ctx.thorough else ["0", "1", "2", "3", "4", "5", "random", "random"]
    script = ("import sys, json; sys.path.insert(0, %r); sys.path.insert(0, %r); import warnings; warnings.filterwarnings('ignore');"
              "from props import C10; print(json.dumps(C10.read_all_digest(), sort_keys=True))") % (
        ctx.repo_root, os.path.dirname(os.path.dirname(os.path.abspath(__file__))))
    procs = [(s, subprocess.Popen([sys.executable, "-c", script], env=dict(os.environ, PYTHONHASHSEED=s, PYTHONWARNINGS="ignore"),
                                  stdout=subprocess.PIPE, stderr=subprocess.PIPE, text=True)) for s in seeds]
    digests = []
    for s, pr in procs:
        try:
            out, err = pr.communicate(timeout=300)
        except subprocess.TimeoutExpired:
            pr.kill()
            out, err = pr.communicate()
            err = (err or "") + "\nno result within 300 s"
        digests.append(json.loads(out) if pr.returncode == 0 else {"error": err[-300:]})
    for key in sorted(digests[0]):
        vals = {d.get(key) for d in digests}
        b.case(("hashseed", key), len(vals) == 1, {"read_result_depends_on_hash_seed": key}, sample={"key": key, "seeds": seeds})


def run(ctx):
    ctx.frame("readers", frame_obligations)
    # the SCC reader is the one reader that keeps its parser on the reader object: read() resets it before anything
    # else, and a timecode line keeps no state of its own (contracts shared with C05 / C06 / C16)
    import props.C06_line as LI
    LI.prove_read_head(ctx)
    LI.prove_line(ctx)
    import props.C01_read as RS
    RS.prove_dfxp_p_skeleton(ctx)     # (the DFXP reader's node list is per paragraph: nothing of an earlier or refused paragraph)
    ctx.bounded("histories", "sample documents of the six input formats (multi-language SAMI / DFXP, styles, layouts, "
                "pop-on and roll-up SCC): every order of two documents on one reader object then the first again, "
                "editing one result (add_style, caption style, nodes, list) and unrelated writes in between, "
                "long-lived readers interleaved across formats, all compared with fresh reads; digests equal across "
                "PYTHONHASHSEED 0, 1, 2, random", lambda b: bounded(ctx, b))
    ctx.trust("P-frame: syntactic effect analysis (pyvc.frames) - object invariant of every reader's read() (each "
              "attribute read is plain configuration or assigned in the call before its first read), no mutable "
              "default arguments, no mutation of module / class level containers, no iteration order from a set")
    ctx.assume("freshness of results is argued from: no mutable defaults, no module/class-level containers mutated, "
               "per-call helper objects; aliasing through bs4 objects is not analysed (bounded isolation check only)")
