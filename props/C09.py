"""C09 - writing never alters its input and is deterministic."""
import hashlib
import itertools
import json
import os
import subprocess
import sys

import pycaption
from pycaption import (DFXPWriter, MicroDVDWriter, SAMIWriter, SCCWriter, SRTWriter, WebVTTWriter)
from pycaption.dfxp.extras import LegacyDFXPWriter, SinglePositioningDFXPWriter
from pyvc import frames
from props import samples

WRITERS = [SRTWriter, WebVTTWriter, DFXPWriter, SAMIWriter, MicroDVDWriter, SCCWriter, LegacyDFXPWriter,
           SinglePositioningDFXPWriter]
OPTIONS = {
    SRTWriter: [{}], MicroDVDWriter: [{}], SCCWriter: [{}], LegacyDFXPWriter: [{}],
    WebVTTWriter: [{}, {"relativize": False}, {"fit_to_screen": False, "video_width": 640, "video_height": 360}],
    DFXPWriter: [{}, {"write_inline_positioning": True, "video_width": 640, "video_height": 360}, {"relativize": False, "fit_to_screen": False}],
    SAMIWriter: [{}, {"video_width": 640, "video_height": 360}],
    SinglePositioningDFXPWriter: [{}, {"video_width": 640, "video_height": 360}],
}
PARAM = {SinglePositioningDFXPWriter: "captions_set"}
MODULES = ["pycaption.base", "pycaption.srt", "pycaption.webvtt", "pycaption.microdvd", "pycaption.sami",
           "pycaption.dfxp.base", "pycaption.dfxp.extras", "pycaption.scc", "pycaption.geometry", "pycaption.scc.constants", "pycaption.utils", "pycaption.exceptions"]


def frame_obligations(g):
    import importlib
    for W in WRITERS:
        frames.input_copied(W, "write", PARAM.get(W, "caption_set"), g)
        frames.object_invariant(W, "write", g)
    from pycaption.dfxp.base import RegionCreator
    frames.object_invariant(RegionCreator, "create_document_regions", g)
    # the module-wide obligations are restricted to what the writers' entry points can reach (by name,
    # over-approximated): code only readers use is C10's business
    trees = {m: frames.module_ast_of(importlib.import_module(m)) for m in MODULES}
    entries = [(W.__name__, "write") for W in WRITERS] + [(W.__name__, "__init__") for W in WRITERS]
    scoped, dropped = frames.reachable_trees(trees, entries)
    g.check("scope: some code is reachable from the writers", sum(len(t.body) for t in scoped.values()) > 0, None)
    for m in MODULES:
        frames.no_hash_order(scoped[m], g, m)
        frames.no_global_mutation(scoped[m], g, m)
        frames.no_mutable_defaults(scoped[m], g, m)


# ------------------------------------------------------------------------------------ bounded part

def all_sets():
    sets = dict(samples.api_sets())
    readers = {"srt": pycaption.SRTReader, "webvtt": pycaption.WebVTTReader, "microdvd": pycaption.MicroDVDReader,
               "dfxp": pycaption.DFXPReader, "sami": pycaption.SAMIReader, "scc": pycaption.SCCReader}
    for fmt, docs in samples.all_docs().items():
        for i, d in enumerate(docs):
            sets[f"{fmt}{i}"] = readers[fmt]().read(d)
    return sets


def write_or_error(w, cs, **kw):
    try:
        return w.write(cs, **kw)
    except Exception as e:
        return f"!{type(e).__name__}"


def outputs_digest():
    """all outputs of all writers on all sets, in a fixed order (run in subprocesses with different hash seeds)"""
    sets = all_sets()
    h = {}
    for name in sorted(sets):
        for W in WRITERS:
            for k, opts in enumerate(OPTIONS[W]):
                before = hashlib.sha256(json.dumps(samples.dump(sets[name]), default=repr).encode()).hexdigest()[:16]
                out = write_or_error(W(**opts), sets[name])
                # (digest of the input set, digest of the output): outputs are compared across hash seeds
                # only where the inputs are the same - what a reader returns is C10's business
                h[f"{name}/{W.__name__}/{k}"] = [before, hashlib.sha256(out.encode()).hexdigest()[:16]]
    return h


_LEADING_BLANKS = pycaption.CaptionSet({"en-US": pycaption.CaptionList([
    pycaption.Caption(0, 10 ** 6, [pycaption.CaptionNode.create_text("   starts with blanks"), pycaption.CaptionNode.create_break(),
                                   pycaption.CaptionNode.create_text(" \u00a0 and so does this")])])})


def bounded(ctx, b):
    sets = all_sets()
    names = sorted(sets)
    other = sets["styled"]
    # a first pass: what every writer makes of every set before the run has written anything else (outputs must not
    # depend on what the PROCESS has written before - not even through state kept in a library the writers use)
    pristine = {name: samples.dump(sets[name]) for name in names}         # (plain data: taken before anything is written)
    first_pass = {(name, W.__name__, k): write_or_error(W(**opts), sets[name]) for name in names for W in WRITERS for k, opts in enumerate(OPTIONS[W])}
    for name in names:
        b.case(("first_pass_leaves_the_sets_alone", name), samples.dump(sets[name]) == pristine[name],
               {"set": name, "changed_by": "the first pass of all writers over it"}, sample={"set": name})
    for W2 in WRITERS:
        write_or_error(W2(), _LEADING_BLANKS)
    for name in names:
        cs = sets[name]
        for W in WRITERS:
            for k, opts in enumerate(OPTIONS[W]):
                def one(W=W, opts=opts, cs=cs, key=(name, W.__name__, k)):
                    before = samples.dump(cs)
                    w = W(**opts)
                    out1 = write_or_error(w, cs)
                    if out1 != first_pass[key]:
                        return False, {"writer": W.__name__, "options": opts, "differs": ["from what a fresh writer wrote before other sets were written in this process"]}
                    if samples.dump(cs) != before:
                        return False, {"input_changed_by": W.__name__, "options": opts, "raised": out1.startswith("!")}
                    out2 = write_or_error(w, cs)
                    out3 = write_or_error(W(**opts), cs)
                    write_or_error(w, other)
                    write_or_error(w, sets["unbalanced"])
                    write_or_error(w, _LEADING_BLANKS)
                    for W2 in WRITERS:                      # (... and by fresh writers of every kind)
                        write_or_error(W2(), _LEADING_BLANKS)
                    out4 = write_or_error(w, cs)
                    if not (out1 == out2 == out3 == out4):
                        which = [n for n, o in (("same object again", out2), ("fresh writer", out3), ("after other writes", out4)) if o != out1]
                        return False, {"writer": W.__name__, "options": opts, "differs": which}
                    if samples.dump(cs) != before or samples.dump(other) != samples.dump(sets["styled"]):
                        return False, {"input_changed_by_later_writes": W.__name__}
                    return True, None
                b.guard((name, W.__name__, k), one, sample={"set": name, "writer": W.__name__, "options": opts})
    # hash seeds: the same digest in processes started with different PYTHONHASHSEED
    ref = None
    seeds = ["0", "1", "2", "random"] if not ctx.thorough else ["0", "1", "2", "3", "4", "5", "random", "random"]
    script = ("import sys, json; sys.path.insert(0, %r); sys.path.insert(0, %r); import warnings; warnings.filterwarnings('ignore');"
              "from props import C09; print(json.dumps(C09.outputs_digest(), sort_keys=True))") % (ctx.repo_root, os.path.dirname(os.path.dirname(os.path.abspath(__file__))))
    digests = {}
    procs = [(s, subprocess.Popen([sys.executable, "-c", script], env=dict(os.environ, PYTHONHASHSEED=s, PYTHONWARNINGS="ignore"),
                                  stdout=subprocess.PIPE, stderr=subprocess.PIPE, text=True)) for s in seeds]
    for s, pr in procs:
        try:
            out, err = pr.communicate(timeout=300)
        except subprocess.TimeoutExpired:
            pr.kill()
            out, err = pr.communicate()
            err = (err or "") + "\nno result within 300 s"
        digests[s + str(len(digests))] = json.loads(out) if pr.returncode == 0 else {"error": err[-300:]}
    first = list(digests.values())[0]
    if "error" in first:
        raise RuntimeError("hash-seed subprocess failed: " + str(first["error"]))
    for key in sorted(first):
        got = [d.get(key) for d in digests.values()]
        if any(not isinstance(x, list) for x in got):
            b.case(("hashseed", key), False, {"subprocess_failed": [str(d.get("error"))[:200] for d in digests.values() if "error" in d]})
            continue
        same_input = len({x[0] for x in got}) == 1
        vals = {x[1] for x in got}
        b.case(("hashseed", key), (not same_input) or len(vals) == 1, {"output_depends_on_hash_seed": key, "digests": sorted(map(str, vals))},
               sample={"key": key, "seeds": seeds}, nontrivial=same_input)


def run(ctx):
    ctx.frame("writers", frame_obligations)
    # the two writers that keep per-document state on the writer object (span state, sync bookkeeping, the region
    # creator): every call starts from a new document, copies its input before changing anything and resets that state
    # - also right after another document was written (skeleton contracts shared with C07 / C14)
    import props.C07_write as WS
    WS.prove_write_skeleton(ctx)
    WS.prove_sami_write_skeleton(ctx)
    import props.C09_accessors as AC
    AC.prove_accessors(ctx)           # (WebVTT / SRT / MicroDVD ask the caller's set before, or instead of, copying it)
    ctx.bounded("snapshots", "8 writers x option sets x caption sets (API-built with styles / classes / layouts at three "
                "levels / unbalanced style nodes / fractional and identical times / absolute units that make writers "
                "raise; plus the sets read from sample documents of six formats): structural snapshot before = after "
                "(also when the writer raises); same output from the same object again, a fresh writer, and after "
                "unrelated writes; digests of every output equal across processes with PYTHONHASHSEED 0, 1, 2, random",
                lambda b: bounded(ctx, b))
    ctx.trust("P-frame: syntactic effect analysis (pyvc.frames) - input deep-copied before any impure use, object "
              "invariant (every attribute read by write() is plain configuration or assigned in the call before its "
              "first read), no iteration order taken from a set, no mutation of module / class level containers; "
              "A: copy.deepcopy returns a structurally equal object graph disjoint from its argument")
    ctx.assume("the interpreter has no source of nondeterminism other than hash order; frame analysis is sound but "
               "incomplete (unclassifiable code fails the obligation rather than passing)")
