"""C03 - written text survives a conformant parser: escaping and cue structure."""
import itertools
import random
from xml.sax.saxutils import escape, unescape

from pycaption import (CaptionSet, CaptionList, Caption, CaptionNode, SRTWriter, WebVTTWriter, DFXPWriter, SAMIWriter,
                       MicroDVDWriter)
from pycaption.dfxp.extras import LegacyDFXPWriter, SinglePositioningDFXPWriter
from refs import parsers

T, BR = CaptionNode.create_text, CaptionNode.create_break

ADVERSARIAL = ["family \U0001f468\u200d\U0001f469\u200d\U0001f467 emoji", "co\u00adoperate \u200e(x)\u200f no\u2060break \u0645\u06cc\u200c\u062e\u0648\u0627\u0647\u0645", "-->", "a --> b", "&amp;lt;", "&lt;", "<i>", "</i>", "<b>bold</b>", "]]>", "<![CDATA[x]]>", "&#65;", "&#x41;",
               "&nbsp;", "\"quoted\"", "it's", "a & b", "x < y > z", "<v Bob>", "</span>", "<br/>", "<p>", "&", "<", ">",
               "1", "00:00:01,000 --> 00:00:02,000", "{1}{2}", "WEBVTT", "<!-- c -->", "a b", "Ünï çødé ♪", "tab\there",
               "🎉 party 🎉", "𝄞 clef", "𠮷野家", "  padded  ", "SCORE   HOME  2", "Wait.  What?", "semi;colon", "%s %d {0}", "\\n", "<sync start=\"1\">", "&unknown;", "&amp", "<<>>", "--", "->"]
META = "&<>-;#\"'a 1/"


def norm(s):
    return " ".join(s.replace(" ", " ").split())


def edges(s):
    """a line up to leading / trailing whitespace (what the statement allows a writer to change)"""
    return s.strip(" \t\u00a0\r\n")


# XML / HTML parsers may collapse white space inside a line (xml:space="default", HTML rendering);
# the plain-text formats have no such rule: their lines must come back character for character
EXACT = {"srt", "webvtt", "microdvd"}


def texts(ctx):
    rng = random.Random(ctx.seed)
    short = ["".join(t) for n in (1, 2, 3) for t in itertools.product(META, repeat=n)]
    short = [s for s in short if norm(s)]
    rng.shuffle(short)
    pick = short[: (250 if not ctx.thorough else 1500)]
    uni = ["".join(chr(rng.choice([rng.randrange(0x21, 0x7f), rng.randrange(0xa1, 0x250), rng.randrange(0x400, 0x500), 0x266a]))
                   for _ in range(rng.randrange(1, 12))) for _ in range(60)]
    from props import samples
    return ADVERSARIAL + pick + uni + samples.rich_lines(rng, 150 if not ctx.thorough else 1500)


def node_lists(lines, variant):
    """caption nodes for the given text lines; variants add empty lines / consecutive breaks"""
    nodes = []
    for i, ln in enumerate(lines):
        if i:
            nodes.append(BR())
            if variant == "double_break" and i == 1:
                nodes.append(BR())
            if variant == "triple_break" and i == 1:
                nodes += [BR(), BR()]
            if variant == "empty_text" and i == 1:
                nodes += [T(""), BR()]
            if variant == "blank_text" and i == 1:
                nodes += [T("  "), BR()]
        nodes.append(T(ln))
    if variant == "leading_break":
        nodes = [BR()] + nodes
    if variant == "trailing_break":
        nodes = nodes + [BR()]
    return nodes


WRITERS = {"srt": SRTWriter, "webvtt": WebVTTWriter, "dfxp": DFXPWriter, "legacy_dfxp": LegacyDFXPWriter,
           "single_dfxp": SinglePositioningDFXPWriter, "sami": SAMIWriter, "microdvd": MicroDVDWriter}


def parse(fmt, doc):
    if fmt == "srt":
        return [cu["lines"] for cu in parsers.parse_srt(doc)]
    if fmt == "webvtt":
        return [cu["lines"] for cu in parsers.parse_webvtt(doc)]
    if fmt.endswith("dfxp"):
        d = parsers.parse_dfxp(doc)
        return [cu["lines"] for l in d["langs"] for cu in d["cues"][l]] if len(set(d["langs"])) == len(d["langs"]) else None
    if fmt == "sami":
        d = parsers.parse_sami(doc)
        return [cu["lines"] for cu in d["cues"].get("en-US", [])]
    if fmt == "microdvd":
        return [cu["lines"] for cu in parsers.parse_microdvd(doc)]


def bounded(ctx, b):
    rng = random.Random(ctx.seed + 3)
    tx = texts(ctx)
    variants = ["plain", "plain", "double_break", "triple_break", "empty_text", "blank_text", "leading_break", "trailing_break"]
    cases = []
    for t in tx:
        cases.append(([t], "plain"))
    for _ in range(300 if not ctx.thorough else 3000):
        k = rng.choice([2, 3, 4])
        cases.append(([rng.choice(tx) for _ in range(k)], rng.choice(variants)))
    for t in tx[:len(ADVERSARIAL)] + rng.sample(tx, 40):
        cases.append(([t, t], "plain"))                                   # a line said twice is two lines
        cases.append(([t, t, rng.choice(tx), t], "plain"))
    # a caption that ends with a line break: its last line keeps its last characters (letters that also occur in '<br/>')
    for t in ["What a lovely car", "crab", "either/", "a <br/>", "rb/", "b"]:
        cases += [([t], "trailing_break"), (["first", t], "trailing_break"), ([t, "last"], "leading_break")]
    shared_objects(ctx, b, tx, rng)
    for lines, variant in cases:
        # three cues: the adversarial one in the middle, so that a cue ended early, merged or lost shows
        mk = lambda: CaptionSet({"en-US": CaptionList([
            Caption(1000000, 2000000, [T("before")]),
            Caption(3000000, 4000000, node_lists(lines, variant)),
            Caption(5000000, 6000000, [T("after")])])})
        want_mid = [norm(x) for x in lines if norm(x)]
        for fmt, W in WRITERS.items():
            if fmt == "microdvd" and any("|" in x for x in lines):
                continue

            def one(fmt=fmt, W=W):
                # (one writer object per format for the whole run)
                doc = _WRITER_OBJECTS.setdefault(fmt, W()).write(mk())
                try:
                    cues = parse(fmt, doc)
                except parsers.FormatError as e:
                    return False, {"format": fmt, "not_conformant": str(e), "doc": doc[-500:]}
                f = edges if fmt in EXACT else norm
                got = [[f(x) for x in cue if f(x)] for cue in cues]
                exp = [["before"], [f(x) for x in lines if f(x)], ["after"]]
                return got == exp, {"format": fmt, "lines": lines, "variant": variant, "parsed": got, "expected": exp, "doc": doc[-400:]}
            b.guard((fmt, tuple(lines), variant), one, sample={"format": fmt, "lines": lines, "variant": variant})


_WRITER_OBJECTS = {}


def shared_objects(ctx, b, tx, rng):
    """caption sets in which objects occur more than once (the same node list in two captions, the same caption
    list under two language codes): each occurrence is written as the text it is, once escaped"""
    for t in tx[:len(ADVERSARIAL)] + rng.sample(tx, 30):
        lines = [t, rng.choice(tx)]
        for fmt, W in WRITERS.items():
            if fmt == "microdvd" and any("|" in x for x in lines):
                continue

            def twice(fmt=fmt, W=W, lines=lines):
                nodes = node_lists(lines, "plain")
                cs = CaptionSet({"en-US": CaptionList([Caption(1000000, 2000000, [T("before")]), Caption(3000000, 4000000, nodes),
                                                       Caption(4500000, 4800000, nodes), Caption(5000000, 6000000, [T("after")])])})
                doc = _WRITER_OBJECTS.setdefault(fmt, W()).write(cs)
                try:
                    cues = parse(fmt, doc)
                except parsers.FormatError as e:
                    return False, {"format": fmt, "not_conformant": str(e), "doc": doc[-500:]}
                f = edges if fmt in EXACT else norm
                got = [[f(x) for x in cue if f(x)] for cue in cues]
                mid = [f(x) for x in lines if f(x)]
                exp = [["before"], mid, mid, ["after"]]
                return got == exp, {"format": fmt, "lines": lines, "parsed": got, "expected": exp, "doc": doc[-400:]}
            b.guard(("shared_nodes", fmt, tuple(lines)), twice, sample={"format": fmt, "lines": lines, "case": "two captions made of the same node objects"})
        # captions shown at the same time: the formats that merge them (SRT, the legacy / single-position DFXP writers)
        # keep their lines in caption order; the others keep one cue each, in order
        for fmt, W in WRITERS.items():
            if fmt == "microdvd" and any("|" in x for x in lines):
                continue

            def together(fmt=fmt, W=W, lines=lines):
                # (the third repeats a piece of the first: a line is kept whatever else is on the screen)
                texts3 = [[lines[0] + " and more"], [lines[1], "middle"], [lines[0]]]
                # (the second of them ends with a line break: a line break is not the end of a line that follows it)
                cs = CaptionSet({"en-US": CaptionList([Caption(1000000, 2000000, [T("before")])] +
                                                      [Caption(3000000, 4000000, node_lists(tl, "trailing_break" if k_ == 1 else "plain")) for k_, tl in enumerate(texts3)] +
                                                      [Caption(5000000, 6000000, [T("after")])])})
                doc = _WRITER_OBJECTS.setdefault(fmt, W()).write(cs)
                try:
                    cues = parse(fmt, doc)
                except parsers.FormatError as e:
                    return False, {"format": fmt, "not_conformant": str(e), "doc": doc[-500:]}
                f = edges if fmt in EXACT else norm
                got = [[f(x) for x in cue if f(x)] for cue in cues]
                mids = [[f(x) for x in tl if f(x)] for tl in texts3]
                merged = fmt in ("srt", "legacy_dfxp", "single_dfxp")
                exp = [["before"]] + ([sum(mids, [])] if merged else mids) + [["after"]]
                return got == exp, {"format": fmt, "parsed": got, "expected": exp, "doc": doc[-400:]}
            b.guard(("simultaneous", fmt, tuple(lines)), together, sample={"format": fmt, "lines": lines, "case": "three captions with the same times"})
        for fmt in ("sami", "dfxp", "legacy_dfxp", "single_dfxp"):
            def two_langs(fmt=fmt, lines=lines):
                caps = CaptionList([Caption(1000000, 2000000, [T("before")]), Caption(3000000, 4000000, node_lists(lines, "plain"))])
                doc = _WRITER_OBJECTS.setdefault(fmt, WRITERS[fmt]()).write(CaptionSet({"en-US": caps, "en-GB": caps}))
                try:
                    d = parsers.parse_sami(doc) if fmt == "sami" else parsers.parse_dfxp(doc)
                except parsers.FormatError as e:
                    return False, {"format": fmt, "not_conformant": str(e), "doc": doc[-500:]}
                exp = [["before"], [norm(x) for x in lines if norm(x)]]
                got = {l: [[norm(x) for x in cu["lines"] if norm(x)] for cu in d["cues"].get(l, [])] for l in ("en-US", "en-GB")}
                return got == {"en-US": exp, "en-GB": exp}, {"format": fmt, "lines": lines, "parsed": got, "expected_in_both_languages": exp, "doc": doc[-400:]}
            b.guard(("shared_list", fmt, tuple(lines)), two_langs, sample={"format": fmt, "lines": lines, "case": "one caption list under two language codes"})


def bounded_escape(ctx, b):
    """the assumed contract of xml.sax.saxutils.escape (used by the DFXP / SAMI writers), exhaustively on
    short strings over the XML metacharacters: no raw < or &, unescaping gives the string back"""
    import re
    alpha = "&<>;#a\"'"
    L = 5 if not ctx.thorough else 6
    for n in range(0, L + 1):
        for tup in itertools.product(alpha, repeat=n):
            s = "".join(tup)
            e = escape(s)
            ok = "<" not in e and re.fullmatch(r"(?:[^&<]|&amp;|&lt;|&gt;)*", e) is not None and unescape(e) == s
            b.case(s, ok, {"string": s, "escaped": e}, nontrivial=any(ch in s for ch in "&<>"), sample=s if s == "&<a" else None)
    from pycaption.webvtt import WebVTTWriter as W
    w = W()
    alpha2 = "&<>-;a#"
    for n in range(0, L + 1):
        for tup in itertools.product(alpha2, repeat=n):
            s = "".join(tup)
            e = w._encode_illegal_characters(s)
            ok = "<" not in e and "-->" not in e and parsers.vtt_unescape(e) == s and \
                all(m in ("&amp;", "&lt;", "&gt;") for m in re.findall(r"&[^;&]*;?", e) if m in ("&amp;", "&lt;", "&gt;") or True) is not None
            ok = ok and re.fullmatch(r"(?:[^&<]|&amp;|&lt;|&gt;)*", e) is not None
            b.case(("vtt", s), ok, {"string": s, "encoded": e}, nontrivial=any(ch in s for ch in "&<-"), sample=s if s == "a-->" else None)


def run(ctx):
    import props.C07_spans as SP
    SP.prove_span_balance(ctx)
    import props.C03_lines as LN
    LN.prove_cue_lines(ctx)
    import props.C07_write as WS
    WS.prove_sami_write_skeleton(ctx)         # (no cue is created: a new document for every write, one paragraph per caption)
    ctx.bounded("escape_contracts", "xml.sax.saxutils.escape and WebVTTWriter._encode_illegal_characters on every string up to "
                "length 5 (thorough: 6) over the metacharacter alphabets: no raw '<' (no '-->' for WebVTT), every '&' "
                "starts one of the three entities, decoding gives the string back", lambda b: bounded_escape(ctx, b), exhaustive=True)
    ctx.bounded("documents", "captions whose lines are adversarial / metacharacter / Unicode texts (1-4 lines, with "
                "consecutive breaks, empty text lines, leading / trailing breaks) between two plain cues x seven writers; "
                "the output is parsed by an independent conformant parser of the format: three cues with exactly the "
                "authored non-empty lines (whitespace-normalised)", lambda b: bounded(ctx, b))
    ctx.trust("A: xml.sax.saxutils.escape (validated exhaustively on short strings every run), bs4 prettify(formatter) emits "
              "text verbatim; reference parsers in refs/parsers.py are my reading of the format grammars (strict XML via "
              "expat, HTML via html.parser, WebVTT cue grammar, SRT block grammar, MicroDVD line grammar)")
    ctx.assume("multi-character str.replace chains are outside the structured-string rules: the WebVTT encoder is bounded "
               "(exhaustive to length 5) rather than proved; MicroDVD cannot escape '|' (excluded, as the statement says)")
