"""Loop-invariant proofs of the italics normalisation of the SCC reader
(pycaption.scc.specialized_collections._format_italics and its passes), shared by C05 and C11.

Nodes are symbolic heap objects (_InstructionNode: _type immutable, text, position opaque); lists
are z3 Seqs of node references of ANY length.  The properties are phrased with folds over a node
sequence, each defined by recursion on the last element (snoc), F([]) = init, F(s+[x]) = step(F(s), x):

  LAST(s) : 1 if the last italics command in s is ON, else 0         (what a decoder's italics flag is)
  ALT(s)  : automaton: italics nodes alternate ON, OFF, ON, ... beginning with ON   (Q0 closed, Q1 open, BAD)
  SEG(s)  : ALT and additionally no CHANGE_POSITION node while open
  M(s)    : the sequence of (text node, italic?) pairs of the non-empty text nodes of s, italic? = LAST
            of the nodes before it  -- "which characters are italic"

Theorem (format_italics, for every input list):  SEG(out) = Q0  (every ON is closed by an OFF before
the next repositioning and before the end, ON / OFF alternate)  and  M(out) = M(in)  (exactly the text
sent while italics were on is italic, text order kept, no non-empty text lost).

Each pass is proved against its own contract with an inductive loop invariant; _format_italics is
then proved modularly from the seven contracts (a call site sees only the callee's contract).
Sequence-theory facts z3 does not find by itself are added as *lemma instances* (valid in the
theory of sequences, listed in the evidence):  prefix(s, i+1) = prefix(s, i) + [s[i]]  and
prefix(s, len s) = s.
"""
import ast

import z3

from pycaption.scc import specialized_collections as SC
from pycaption.scc.specialized_collections import _InstructionNode
from pyvc import heap, sym
from pyvc.heap import SymList, SymRef, declare, loop_rule, SEQ, INT, heap_array, as_seq, NONEMPTY, NONE_REF, EMPTY_TEXT
from pyvc.sym import cur

declare(_InstructionNode, _type="int!", text="text", position="id")
TEXT, BREAK, ON, OFF, POS = 0, 1, 2, 3, 4
Q0, Q1, BAD = 0, 1, 2
MOD = "pycaption.scc.specialized_collections:"

LAST = z3.Function("LAST", SEQ, INT)
ALT = z3.Function("ALT", SEQ, INT)
SEG = z3.Function("SEG", SEQ, INT)
M = z3.Function("M", SEQ, SEQ)
EMPTY = z3.Empty(SEQ)


def setup(interp):
    heap.install(interp)


def ty(p, ref):
    return z3.Select(heap_array(p, _InstructionNode, "_type"), ref)


def text0(p, ref):
    """the text of a node at function entry (no pass before the last one stores to .text)"""
    heap_array(p, _InstructionNode, "text")
    return z3.Select(p.ghost["heap0"][("_InstructionNode", "text")], ref)


def nonempty_text(p, x):
    t = text0(p, x)
    return z3.And(ty(p, x) == TEXT, t != NONE_REF, t != EMPTY_TEXT, NONEMPTY(t))


def alt_step(q, t):
    return z3.If(q == BAD, BAD,
                 z3.If(t == ON, z3.If(q == Q0, Q1, BAD),
                       z3.If(t == OFF, z3.If(q == Q1, Q0, BAD), q)))


def seg_step(q, t):
    return z3.If(q == BAD, BAD,
                 z3.If(t == ON, z3.If(q == Q0, Q1, BAD),
                       z3.If(t == OFF, z3.If(q == Q1, Q0, BAD),
                             z3.If(t == POS, z3.If(q == Q0, Q0, BAD), q))))


def last_step(l, t):
    return z3.If(t == ON, 1, z3.If(t == OFF, 0, l))


def base_axioms(p):
    p.assume(z3.And(LAST(EMPTY) == 0, ALT(EMPTY) == Q0, SEG(EMPTY) == Q0, M(EMPTY) == EMPTY))


def snoc(p, s, x):
    """the defining equations of the four folds at s + [x]"""
    sx = z3.Concat(s, z3.Unit(x))
    t = ty(p, x)
    return z3.And(LAST(sx) == last_step(LAST(s), t),
                  ALT(sx) == alt_step(ALT(s), t),
                  SEG(sx) == seg_step(SEG(s), t),
                  M(sx) == z3.If(nonempty_text(p, x), z3.Concat(M(s), z3.Unit(2 * x + LAST(s))), M(s)),
                  z3.Or(LAST(s) == 0, LAST(s) == 1))


def lemma(s):
    """open <=> the last italics command is ON, for well-formed sequences.  Valid for every sequence
    by induction on snoc; base and step are discharged in every run (contract `open_iff_last_on`)."""
    return z3.And(z3.Implies(SEG(s) != BAD, (SEG(s) == Q1) == (LAST(s) == 1)),
                  z3.Implies(ALT(s) != BAD, (ALT(s) == Q1) == (LAST(s) == 1)),
                  z3.Or(LAST(s) == 0, LAST(s) == 1),
                  z3.Or(SEG(s) == Q0, SEG(s) == Q1, SEG(s) == BAD), z3.Or(ALT(s) == Q0, ALT(s) == Q1, ALT(s) == BAD))


def prefix(s, i):
    return z3.SubSeq(s, 0, i)


def prefix_lemma(s, i):
    """valid in the theory of sequences for 0 <= i < len(s)"""
    return prefix(s, i + 1) == z3.Concat(prefix(s, i), z3.Unit(s[i]))


def instantiate(S, inp):
    """definitions needed after one more iteration: the folds at the new prefix and at every append"""
    p = S.p
    if S.havoc_locals is not None and S.i_is_successor:
        k = S.i - 1
        p.assume(prefix_lemma(inp.t, k))
        p.assume(snoc(p, prefix(inp.t, k), inp.t[k]))
    for s, x in p.ghost.get("appends", []):
        p.assume(snoc(p, s, x))
        p.assume(lemma(z3.Concat(s, z3.Unit(x))))
    p.assume(prefix(inp.t, 0) == EMPTY)
    p.assume(lemma(prefix(inp.t, S.i)))
    for v in S.frame.locals.values():
        if isinstance(v, (SymList, list)) and v is not inp:
            try:
                p.assume(lemma(as_seq(v)))
            except Exception:
                pass


def finish(p, inp):
    """at loop exit: prefix(inp, n) = inp, and the folds at the appends made after the loop"""
    p.assume(prefix(inp.t, z3.Length(inp.t)) == inp.t)
    p.assume(lemma(inp.t))
    for s, x in p.ghost.get("appends", []):
        p.assume(snoc(p, s, x))
        p.assume(lemma(z3.Concat(s, z3.Unit(x))))


def new_input(name="collection"):
    p = cur()
    p.ghost["symbolic_heap"] = True
    base_axioms(p)
    inp = SymList(z3.Const(name, SEQ), _InstructionNode)
    return p, inp


def same_meaning(out, pre):
    return [("same_text_is_italic", M(out) == M(pre)), ("same_final_italics_state", LAST(out) == LAST(pre))]


def zb(v):
    return sym.zbool(v)


# --------------------------------------------------------------------------------------- the passes

def skip_initial_off(c):
    """_skip_initial_italics_off_nodes: meaning preserved (an OFF before the first ON changes nothing)"""
    p, inp = new_input()

    def inv(S):
        instantiate(S, inp)
        out, pre = as_seq(S.local("new_collection")), prefix(inp.t, S.i)
        return same_meaning(out, pre) + [("no_on_seen_means_italics_off", z3.Or(zb(S.local("can_add_italics_off_nodes")), LAST(pre) == 0))]
    c.interp.loop_hooks[(MOD + "_skip_initial_italics_off_nodes", 1)] = loop_rule(
        "initial_off.loop", inv, locals_={"new_collection": ("seq", _InstructionNode), "can_add_italics_off_nodes": ("bool", None)})
    r = c.call(SC._skip_initial_italics_off_nodes, inp, compare=False)
    finish(p, inp)
    c.ensure("same_text_is_italic", M(as_seq(r)) == M(inp.t))
    c.ensure("same_final_italics_state", LAST(as_seq(r)) == LAST(inp.t))


def skip_empty_text(c):
    """_skip_empty_text_nodes: only empty text nodes are dropped"""
    p, inp = new_input()

    def inv(S):
        instantiate(S, inp)
        return same_meaning(as_seq(S.local("__comp")), prefix(inp.t, S.i))
    c.interp.loop_hooks[(MOD + "_skip_empty_text_nodes", ("comp", 1))] = loop_rule(
        "empty_text.loop", inv, locals_={"__comp": ("seq", _InstructionNode)})
    r = c.call(SC._skip_empty_text_nodes, inp, compare=False)
    finish(p, inp)
    c.ensure("same_text_is_italic", M(as_seq(r)) == M(inp.t))
    c.ensure("same_final_italics_state", LAST(as_seq(r)) == LAST(inp.t))


def skip_redundant(c):
    """_skip_redundant_italics_nodes: for ANY input list the italics nodes of the output alternate
    ON, OFF, ON, ... beginning with ON, and the meaning is preserved"""
    p, inp = new_input()

    def inv(S):
        instantiate(S, inp)
        out, pre = as_seq(S.local("new_collection")), prefix(inp.t, S.i)
        st = heap.code_of(S.local("state"))          # -1 None, 0 False, 1 True
        return same_meaning(out, pre) + [
            ("output_alternates", ALT(out) != BAD),
            ("state_tracks_the_automaton", z3.If(st == 1, z3.And(ALT(out) == Q1, LAST(pre) == 1),
                                                 z3.And(ALT(out) == Q0, LAST(pre) == 0)))]
    c.interp.loop_hooks[(MOD + "_skip_redundant_italics_nodes", 1)] = loop_rule(
        "alternate.loop", inv, locals_={"new_collection": ("seq", _InstructionNode), "state": ("obool", None)})
    r = c.call(SC._skip_redundant_italics_nodes, inp, compare=False)
    finish(p, inp)
    c.ensure("italics_nodes_alternate_starting_with_on", ALT(as_seq(r)) != BAD)
    c.ensure("same_text_is_italic", M(as_seq(r)) == M(inp.t))
    c.ensure("same_final_italics_state", LAST(as_seq(r)) == LAST(inp.t))


def close_before_repositioning(c):
    """_close_italics_before_repositioning: given alternating italics nodes, the output never
    repositions while italics are open; meaning preserved; never dereferences a missing ON node"""
    p, inp = new_input()

    def inv(S):
        instantiate(S, inp)
        out, pre = as_seq(S.local("new_collection")), prefix(inp.t, S.i)
        on = zb(S.local("italics_on"))
        lastn = heap.code_of(S.local("last_italics_on_node"))
        good = ALT(pre) != BAD
        return [("segments_closed", z3.Implies(good, z3.And(SEG(out) != BAD, on == (ALT(pre) == Q1), (SEG(out) == Q1) == on,
                                                            LAST(out) == LAST(pre), M(out) == M(pre)))),
                ("on_node_remembered", z3.Implies(on, lastn != NONE_REF))]
    c.interp.loop_hooks[(MOD + "_close_italics_before_repositioning", 1)] = loop_rule(
        "reposition.loop", inv, locals_={"new_collection": ("seq", _InstructionNode), "italics_on": ("bool", None),
                                         "last_italics_on_node": ("oref", _InstructionNode)},
        # (the constructor of the inserted nodes stores their text / position; neither is read by the folds,
        # which use the text at function entry)
        fields=[(_InstructionNode, "text"), (_InstructionNode, "position")])
    r = c.call(SC._close_italics_before_repositioning, inp, compare=False)
    finish(p, inp)
    pre_ok = ALT(inp.t) != BAD
    out = as_seq(r)
    c.ensure("no_repositioning_while_italics_open", z3.Implies(pre_ok, SEG(out) != BAD))
    c.ensure("same_text_is_italic", z3.Implies(pre_ok, M(out) == M(inp.t)))


def ensure_final_closes(c):
    """_ensure_final_italics_node_closes: given well-formed segments the output ends closed"""
    p, inp = new_input()

    def inv(S):
        instantiate(S, inp)
        pre = prefix(inp.t, S.i)
        on = zb(S.local("italics_on"))
        lastn = heap.code_of(S.local("last_italics_on_node"))
        return [("flag_tracks_the_automaton", z3.Implies(SEG(pre) != BAD, on == (SEG(pre) == Q1))),
                ("on_node_remembered", z3.Implies(on, lastn != NONE_REF))]
    c.interp.loop_hooks[(MOD + "_ensure_final_italics_node_closes", 1)] = loop_rule(
        "final_close.loop", inv, locals_={"italics_on": ("bool", None), "last_italics_on_node": ("oref", _InstructionNode)})
    r = c.call(SC._ensure_final_italics_node_closes, inp, compare=False)
    finish(p, inp)
    out = as_seq(r)
    c.ensure("ends_closed", z3.Implies(SEG(inp.t) != BAD, SEG(out) == Q0))
    c.ensure("same_text_is_italic", z3.Implies(SEG(inp.t) != BAD, M(out) == M(inp.t)))


def _noop_inv(inp, pending_is_on):
    """shared invariant of the two no-op removal passes: `to_commit` is a pending ON (OFF) node that
    is not in the output yet"""
    def inv(S):
        instantiate(S, inp)
        out, pre = as_seq(S.local("new_collection")), prefix(inp.t, S.i)
        pend = heap.code_of(S.local("to_commit")) != NONE_REF
        good = SEG(pre) != BAD
        if pending_is_on:
            with_p = z3.And(SEG(pre) == Q1, SEG(out) == Q0, LAST(out) == 0, ty(S.p, heap.code_of(S.local("to_commit"))) == ON)
        else:
            with_p = z3.And(SEG(pre) == Q0, SEG(out) == Q1, LAST(out) == 1, ty(S.p, heap.code_of(S.local("to_commit"))) == OFF)
        return [("pending_node_accounted", z3.Implies(good, z3.And(M(out) == M(pre),
                                                                   z3.If(pend, with_p, z3.And(SEG(out) == SEG(pre), LAST(out) == LAST(pre))))))]
    return inv


def remove_on_off(c):
    """_remove_noop_on_off_italics: removing ON immediately followed by OFF keeps segments and meaning"""
    p, inp = new_input()
    c.interp.loop_hooks[(MOD + "_remove_noop_on_off_italics", 1)] = loop_rule(
        "on_off.loop", _noop_inv(inp, True), locals_={"new_collection": ("seq", _InstructionNode), "to_commit": ("oref", _InstructionNode)})
    r = c.call(SC._remove_noop_on_off_italics, inp, compare=False)
    finish(p, inp)
    out = as_seq(r)
    pre_ok = SEG(inp.t) == Q0
    c.ensure("still_closed", z3.Implies(pre_ok, SEG(out) == Q0))
    c.ensure("same_text_is_italic", z3.Implies(pre_ok, M(out) == M(inp.t)))


def remove_off_on(c):
    """_remove_noon_off_on_italics: removing OFF immediately followed by ON keeps segments and meaning"""
    p, inp = new_input()
    c.interp.loop_hooks[(MOD + "_remove_noon_off_on_italics", 1)] = loop_rule(
        "off_on.loop", _noop_inv(inp, False), locals_={"new_collection": ("seq", _InstructionNode), "to_commit": ("oref", _InstructionNode)})
    r = c.call(SC._remove_noon_off_on_italics, inp, compare=False)
    finish(p, inp)
    out = as_seq(r)
    pre_ok = SEG(inp.t) == Q0
    c.ensure("still_closed", z3.Implies(pre_ok, SEG(out) == Q0))
    c.ensure("same_text_is_italic", z3.Implies(pre_ok, M(out) == M(inp.t)))


# --------------------------------------------------------------------------------------- composition

def _callee(name, pre, post, same_list=False):
    """the contract of a pass as seen from a call site: `pre` is an obligation of the caller,
    `post` is all the caller learns about the result"""
    def h(interp, fn, args, kwargs):
        p = cur()
        inp = as_seq(args[0])
        if pre is not None:
            p.require(f"call_{name}/precondition", pre(inp), kind="call")
        if same_list:
            return args[0]
        out = SymList(z3.Const(p._name(f"out_{name}"), SEQ), _InstructionNode)
        p.assume(post(inp, out.t))
        p.assume(lemma(out.t))
        return out
    return h


CALLEE_CONTRACTS = {
    MOD + "_skip_initial_italics_off_nodes": _callee(
        "skip_initial_off", None, lambda i, o: z3.And(M(o) == M(i), LAST(o) == LAST(i))),
    MOD + "_skip_empty_text_nodes": _callee(
        "skip_empty_text", None, lambda i, o: z3.And(M(o) == M(i), LAST(o) == LAST(i))),
    MOD + "_skip_redundant_italics_nodes": _callee(
        "skip_redundant", None, lambda i, o: z3.And(ALT(o) != BAD, M(o) == M(i), LAST(o) == LAST(i))),
    MOD + "_close_italics_before_repositioning": _callee(
        "close_before_repositioning", lambda i: ALT(i) != BAD, lambda i, o: z3.And(SEG(o) != BAD, M(o) == M(i))),
    MOD + "_ensure_final_italics_node_closes": _callee(
        "ensure_final_closes", lambda i: SEG(i) != BAD, lambda i, o: z3.And(SEG(o) == Q0, M(o) == M(i))),
    MOD + "_remove_noop_on_off_italics": _callee(
        "remove_on_off", lambda i: SEG(i) == Q0, lambda i, o: z3.And(SEG(o) == Q0, M(o) == M(i))),
    MOD + "_remove_noon_off_on_italics": _callee(
        "remove_off_on", lambda i: SEG(i) == Q0, lambda i, o: z3.And(SEG(o) == Q0, M(o) == M(i))),
    # the last pass returns the list it was given and stores only to .text (frame obligation below)
    MOD + "_remove_spaces_at_end_of_the_line": _callee("remove_spaces", None, None, same_list=True),
}


def format_italics(c):
    """_format_italics, from the contracts of its passes only: for EVERY instruction list the result
    has properly closed, alternating italics that never span a repositioning, and exactly the
    non-empty text nodes sent while italics were on are italic"""
    p, inp = new_input()
    r = c.call(SC._format_italics, inp, compare=False)
    out = as_seq(r)
    c.ensure("italics_closed_alternating_never_across_repositioning", SEG(out) == Q0)
    c.ensure("same_text_is_italic", M(out) == M(inp.t))


def open_iff_last_on(c):
    """the lemma about the folds used by every contract above, by induction on snoc:
    base  lemma([])   and   step  lemma(s) => lemma(s + [x])   for arbitrary s, x"""
    p = cur()
    base_axioms(p)
    s = z3.Const("s", SEQ)
    x = z3.Int("x")
    p.assume(snoc(p, s, x))
    c.ensure("base", lemma(EMPTY))
    c.ensure("step", z3.Implies(lemma(s), lemma(z3.Concat(s, z3.Unit(x)))))


def absorbing(whole, i):
    """instance of: a prefix in state BAD makes every extension BAD (induction on the extension; the step is
    the contract `bad_is_absorbing`), so a well-formed sequence has only well-formed prefixes"""
    return z3.Implies(z3.And(i >= 0, i <= z3.Length(whole)),
                      z3.And(z3.Implies(SEG(whole) != BAD, SEG(prefix(whole, i)) != BAD),
                             z3.Implies(ALT(whole) != BAD, ALT(prefix(whole, i)) != BAD)))


def bad_is_absorbing(c):
    """step of the induction behind `absorbing`: F(s) = BAD  =>  F(s + [x]) = BAD, for SEG and ALT"""
    p = cur()
    base_axioms(p)
    s = z3.Const("s", SEQ)
    x = z3.Int("x")
    p.assume(snoc(p, s, x))
    sx = z3.Concat(s, z3.Unit(x))
    c.ensure("seg_step", z3.Implies(SEG(s) == BAD, SEG(sx) == BAD))
    c.ensure("alt_step", z3.Implies(ALT(s) == BAD, ALT(sx) == BAD))


def frame_obligations(g):
    """syntactic obligations the proofs rely on"""
    import inspect
    src = inspect.getsource(SC)
    tree = ast.parse(src)
    # 1. _InstructionNode._type is assigned only in _InstructionNode.__init__
    bad = []

    def scan(node, owner, fname):
        for ch in ast.iter_child_nodes(node):
            if isinstance(ch, ast.ClassDef):
                scan(ch, ch.name, fname)
            elif isinstance(ch, (ast.FunctionDef, ast.AsyncFunctionDef)):
                scan(ch, owner, ch.name if fname is None else fname)
            else:
                if isinstance(ch, ast.Attribute) and isinstance(ch.ctx, (ast.Store, ast.Del)) and ch.attr == "_type":
                    if not (owner == "_InstructionNode" and fname == "__init__"):
                        bad.append(f"{owner}.{fname}:{ch.lineno}")
                scan(ch, owner, fname)
    scan(tree, "<module>", None)
    also = [n.lineno for n in ast.walk(tree) if isinstance(n, ast.Call) and isinstance(n.func, ast.Name)
            and n.func.id in ("setattr", "delattr")]
    # (a side condition of the proofs, not a clause of the property: when it cannot be established the proofs that
    # rely on it are without their footing - undecided, not a violation)
    if not bad and not also:
        g.check("node_type_assigned_only_by_the_constructor", True, None)
    else:
        g.undecided("node_type_assigned_only_by_the_constructor", f"stores outside the constructor: {sorted(set(bad))}, setattr calls: {also}")
    # 2. _remove_spaces_at_end_of_the_line returns its argument, stores only to .text, does not
    #    rebind or mutate the list spine
    fn = next(n for n in tree.body if isinstance(n, ast.FunctionDef) and n.name == "_remove_spaces_at_end_of_the_line")
    param = fn.args.args[0].arg
    stores = {n.attr for n in ast.walk(fn) if isinstance(n, ast.Attribute) and isinstance(n.ctx, ast.Store)}
    rebinds = [n.lineno for n in ast.walk(fn) if isinstance(n, ast.Name) and isinstance(n.ctx, ast.Store) and n.id == param]
    sub_stores = [n.lineno for n in ast.walk(fn) if isinstance(n, ast.Subscript) and isinstance(n.ctx, (ast.Store, ast.Del))]
    mut_calls = [n.lineno for n in ast.walk(fn) if isinstance(n, ast.Call) and isinstance(n.func, ast.Attribute)
                 and n.func.attr in ("append", "extend", "insert", "pop", "remove", "clear", "sort", "reverse", "__setitem__", "__delitem__")]
    returns = [n for n in ast.walk(fn) if isinstance(n, ast.Return)]
    ok = stores <= {"text"} and not rebinds and not sub_stores and not mut_calls and returns and \
        all(isinstance(r.value, ast.Name) and r.value.id == param for r in returns)
    if ok:
        g.check("last_pass_returns_its_argument_and_stores_only_text", True, None)
    else:
        g.undecided("last_pass_returns_its_argument_and_stores_only_text",
                    f"stores {sorted(stores)}, rebinds {rebinds}, subscript stores {sub_stores}, mutating calls {mut_calls}")


PASSES = [
    ("scc._skip_initial_italics_off_nodes", skip_initial_off, SC._skip_initial_italics_off_nodes),
    ("scc._skip_empty_text_nodes", skip_empty_text, SC._skip_empty_text_nodes),
    ("scc._skip_redundant_italics_nodes", skip_redundant, SC._skip_redundant_italics_nodes),
    ("scc._close_italics_before_repositioning", close_before_repositioning, SC._close_italics_before_repositioning),
    ("scc._ensure_final_italics_node_closes", ensure_final_closes, SC._ensure_final_italics_node_closes),
    ("scc._remove_noop_on_off_italics", remove_on_off, SC._remove_noop_on_off_italics),
    ("scc._remove_noon_off_on_italics", remove_off_on, SC._remove_noon_off_on_italics),
]


def prove_passes(ctx):
    for name, contract, fn in PASSES:
        ctx.prove(name, contract, functions=[fn], setup_interp=setup, crosscheck=False)
    ctx.prove("scc.italics_folds/open_iff_last_on", open_iff_last_on, crosscheck=False)
    ctx.prove("scc.italics_folds/bad_is_absorbing", bad_is_absorbing, crosscheck=False)
    ctx.prove("scc._format_italics", format_italics, functions=[SC._format_italics, SC._remove_noop_italics],
              contracts=CALLEE_CONTRACTS, setup_interp=setup, crosscheck=False)
    ctx.frame("scc.italics_frames", frame_obligations)
    ctx.assume("italics passes: nodes are heap objects whose _type is immutable (frame obligation "
               "node_type_assigned_only_by_the_constructor); the folds LAST / ALT / SEG / M are defined by snoc recursion; "
               "two sequence-theory lemma instances are added as axioms: prefix(s,i+1) = prefix(s,i)+[s[i]] and prefix(s,len s) = s; "
               "emptiness of a text is an uninterpreted predicate of the text's identity")
