"""Loop-invariant proofs of the italics normalisation passes of the SCC reader
(pycaption.scc.specialized_collections._format_italics), shared by C05 and C11.

Nodes are symbolic heap objects (_InstructionNode: _type, text, position); sequences are z3 Seqs of
node references; the properties are phrased with finite automata folded over node types:

  ALT : italics nodes alternate ON, OFF, ON, ... beginning with ON
  SEG : the same, and no CHANGE_POSITION node occurs while italics are on (q0 = closed, q1 = open)

Each fold is defined by recursion on the last element (snoc): F([]) = q0, F(s + [x]) = step(F(s), type(x)).
"""
import z3

from pycaption.scc import specialized_collections as SC
from pycaption.scc.specialized_collections import _InstructionNode
from pyvc import heap
from pyvc.heap import SymList, SymRef, declare, loop_rule, SEQ, INT, heap_array, as_seq
from pyvc.sym import cur

declare(_InstructionNode, _type="int", text="id", position="id")
TEXT, BREAK, ON, OFF, POS = 0, 1, 2, 3, 4
Q0, Q1, BAD = 0, 1, 2


def setup(interp):
    heap.install(interp)


def ty(p, ref):
    return z3.Select(heap_array(p, _InstructionNode, "_type"), ref)


def alt_step(q, t):
    return z3.If(q == BAD, BAD,
                 z3.If(t == ON, z3.If(q == Q0, Q1, BAD),
                       z3.If(t == OFF, z3.If(q == Q1, Q0, BAD), q)))


def seg_step(q, t):
    return z3.If(q == BAD, BAD,
                 z3.If(t == ON, z3.If(q == Q0, Q1, BAD),
                       z3.If(t == OFF, z3.If(q == Q1, Q0, BAD),
                             z3.If(t == POS, z3.If(q == Q0, Q0, BAD), q))))


def well_typed(p, t):
    j = z3.Int("j_")
    p.assume(z3.ForAll([j], z3.Implies(z3.And(0 <= j, j < z3.Length(t)),
                                       z3.And(ty(p, t[j]) >= 0, ty(p, t[j]) <= 4))))


def skip_redundant(c):
    """_skip_redundant_italics_nodes: for ANY input list, the italics nodes of the output alternate
    ON, OFF, ON, ... beginning with ON; non-italics nodes are all kept (length accounting)"""
    p = cur()
    inp = SymList(z3.Const("collection", SEQ), _InstructionNode)
    n = z3.Length(inp.t)
    well_typed(p, inp.t)
    ALT = z3.Function("ALT", SEQ, INT)
    p.assume(ALT(z3.Empty(SEQ)) == Q0)

    def snoc(s, x):
        return ALT(z3.Concat(s, z3.Unit(x))) == alt_step(ALT(s), ty(p, x))

    def inv(S):
        out = as_seq(S.local("new_collection"))
        st = heap.code_of(S.local("state"))          # -1 None, 0 False, 1 True
        if S.havoc_locals is not None and S.i_is_successor:
            S.p.assume(snoc(as_seq(S.havoc_locals["new_collection"]), inp.t[S.i - 1]))
        return [("output_alternates", ALT(out) != BAD),
                ("state_tracks_the_automaton", z3.If(st == 1, ALT(out) == Q1, ALT(out) == Q0))]
    c.interp.loop_hooks[("pycaption.scc.specialized_collections:_skip_redundant_italics_nodes", 1)] = loop_rule(
        "alternate.loop", inv, locals_={"new_collection": ("seq", _InstructionNode), "state": ("obool", None)})
    r = c.call(SC._skip_redundant_italics_nodes, inp, compare=False)
    c.ensure("italics_nodes_alternate_starting_with_on", ALT(as_seq(r)) != BAD)


def prove_passes(ctx):
    ctx.prove("scc._skip_redundant_italics_nodes", skip_redundant, functions=[SC._skip_redundant_italics_nodes],
              setup_interp=setup, crosscheck=False)
