"""DFXPWriter.write as a skeleton (shared by C02, C07, C12, C14): which languages are written, in which order, with which
paragraphs, and when the regions are created and cleaned up.

P[n] over caption sets of one to three languages with zero to two captions each x `force` (empty, a language of the set,
an absent code, a code that differs from a language in letter case only).  Everything the method delegates to is a
recording stub (each has its own contract or bounded check: `_recreate_p_tag` times C02, `_recreate_span` C07/C11,
`RegionCreator` bounded in C07/C12, relativization C13); BeautifulSoup is the stub DOM of refs/stubdom.py (A).

  * the span state is reset first; the input is copied before anything is changed (C09 states the rest);
  * written languages: the forced one alone if the set has it, otherwise every language of the set in its order; the
    root xml:lang is the forced code, else the default;
  * one <div xml:lang=...> per written language, appended to <body> in that order; inside it one <p> per caption of THAT
    language, in order, built from that caption, its own style (or the default class), this document and this language;
    a caption is never skipped, whatever its text;
  * the regions of the document are created once, before the first <div>; the clean-up of unused regions runs once,
    after the LAST <div> has been appended (a region only a later language uses must survive);
  * the result is the serialised document.
"""
from bs4 import BeautifulSoup

from pycaption.base import Caption, CaptionList, CaptionNode, CaptionSet
from pycaption.dfxp.base import DFXPWriter, DFXP_DEFAULT_LANGUAGE_CODE, DFXP_DEFAULT_STYLE_ID
from pyvc.verify import args_by_name as N
from refs.stubdom import StubSoup, StubTag

SHAPES = {"one language": {"en-US": 2}, "two languages": {"en-US": 2, "fr-FR": 1}, "empty first": {"de": 0, "en-US": 1},
          "empty last": {"en-US": 1, "xx": 0}, "three languages": {"en": 1, "en-US": 1, "fr": 2},
          # (the reader's default language code is a language like any other: its div says so)
          "default language code first": {"und": 1, "en": 1}, "default language code last": {"en": 2, "und": 1}}


def write_skeleton(c):
    shape = c.pick("caption_set", list(SHAPES))
    counts = SHAPES[shape]
    langs = list(counts)
    force = c.pick("force", ["", "first", "last", "absent", "case"])
    force = {"": "", "first": langs[0], "last": langs[-1], "absent": "zz", "case": langs[-1].swapcase()}[force]
    blank = c.pick("blank_text_captions", [False, True])
    caps = {l: [Caption(10 ** 6 * (k + 1), 10 ** 6 * (k + 2), [CaptionNode.create_text(" " if blank else f"{l} {k}")],
                        style=({"class": "k"} if k else {})) for k in range(n)] for l, n in counts.items()}
    cs = CaptionSet({l: CaptionList(v) for l, v in caps.items()}, styles={"k": {"color": "red"}})
    w = c.new(DFXPWriter, open_span=True, p_style=False, region_creator="stale", write_inline_positioning=False,
              relativize=True, fit_to_screen=True, video_width=None, video_height=None)
    log = []
    soup = StubSoup()

    class Regions:
        def __init__(self, dfxp, caption_set):
            log.append(("regions", dfxp is soup, caption_set is cs))

        def create_document_regions(self):
            log.append(("create_regions", len(soup.find("body").children)))

        def cleanup_regions(self):
            log.append(("cleanup", len(soup.find("body").children)))

    def h_p(interp, fn, a, kw):
        x = N(fn, a, kw)
        p = StubTag("p", {"of": x["caption"]})
        log.append(("p", x["caption"], x["caption_style"], x["dfxp"] is soup, x["caption_set"] is cs, x["lang"]))
        return p
    q = "pycaption.dfxp.base:"
    import copy
    c.interp.overrides[BeautifulSoup] = lambda *a, **kw: soup
    c.interp.overrides[copy.deepcopy] = lambda x, *a: (log.append(("copy", x is cs, c.interp.getattr(w, "open_span"))), x)[1]
    c.interp.contracts.update({
        q + "DFXPWriter._recreate_styling_tag": lambda interp, fn, a, kw: N(fn, a, kw)["dfxp"],
        q + "DFXPWriter._get_region_creator_class": lambda interp, fn, a, kw: Regions,
        q + "DFXPWriter._recreate_p_tag": h_p,
        q + "DFXPWriter._assign_positioning_data": lambda interp, fn, a, kw: None,
        q + "_VerbatimTextFormatter.__init__": lambda interp, fn, a, kw: None,
        "pycaption.base:BaseWriter._relativize_and_fit_to_screen": lambda interp, fn, a, kw: N(fn, a, kw)["layout_info"]})
    r = c.call(DFXPWriter.write, w, cs, force, compare=False)
    want = [force] if force in langs else langs
    import os
    if os.environ.get("DBG_WS"):
        print("DBG", shape, repr(force), blank, log, [(t.name, t.attrs, [x.attrs for x in t.children]) for t in soup.find("body").children], file=__import__("sys").stderr)
    body = soup.find("body")
    divs = [t for t in body.children if isinstance(t, StubTag)]
    c.ensure("span_state_reset_and_input_copied_first", [e_ for e_ in log if e_[0] == "copy"] == [("copy", True, False)])
    c.ensure("root_language_is_the_forced_one_else_the_default",
             soup.find("tt").attrs.get("xml:lang") == (force if force in langs else DFXP_DEFAULT_LANGUAGE_CODE))
    c.ensure("one_div_per_written_language_in_order", [t.name for t in divs] == ["div"] * len(want) and [t.attrs.get("xml:lang") for t in divs] == want)
    for l, d in zip(want, divs):
        ps = [t for t in d.children if isinstance(t, StubTag)]
        c.ensure(f"one_p_per_caption_of_the_language_in_order[{want.index(l)}]",
                 [t.name for t in ps] == ["p"] * len(caps[l]) and all(t.attrs.get("of") is cap for t, cap in zip(ps, caps[l])))
    built = [e_ for e_ in log if e_[0] == "p"]
    c.ensure("paragraphs_built_from_the_caption_its_style_and_its_language",
             [(e_[1], e_[5]) for e_ in built] == [(cap, l) for l in want for cap in caps[l]]
             and all(e_[3] is True and e_[4] is True for e_ in built)
             and all(e_[2] == (cap.style if cap.style else {"class": DFXP_DEFAULT_STYLE_ID}) for e_, cap in zip(built, [cap for l in want for cap in caps[l]])))
    c.ensure("regions_created_once_before_the_first_div", [e_ for e_ in log if e_[0] in ("regions", "create_regions")] == [("regions", True, True), ("create_regions", 0)])
    c.ensure("unused_regions_cleaned_up_once_after_the_last_div", [e_ for e_ in log if e_[0] == "cleanup"] == [("cleanup", len(want))] and log[-1][0] == "cleanup")
    c.ensure("result_is_the_serialised_document", r == ("serialised", soup))


def prove_write_skeleton(ctx):
    ctx.prove("dfxp.DFXPWriter.write[skeleton]", write_skeleton, functions=[DFXPWriter.write], crosscheck=False)


# ------------------------------------------------------------------------------------ SAMIWriter.write

def sami_write_skeleton(c):
    """SAMIWriter.write as a skeleton (shared by C02, C03, C09, C14): a NEW document for every call; the input copied
    before anything is changed; every language of the set in its order, the first one as `primary` throughout; one
    `_recreate_p_tag` per caption of the language, in order, with the sync bookkeeping (`last_time`) starting afresh
    for every language; layouts at the four levels replaced by their relativized / fitted form on the copy; the style
    sheet appended once; the result is the serialised document without its first line.  Two writes in a row on one
    writer object: the second is described by the same clauses (nothing of the first document is left)."""
    import copy
    from pycaption import SAMIWriter
    shape = c.pick("caption_set", list(SHAPES))
    counts = SHAPES[shape]
    langs = list(counts)
    second_shape = c.pick("written_before", [None, "two languages", "one language"])
    log = []

    class SamiSoup(StubSoup):
        def __init__(self):
            super().__init__(("sami", ("head", ("style",)), ("body",)))
            log.append(("document", self))

        def prettify(self, *a, **kw):
            return "<?xml version?>\n<sami>\n" + f"document {id(self)}"

    def build(counts_):
        caps = {l: [Caption(10 ** 6 * (k + 1), 10 ** 6 * (k + 2), [CaptionNode.create_text(f"{l} {k}", layout_info=f"node layout {l} {k}")],
                            layout_info=f"caption layout {l} {k}") for k in range(n)] for l, n in counts_.items()}
        return caps, CaptionSet({l: CaptionList(v, layout_info=f"language layout {l}") for l, v in caps.items()}, layout_info="set layout")
    w = c.new(SAMIWriter, open_span=True, last_time=4321, relativize=True, fit_to_screen=True, video_width=None, video_height=None)
    q = "pycaption.sami:SAMIWriter."

    def h_p(interp, fn, a, kw):
        x = N(fn, a, kw)
        log.append(("p", x["caption"], x["sami"], x["lang"], x["primary"], x["captions"], interp.getattr(w, "last_time"), interp.getattr(w, "open_span")))
        interp.setattr(w, "last_time", 777)
        return x["sami"]
    c.interp.overrides[BeautifulSoup] = lambda *a, **kw: SamiSoup()
    c.interp.overrides[copy.deepcopy] = lambda x, *a: (log.append(("copy", x)), x)[1]
    c.interp.contracts.update({q + "_recreate_p_tag": h_p,
                               q + "_recreate_stylesheet": lambda interp, fn, a, kw: (log.append(("stylesheet", N(fn, a, kw)["caption_set"])), "the style sheet")[1],
                               "pycaption.base:BaseWriter._relativize_and_fit_to_screen": lambda interp, fn, a, kw: (log.append(("fit", N(fn, a, kw)["layout_info"])), ("fitted", N(fn, a, kw)["layout_info"]))[1]})
    if second_shape:
        _, earlier = build(SHAPES[second_shape])
        c.call(SAMIWriter.write, w, earlier, compare=False)
        del log[:]
    caps, cs = build(counts)
    r = c.call(SAMIWriter.write, w, cs, compare=False)
    docs = [e_[1] for e_ in log if e_[0] == "document"]
    c.ensure("a_new_document_for_every_write", len(docs) == 1)
    if len(docs) != 1:
        return
    soup = docs[0]
    c.ensure("input_copied_before_anything_is_changed", [e_ for e_ in log if e_[0] == "copy"] == [("copy", cs)]
             and log.index(("copy", cs)) < min([i for i, e_ in enumerate(log) if e_[0] in ("p", "fit", "stylesheet")] + [len(log)]))
    built = [e_ for e_ in log if e_[0] == "p"]
    order = [(cap, l) for l in langs for cap in caps[l]]
    c.ensure("one_paragraph_per_caption_every_language_in_order", [(e_[1], e_[3]) for e_ in built] == order)
    c.ensure("into_this_document_with_the_first_language_as_primary_and_this_set",
             all(e_[2] is soup and e_[4] == langs[0] and e_[5] is cs for e_ in built))
    firsts = {l: caps[l][0] for l in langs if caps[l]}
    c.ensure("sync_bookkeeping_starts_afresh_for_every_language",
             all((e_[6] is None) == (firsts.get(e_[3]) is e_[1]) and (e_[6] is None or e_[6] == 777) for e_ in built))
    c.ensure("span_state_reset", all(e_[7] is False for e_ in built) and c.interp.getattr(w, "open_span") is False)
    c.ensure("layouts_of_all_four_levels_relativized_and_fitted_on_the_copy",
             cs.layout_info == ("fitted", "set layout") and all(cs.get_layout_info(l) == ("fitted", f"language layout {l}") for l in langs if caps[l])
             and all(cap.layout_info == ("fitted", f"caption layout {l} {k}") and cap.nodes[0].layout_info == ("fitted", f"node layout {l} {k}")
                     for l in langs for k, cap in enumerate(caps[l])))
    style = soup.find("style")
    c.ensure("style_sheet_of_this_set_appended_once", style.children == ["the style sheet"] and [e_ for e_ in log if e_[0] == "stylesheet"] == [("stylesheet", cs)])
    c.ensure("result_is_the_serialised_document_without_its_first_line", r == "<sami>\n" + f"document {id(soup)}")


def prove_sami_write_skeleton(ctx):
    from pycaption import SAMIWriter
    ctx.prove("sami.SAMIWriter.write[skeleton]", sami_write_skeleton, functions=[SAMIWriter.write], crosscheck=False)


# ------------------------------------------------------------------------------------ SinglePositioningDFXPWriter.write

def single_positioning_write(c):
    """SinglePositioningDFXPWriter.write: the set with its positioning replaced (`_create_single_positioning_caption_set`,
    from this writer's positioning) is written by DFXPWriter.write - with the SAME `force` - and its document returned"""
    from pycaption.dfxp.extras import SinglePositioningDFXPWriter as SP
    force = c.pick("force", ["", "fr-FR", "zz"])
    how = c.pick("force_passed", ["positionally", "by keyword", "not at all"])
    w = c.new(SP, default_positioning="the positioning", open_span=False, p_style=False, region_creator=None, write_inline_positioning=False)
    log = []
    c.interp.contracts.update({
        "pycaption.dfxp.extras:SinglePositioningDFXPWriter._create_single_positioning_caption_set":
            lambda interp, fn, a, kw: (log.append(("single", (N(fn, a, kw)["caption_set"], N(fn, a, kw)["positioning"]))), "the repositioned set")[1],
        "pycaption.dfxp.base:DFXPWriter.write": lambda interp, fn, a, kw: (log.append(("write", (N(fn, a, kw)["caption_set"], N(fn, a, kw)["force"]))), "the document")[1]})
    if how == "positionally":
        r = c.call(SP.write, w, "the caption set", force, compare=False)
    elif how == "by keyword":
        r = c.call(SP.write, w, "the caption set", force=force, compare=False)
    else:
        r, force = c.call(SP.write, w, "the caption set", compare=False), ""
    c.ensure("positioning_replaced_by_this_writers", [e_ for e_ in log if e_[0] == "single"] == [("single", ("the caption set", "the positioning"))])
    writes = [e_ for e_ in log if e_[0] == "write"]
    c.ensure("written_once_by_the_dfxp_writer_with_the_same_force", writes == [("write", ("the repositioned set", force))])
    c.ensure("its_document_is_returned", r == "the document")


def prove_single_positioning_write(ctx):
    from pycaption.dfxp.extras import SinglePositioningDFXPWriter as SP
    ctx.prove("dfxp.SinglePositioningDFXPWriter.write", single_positioning_write, functions=[SP.write], crosscheck=False)


# ------------------------------------------------------------------------------------ LegacyDFXPWriter.write

def legacy_write_skeleton(c):
    """LegacyDFXPWriter.write as a skeleton: the input is copied, then concurrent captions are merged on the copy; with
    `force` one language is written (the forced one, else the last of the set), without it every language in order; one
    <div> per written language with one <p> per (merged) caption of that language, in order; every paragraph is placed
    in the one region the document defines - `bottom` - whatever its style said about regions, and keeps the rest of
    its style (the default class when it has none)."""
    import copy
    from pycaption.dfxp.extras import LegacyDFXPWriter as LW, LEGACY_DFXP_DEFAULT_REGION_ID, LEGACY_DFXP_DEFAULT_STYLE_ID
    shape = c.pick("caption_set", list(SHAPES))
    counts = SHAPES[shape]
    langs = list(counts)
    force = c.pick("force", ["", "first", "last", "absent"])
    force = {"": "", "first": langs[0], "last": langs[-1], "absent": "zz"}[force]
    region_key = c.pick("caption_styles_name_a_region", [False, True])
    caps = {l: [Caption(10 ** 6 * (k + 1), 10 ** 6 * (k + 2), [CaptionNode.create_text(f"{l} {k}")],
                        style=(dict({"color": "yellow"}, **({"region": "top"} if region_key else {})) if k else ({"region": "r9"} if region_key else {})))
                for k in range(n)] for l, n in counts.items()}
    cs = CaptionSet({l: CaptionList(v) for l, v in caps.items()})
    w = c.new(LW, open_span=True, p_style=False)
    log = []
    soup = StubSoup()
    q = "pycaption.dfxp.extras:LegacyDFXPWriter."
    c.interp.overrides[BeautifulSoup] = lambda *a, **kw: soup
    c.interp.overrides[copy.deepcopy] = lambda x, *a: (log.append(("copy", x is cs)), x)[1]

    def h_p(interp, fn, a, kw):
        x = N(fn, a, kw)
        log.append(("p", x["caption"], dict(x["caption_style"]), x["dfxp"] is soup))
        return StubTag("p", {"of": x["caption"]})
    c.interp.contracts.update({
        "pycaption.base:merge_concurrent_captions": lambda interp, fn, a, kw: (log.append(("merge", N(fn, a, kw)["caption_set"] is cs, len([e_ for e_ in log if e_[0] == "copy"]))), N(fn, a, kw)["caption_set"])[1],
        q + "_recreate_styling_tag": lambda interp, fn, a, kw: N(fn, a, kw)["dfxp"],
        q + "_recreate_region_tag": lambda interp, fn, a, kw: (log.append(("region", N(fn, a, kw)["region_id"])), N(fn, a, kw)["dfxp"])[1],
        q + "_recreate_p_tag": h_p,
        "pycaption.dfxp.base:_VerbatimTextFormatter.__init__": lambda interp, fn, a, kw: None})
    r = c.call(LW.write, w, cs, force, compare=False)
    want = ([force] if force in langs else [langs[-1]]) if force else langs
    divs = [t for t in soup.find("body").children if isinstance(t, StubTag)]
    c.ensure("copied_then_merged_on_the_copy", [e_ for e_ in log if e_[0] in ("copy", "merge")] == [("copy", True), ("merge", True, 1)])
    c.ensure("one_region_is_defined_bottom", [e_ for e_ in log if e_[0] == "region"] == [("region", LEGACY_DFXP_DEFAULT_REGION_ID)])
    c.ensure("one_div_per_written_language_in_order", [t.attrs.get("xml:lang") for t in divs] == want and all(t.name == "div" for t in divs))
    built = [e_ for e_ in log if e_[0] == "p"]
    order = [cap for l in want for cap in caps[l]]
    c.ensure("one_p_per_caption_of_the_written_languages_in_order", [e_[1] for e_ in built] == order and all(e_[3] for e_ in built)
             and [t.attrs.get("of") for d in divs for t in d.children if isinstance(t, StubTag)] == order)
    c.ensure("every_paragraph_is_placed_in_the_region_that_is_defined", all(e_[2].get("region") == LEGACY_DFXP_DEFAULT_REGION_ID for e_ in built))
    c.ensure("and_keeps_the_rest_of_its_style",
             all({k: v for k, v in e_[2].items() if k != "region"} == ({k: v for k, v in cap.style.items() if k != "region"} if cap.style else {"class": LEGACY_DFXP_DEFAULT_STYLE_ID})
                 for e_, cap in zip(built, order)))
    c.ensure("result_is_the_serialised_document", r == ("serialised", soup))


def prove_legacy_write_skeleton(ctx):
    from pycaption.dfxp.extras import LegacyDFXPWriter as LW
    ctx.prove("dfxp.LegacyDFXPWriter.write[skeleton]", legacy_write_skeleton, functions=[LW.write, LW._force_language], crosscheck=False)


# ------------------------------------------------------------------------------------ SRTWriter.write / MicroDVDWriter.write

def plain_write_skeleton(c):
    """SRTWriter.write and MicroDVDWriter.write as skeletons: the input is copied before anything else; every language of
    the set is handed to `_recreate_lang` exactly once, in the set's order, as that language's own caption list; the
    result is the texts `_recreate_lang` returned, in that order, nothing dropped or repeated, joined by the writer's
    separator (SRT: the multi-language marker line; MicroDVD: nothing).  A second write on the same object gives the same."""
    import copy
    from pycaption.srt import SRTWriter
    from pycaption.microdvd import MicroDVDWriter
    which = c.pick("writer", ["srt", "microdvd"])
    W, sep = {"srt": (SRTWriter, "MULTI-LANGUAGE SRT\n"), "microdvd": (MicroDVDWriter, "")}[which]
    shape = c.pick("caption_set", list(SHAPES))
    counts = SHAPES[shape]
    langs = list(counts)
    caps = {l: CaptionList([Caption(10 ** 6 * (k + 1), 10 ** 6 * (k + 2), [CaptionNode.create_text(f"{l} {k}")]) for k in range(n)])
            for l, n in counts.items()}
    cs = CaptionSet(dict(caps))
    w = c.new(W)
    log = []
    c.interp.overrides[copy.deepcopy] = lambda x, *a: (log.append(("copy", x is cs)), x)[1]
    q = f"{W.__module__}:{W.__name__}._recreate_lang"

    def h_lang(interp, fn, a, kw):
        x = N(fn, a, kw)["captions"]
        l = [k for k in langs if caps[k] is x]
        log.append(("lang", l[0] if l else None, len([e_ for e_ in log if e_[0] == "copy"])))
        return f"<{l[0] if l else '?'}#{len(log)}>"
    c.interp.contracts[q] = h_lang
    from pyvc.verify import require_callees
    require_callees(c.interp.contracts)      # (a renamed callee makes this contract undecided, never a violation)
    for turn in (1, 2):
        del log[:]
        r = c.call(W.write, w, cs, compare=False)
        handed = [e_ for e_ in log if e_[0] == "lang"]
        c.ensure(f"write{turn}/input_copied_first", log[:1] == [("copy", True)] and all(e_[2] == 1 for e_ in handed))
        c.ensure(f"write{turn}/every_language_once_in_order_with_its_own_captions", [e_[1] for e_ in handed] == langs)
        c.ensure(f"write{turn}/result_is_the_language_texts_in_order",
                 r == sep.join(f"<{l}#{k + 2}>" for k, l in enumerate(langs)))


def prove_plain_write_skeleton(ctx):
    from pycaption.srt import SRTWriter
    from pycaption.microdvd import MicroDVDWriter
    ctx.prove("srt.SRTWriter.write+microdvd.MicroDVDWriter.write", plain_write_skeleton,
              functions=[SRTWriter.write, MicroDVDWriter.write], crosscheck=False)


# ------------------------------------------------------------------------------------ SinglePositioningDFXPWriter._create_single_positioning_caption_set

def single_positioning_set(c):
    """SinglePositioningDFXPWriter._create_single_positioning_caption_set (C12, C14, C09): P[n] over the caption-set shapes
    of this module, with layouts of their own at every level and a text-align in one style.  `merge_concurrent_captions`
    is used by contract (C19; here the identity on a logged copy), `deepcopy` is a logged real copy.

      * the caller's set is copied first and everything happens on the copy: the set handed in keeps every layout and style
        it had;
      * in the result EVERY level carries the one positioning asked for - the set, every language, every caption of every
        language, every node - and no style keeps a `text-align` that could override it; languages, their order and
        their captions are those of the set."""
    import copy
    from pycaption.dfxp.extras import SinglePositioningDFXPWriter as SP
    from pycaption.geometry import Layout, Point, Size, UnitEnum
    shape = c.pick("caption_set", list(SHAPES))
    counts = SHAPES[shape]
    mk = lambda k: Layout(origin=Point(Size(k, UnitEnum.PERCENT), Size(k, UnitEnum.PERCENT)))
    target = mk(77)
    caps = {l: CaptionList([Caption(10 ** 6 * (k + 1), 10 ** 6 * (k + 2),
                                    [CaptionNode.create_style(True, {"italics": True}, layout_info=mk(3)), CaptionNode.create_text(f"{l} {k}", layout_info=mk(4)),
                                     CaptionNode.create_break(layout_info=mk(5)), CaptionNode.create_style(False, {"italics": True})], layout_info=mk(2))
                            for k in range(n)], layout_info=mk(1)) for l, n in counts.items()}
    styles = {"s": {"text-align": "right", "color": "red"}, "t": {"color": "blue"}}
    cs = CaptionSet(dict(caps), styles={k: dict(v) for k, v in styles.items()}, layout_info=mk(6))
    log = []
    real_deepcopy = copy.deepcopy
    c.interp.overrides[copy.deepcopy] = lambda x, *a: (log.append(("copy", x is cs)), real_deepcopy(x))[1]
    c.interp.contracts["pycaption.base:merge_concurrent_captions"] = lambda interp, fn, a, kw: (log.append(("merge", N(fn, a, kw)["caption_set"] is not cs)), N(fn, a, kw)["caption_set"])[1]
    from pyvc.verify import require_callees
    require_callees(c.interp.contracts)
    r = c.call(SP._create_single_positioning_caption_set, cs, target, compare=False)
    c.ensure("copied_first_and_merged_on_the_copy", log[:2] == [("copy", True), ("merge", True)] and r is not cs)
    c.ensure("the_set_handed_in_keeps_its_layouts_and_styles",
             cs.layout_info == mk(6) and all(cs.get_layout_info(l) == mk(1) for l, n in counts.items() if n) and dict(cs.get_styles()) == styles
             and all(cap.layout_info == mk(2) and [n_.layout_info for n_ in cap.nodes] == [mk(3), mk(4), mk(5), None] for l in counts for cap in cs.get_captions(l)))
    c.ensure("same_languages_in_order_with_their_captions", r.get_languages() == list(counts)
             and all([x.get_text() for x in r.get_captions(l)] == [f"{l} {k}" for k in range(n)] for l, n in counts.items()))
    c.ensure("every_level_carries_the_one_positioning",
             r.layout_info == target and all(r.get_layout_info(l) == target for l, n in counts.items() if n)      # (a language without captions shows no layout: `get_layout_info` answers None for an empty list)
             and all(cap.layout_info == target and all(n_.layout_info == target for n_ in cap.nodes) for l in counts for cap in r.get_captions(l)))
    c.ensure("no_style_keeps_a_text_align", all("text-align" not in st for _, st in r.get_styles()) and dict(r.get_styles()) == {"s": {"color": "red"}, "t": {"color": "blue"}})


def prove_single_positioning_set(ctx):
    from pycaption.dfxp.extras import SinglePositioningDFXPWriter as SP
    ctx.prove("dfxp.SinglePositioningDFXPWriter._create_single_positioning_caption_set", single_positioning_set,
              functions=[SP._create_single_positioning_caption_set], crosscheck=False)
