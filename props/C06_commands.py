"""Transition contracts of SCCReader._translate_command for the codes that decide caption times
(pop-on: End Of Caption, Erase Displayed Memory; roll-up: Carriage Return), shared by C06 and C16.

The reader state is real (`SCCReader` instance, `NotifyingDict`, `deque`, `PopOnCue`), the collaborators whose
own contracts are proved elsewhere are stubs that record their calls: the caption stash (create_and_store,
correct_last_timing - C05 / C16), the time translator (get_time - C06), the node creator factory.  Times are
symbolic reals; the state is ANY state of the abstraction {queue holds 0 or 1 displayed cue} x {buffer
empty or not}."""
from collections import deque

import z3

from pycaption.scc import SCCReader
from pycaption.scc.specialized_collections import NotifyingDict, PopOnCue
from pyvc.sym import SNum, cur


class Buffer:
    def __init__(self, name, empty):
        self.name, self.empty = name, empty
        self.commands = []

    def is_empty(self):
        return self.empty

    def interpret_command(self, command, next_command=None):
        self.commands.append(command)

    def __deepcopy__(self, memo):
        return self                     # (A: deepcopy gives an equal buffer; identity is what the log records)

    def __repr__(self):
        return f"<buffer {self.name}>"


class Stash:
    def __init__(self):
        self.calls = []

    def create_and_store(self, buffer, start, end=0):
        self.calls.append(("create_and_store", buffer, start, end))

    def correct_last_timing(self, end_time, force=False):
        self.calls.append(("correct_last_timing", end_time, force))


class Clock:
    def __init__(self, t):
        self.t, self.calls = t, 0

    def get_time(self):
        self.calls += 1
        return self.t


class Factory:
    def __init__(self):
        self.made = []

    def new_creator(self):
        b = Buffer(f"new{len(self.made)}", True)
        self.made.append(b)
        return b

    def from_list(self, rows):
        b = Buffer("from_list", False)
        self.made.append(("from_list", list(rows)))
        return b


def world(c, mode, buffer_empty, queue_len, simulate=False):
    T = SNum(z3.Real("now"), "float") if c.symbolic else c.real("now")
    t_old = c.real("time_before", 0, 10 ** 10)
    s0 = c.real("displayed_cue_start", 0, 10 ** 10)
    rd = SCCReader.__new__(SCCReader)
    rd.caption_stash, rd.time_translator, rd.node_creator_factory = Stash(), Clock(c.real("now", 0, 10 ** 10)), Factory()
    rd.buffer_dict = NotifyingDict()
    bufs = {k: Buffer(k, True) for k in ("pop", "paint", "roll")}
    bufs[mode] = Buffer(mode, buffer_empty)
    for k, v in bufs.items():
        rd.buffer_dict[k] = v
    rd.buffer_dict.set_active(mode)
    shown = Buffer("displayed", False)
    rd.pop_ons_queue = deque([PopOnCue(buffer=shown, start=s0, end=0)] if queue_len else [])
    rd.roll_rows, rd.roll_rows_expected, rd.simulate_roll_up = [], 2, simulate
    rd.time = t_old
    rd.last_command, rd.double_starter = "", False
    return rd, bufs[mode], shown, s0, t_old


def end_of_caption(c):
    """942f: the displayed cue (if any) is stored with its own start and end = now; a non-empty buffer becomes
    the displayed cue starting now, end open; the reader's time is now"""
    empty = c.pick("buffer_empty", [False, True])
    ql = c.pick("displayed_cues", [0, 1])
    rd, buf, shown, s0, t_old = world(c, "pop", empty, ql)
    now = rd.time_translator.t
    c.call(SCCReader._translate_command, rd, "942f", compare=False)
    calls = rd.caption_stash.calls
    c.ensure("time_is_the_instant_of_the_code", rd.time is now and rd.time_translator.calls == 1)
    if ql:
        c.ensure("displayed_cue_ends_now_with_its_own_start",
                 len(calls) == 1 and calls[0][0] == "create_and_store" and calls[0][1] is shown and calls[0][2] is s0 and calls[0][3] is now)
    else:
        c.ensure("nothing_stored_when_nothing_is_displayed", calls == [])
    q = list(rd.pop_ons_queue)
    if empty:
        c.ensure("empty_buffer_shows_nothing", q == [] and rd.buffer is buf)
    else:
        c.ensure("buffer_becomes_the_displayed_cue_starting_now",
                 len(q) == 1 and q[0].buffer is buf and q[0].start is now and q[0].end == 0)
        c.ensure("a_new_buffer_is_loaded_next", rd.buffer is not buf and rd.buffer.is_empty())


def erase_displayed_memory(c):
    """942c: the displayed cue is stored with its own start and end = the instant of the code; with nothing
    displayed the code goes to the buffer like any other"""
    ql = c.pick("displayed_cues", [0, 1])
    rd, buf, shown, s0, t_old = world(c, "pop", c.pick("buffer_empty", [False, True]), ql)
    now = rd.time_translator.t
    c.call(SCCReader._translate_command, rd, "942c", compare=False)
    calls = rd.caption_stash.calls
    if ql:
        c.ensure("displayed_cue_ends_at_the_instant_of_the_code",
                 len(calls) == 1 and calls[0][1] is shown and calls[0][2] is s0 and calls[0][3] is now and not rd.pop_ons_queue)
    else:
        c.ensure("nothing_stored_when_nothing_is_displayed", calls == [] and buf.commands == ["942c"])
    c.ensure("loading_buffer_untouched", rd.buffer is buf)


def carriage_return(c):
    """94ad in roll-up mode with text in the buffer: the row is stored starting at the time configured
    before, the reader's time becomes now, and the previous captions are ended now (force)"""
    sim = c.pick("simulate_roll_up", [False, True])
    empty = c.pick("buffer_empty", [False, True])
    rd, buf, shown, s0, t_old = world(c, "roll", empty, 0, simulate=sim)
    now = rd.time_translator.t
    c.call(SCCReader._translate_command, rd, "94ad", compare=False)
    calls = rd.caption_stash.calls
    if empty:
        c.ensure("empty_row_stores_nothing", calls == [] and rd.time is t_old)
        return
    c.ensure("row_stored_with_the_start_configured_before",
             len(calls) == 2 and calls[0][0] == "create_and_store" and calls[0][2] is t_old and calls[0][3] == 0
             and (calls[0][1] is buf if not sim else calls[0][1].name == "from_list"))
    c.ensure("time_is_the_instant_of_the_code", rd.time is now)
    c.ensure("previous_captions_end_now", calls[1] == ("correct_last_timing", now, True))
    c.ensure("a_new_row_is_loaded_next", rd.buffer is not buf and rd.buffer.is_empty())
    if not sim:
        c.ensure("rows_are_not_accumulated_without_roll_up_simulation", rd.roll_rows == [])
    else:
        c.ensure("window_holds_the_row", rd.roll_rows == [buf])


def prove_commands(ctx):
    fns = [SCCReader._translate_command, SCCReader._pop_on, SCCReader._roll_up]
    ctx.prove("scc.SCCReader._translate_command[942f End Of Caption]", end_of_caption, functions=fns, crosscheck=False)
    ctx.prove("scc.SCCReader._translate_command[942c Erase Displayed Memory]", erase_displayed_memory, functions=fns, crosscheck=False)
    ctx.prove("scc.SCCReader._translate_command[94ad Carriage Return]", carriage_return, functions=fns, crosscheck=False)
    ctx.assume("command transitions: the caption stash, the time translator and the node creator factory are stubs that "
               "record their calls (their own contracts: create_and_store / correct_last_timing - C05, C16; get_time - C06); "
               "the reader state is any state with at most one displayed pop-on cue")
