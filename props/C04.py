"""C04 - read text equals authored text: entities decoded once, markup stripped."""
import html
import itertools
import random
import re

from pycaption import DFXPReader, MicroDVDReader, SAMIReader, SRTReader, WebVTTReader
from pyvc.sym import SStr, Opaque
from refs import parsers

SAFE = "abcdefghijkmnoqrsuvwxyzABC0123456789.,!?"      # no & < > ; - whitespace, no l t g p (entity letters)


def webvtt_decode_entity(c):
    """WebVTTReader._decode on  <safe text> &entity; <safe text>: every reference is decoded exactly once
    (the ampersand last, so '&amp;lt;' gives the four characters '&lt;')"""
    ent = c.pick("entity", ["&amp;", "&lt;", "&gt;", "&lrm;", "&rlm;", "&nbsp;", "&amp;lt;", "&amp;gt;", "&amp;amp;",
                            "&amp;nbsp;", "&lt;&gt;", "&amp;lt;i&amp;gt;", "&"])
    want = {"&amp;": "&", "&lt;": "<", "&gt;": ">", "&lrm;": "\u200e", "&rlm;": "\u200f", "&nbsp;": "\u00a0", "&amp;lt;": "&lt;",
            "&amp;gt;": "&gt;", "&amp;amp;": "&amp;", "&amp;nbsp;": "&nbsp;", "&lt;&gt;": "<>", "&amp;lt;i&amp;gt;": "&lt;i&gt;",
            "&": "&"}[ent]
    if c.symbolic:
        t1 = SStr([Opaque("T1", None, SAFE, lo=1)])
        t2 = SStr([Opaque("T2", None, SAFE, lo=1)])
    else:
        t1, t2 = c.text("T1"), c.text("T2")
    r = c.call(WebVTTReader._decode, c.new(WebVTTReader), t1 + ent + t2, compare=False)
    if c.symbolic:
        atoms = SStr.lift(r).atoms
        ok = len(atoms) == 3 and atoms[0] is t1.atoms[0] and atoms[2] is t2.atoms[0] and getattr(atoms[1], "s", None) == want
        c.ensure("decoded_exactly_once", ok)
    else:
        c.ensure("decoded_exactly_once", r == t1 + want + t2)


# ------------------------------------------------------------------------------------ bounded part

def norm(s):
    return " ".join(s.replace("\u00a0", " ").split())


WORDS = ["NOTE", "STYLE", "I'd", "o'clock", "'em", "the", "'90s", "'cause", "alpha", "beta", "R&D", "x<y", "a>b", "\"q\"", "it's", "&amp;", "&lt;", "<i>", "5", "ok.", "émigré", "—", "100%", "a;b", "#1",
         "&apos;", "&quot;", "&nbsp;", "&#39;", "&#x27;", "&copy;", "&amp;lt;", "&gt", "AT&T;",
         # brackets of every kind are text (a sound description, a placeholder), in every format
         "{sighs}", "{Door", "slams}", "{name}", "[music]", "(off)", "{x", "y}"]


def authored(rng):
    from props import samples
    lines = []
    for _ in range(rng.choice([1, 2, 3])):
        if rng.random() < 0.4:
            # (single blanks only: the serialisers below split and re-join the words of a line)
            lines.append(" ".join(samples.rich_line(rng, pipe_ok=False).split()))
        else:
            # (now and then a long line: a producer may wrap it over a dozen source lines, one word each)
            lines.append(" ".join(rng.choice(WORDS) for _ in range(rng.choice([1, 2, 4, 4, 13]))))
    return lines


def xml_escape(rng, s, allow_numeric=True, html=False):
    """one of the spellings a producer may use for each character: the predefined XML entities (&apos; and
    &quot; included), numeric references and, for SAMI (html=True), HTML's named entities"""
    from html.entities import codepoint2name
    out = []
    for ch in s:
        if ch == "'" and rng.random() < 0.4:
            out.append(rng.choice(["&apos;", "&#39;", "&#x27;"]))
            continue
        if html and ord(ch) > 127 and ord(ch) in codepoint2name and rng.random() < 0.5:
            out.append(f"&{codepoint2name[ord(ch)]};")
            continue
        # numeric spellings: decimal (also zero-padded), hexadecimal with lower- or upper-case digits (also zero-padded);
        # HTML - not XML - allows the hexadecimal marker in upper case as well (&#X3C;)
        numeric = [f"&#{ord(ch)};", f"&#x{ord(ch):x};", f"&#0{ord(ch)};", f"&#00{ord(ch)};", f"&#x{ord(ch):X};", f"&#x00{ord(ch):x};"] + \
            ([f"&#X{ord(ch):X};", f"&#X{ord(ch):x};"] if html else [])
        if ch in "&<>":
            forms = [{"&": "&amp;", "<": "&lt;", ">": "&gt;"}[ch]]
            if allow_numeric:
                forms += numeric
            out.append(rng.choice(forms))
        elif ch == '"' and rng.random() < 0.3:
            out.append("&quot;")
        elif ord(ch) > 127 and allow_numeric and rng.random() < 0.5:
            out.append(rng.choice(numeric))
        else:
            out.append(ch)
    return "".join(out)


def wrap_words(rng, escaped_words, style_open, style_close, wrap):
    """join already escaped words; optionally wrap some in a style element and break source lines"""
    out = []
    i = 0
    while i < len(escaped_words):
        if style_open and rng.random() < 0.3:
            k = rng.choice([1, 2])
            out.append(style_open + " ".join(escaped_words[i:i + k]) + style_close)
            i += k
        else:
            out.append(escaped_words[i])
            i += 1
    # source line breaks only between two plain words (next to an inline element they are a recorded finding)
    s = out[0]
    for prev, w in zip(out, out[1:]):
        plain = not (prev.endswith(">") or w.startswith("<"))
        s += (rng.choice(["\n      ", " ", "\n"]) if (wrap and plain) else " ") + w
    return s


_READERS = {}


def bounded(ctx, b):
    rng = random.Random(ctx.seed)
    n = 150 if not ctx.thorough else 2500
    for i in range(n):
        cues = [authored(rng) for _ in range(rng.choice([1, 2]))]
        wrap = rng.random() < 0.5
        # ---- DFXP
        ps = []
        for j, lines in enumerate(cues):
            body = "<br/>".join(wrap_words(rng, [xml_escape(rng, w) for w in ln.split(" ")],
                                           *rng.choice([('<span tts:fontStyle="italic">', "</span>"), ('<span tts:color="red">', "</span>"), ("", "")]), wrap) for ln in lines)
            pad = "\n     " if wrap else ""
            ps.append(f'<p begin="{j + 1}s" end="{j + 2}s">{pad}{body}{pad}</p>')
        dfxp = '<tt xmlns="http://www.w3.org/ns/ttml" xmlns:tts="http://www.w3.org/ns/ttml#styling" xml:lang="en"><body><div>' + "\n".join(ps) + "</div></body></tt>"
        # ---- SAMI
        sy = []
        for j, lines in enumerate(cues):
            body = rng.choice(["<br>", "<br/>", "<BR>"]).join(wrap_words(rng, [xml_escape(rng, w, html=True) for w in ln.split(" ")],
                                                                       *rng.choice([("<i>", "</i>"), ("<b>", "</b>"), ("<u>", "</u>"), ("", "")]), wrap) for ln in lines)
            sy.append(f'<SYNC start="{(j + 1) * 1000}"><P class="ENCC">{body}</P></SYNC>')
        sami = ('<SAMI><HEAD><STYLE TYPE="text/css"><!-- .ENCC {Name: English; lang: en-US;} --></STYLE></HEAD><BODY>' + "\n".join(sy) + "</BODY></SAMI>")
        # ---- WebVTT
        vt = ["WEBVTT", ""]
        voice = rng.choice([None, "Bob", "Mary Ann"])
        vclass = rng.choice(["", "", ".loud", ".first.loud", ".a.b.c"])
        for j, lines in enumerate(cues):
            # (cue identifiers and comment blocks are not cue text)
            if rng.random() < 0.3:
                vt += [rng.choice(["NOTE checked by the editor", "NOTE\ntwo lines\nof comment", "NOTE"]), ""]
            if rng.random() < 0.4:
                vt.append(rng.choice([str(j + 1), f"intro-{j}", "cue id with blanks", "1a"]))
            vt.append(f"00:0{j + 1}.000 --> 00:0{j + 2}.000")
            for k, ln in enumerate(lines):
                words = [w.replace("&", "&amp;").replace("<", "&lt;").replace(">", "&gt;") for w in ln.split(" ")]
                txt = wrap_words(rng, words, *rng.choice([("<i>", "</i>"), ("<b>", "</b>"), ("<c.yellow>", "</c>"), ("<u>", "</u>"),
                                                          ("<ruby>", "</ruby>"), ("<lang en>", "</lang>"), ("<00:01.500>", ""), ("", "")]), False)
                if voice and k == 0:
                    txt = f"<v{vclass} {voice}>{txt}"
                vt.append(txt)
            vt.append("")
        eol = rng.choice(["\n", "\n", "\r\n", "\r"])          # the line terminators text files come with
        webvtt = "\n".join(vt).replace("\n", eol)
        srt = "\n".join(f"{j + 1}\n00:00:0{j + 1},000 --> 00:00:0{j + 2},000\n" + "\n".join(lines) + "\n" for j, lines in enumerate(cues))
        # (every other document opens with a cue at frame 0; its text may be a number)
        mdvd = "\n".join(f"{{{25 * (j + i % 2)}}}{{{25 * (j + 2)}}}" + "|".join(lines) for j, lines in enumerate(cues)) + "\n"
        srt, mdvd = srt.replace("\n", eol), mdvd.replace("\n", eol)
        docs = {"dfxp": (DFXPReader, dfxp, "en"), "sami": (SAMIReader, sami, "en-US"), "webvtt": (WebVTTReader, webvtt, "en-US"),
                "srt": (SRTReader, srt, "en-US"), "microdvd": (MicroDVDReader, mdvd, "und")}
        for fmt, (R, doc, lang) in docs.items():
            exp = [[norm(x) for x in lines] for lines in cues]
            if fmt == "webvtt" and voice:
                exp = [[norm(f"{voice}: {lines[0]}")] + [norm(x) for x in lines[1:]] for lines in cues]

            def one(R=R, doc=doc, lang=lang, exp=exp, fmt=fmt):
                # (one reader object per format for all documents of the run: the text read depends on the document only)
                caps = _READERS.setdefault(R, R()).read(doc).get_captions(lang)
                got = [[norm(x) for x in c_.get_text().split("\n")] for c_ in caps]
                return got == exp, {"format": fmt, "read": got, "expected": exp, "doc": doc[-700:]}
            b.guard((fmt, i), one, sample={"format": fmt, "lines": cues, "wrapped": wrap})


def bounded_span_shapes(ctx, b):
    """inline elements in the places a producer may put them: a line break as the last child of a styled span that is
    followed by text, spans that hold nothing but a blank / a no-break space / a line break"""
    I, B, U = 'tts:fontStyle="italic"', 'tts:fontWeight="bold"', 'tts:textDecoration="underline"'
    shapes = [(f'<span {I}>first line<br/></span>second line', ["first line", "second line"]),
              (f'<span {I}>first<br/>line<br/></span><span {B}>second</span> line', ["first", "line", "second line"]),
              (f'<span {B}>one</span><span {I}> </span><span {U}>two</span>', ["one two"]),
              (f'upper<span {I}><br/></span>lower', ["upper", "lower"]),
              (f'100<span {B}>&#160;</span>km and so on', ["100 km and so on"]),
              (f'plain<br/><span {I}>styled</span><br/>', ["plain", "styled"]),
              (f'<span {I}><span {B}>both<br/></span></span>after', ["both", "after"]),
              # one sentence wrapped over fourteen source lines, one word each (and one wrapped inside a styled span)
              ("\n        ".join("we are going to need a much bigger boat than this one chief said".split()), ["we are going to need a much bigger boat than this one chief said"]),
              (f'<span {I}>' + "\n   ".join("one two three four five six seven eight nine ten eleven twelve".split()) + '</span>', ["one two three four five six seven eight nine ten eleven twelve"])]
    for k, (body, lines) in enumerate(shapes):
        dfxp = ('<tt xmlns="http://www.w3.org/ns/ttml" xmlns:tts="http://www.w3.org/ns/ttml#styling" xml:lang="en"><body><div>'
                f'<p begin="1s" end="2s">before</p><p begin="3s" end="4s">{body}</p><p begin="5s" end="6s">after</p></div></body></tt>')
        html = body
        for attr, tag in ((I, "i"), (B, "b"), (U, "u")):
            html = html.replace(f"<span {attr}>", f"<{tag}>")
        # (the HTML spelling closes the elements in the order they were opened in these shapes: innermost first)
        closers = []
        out = ""
        i = 0
        while i < len(html):
            if html.startswith("</span>", i):
                out += f"</{closers.pop()}>"
                i += 7
                continue
            if html[i] == "<" and html[i + 1] in "ibu" and html[i + 2] == ">":
                closers.append(html[i + 1])
            out += html[i]
            i += 1
        sami = ('<SAMI><HEAD><STYLE TYPE="text/css"><!-- .ENCC {Name: English; lang: en-US;} --></STYLE></HEAD><BODY>'
                f'<SYNC start="1000"><P class="ENCC">before</P></SYNC><SYNC start="3000"><P class="ENCC">{out}</P></SYNC>'
                '<SYNC start="5000"><P class="ENCC">after</P></SYNC></BODY></SAMI>')
        for fmt, R, doc, lang in (("dfxp", DFXPReader, dfxp, "en"), ("sami", SAMIReader, sami, "en-US")):
            def one(R=R, doc=doc, lang=lang, lines=lines):
                caps = _READERS.setdefault(R, R()).read(doc).get_captions(lang)
                got = [[norm(x) for x in c_.get_text().split("\n") if norm(x)] for c_ in caps]
                exp = [["before"], lines, ["after"]]
                return got == exp, {"read": got, "expected": exp, "doc": doc[-400:]}
            b.guard(("span-shape", fmt, k), one, sample={"format": fmt, "markup": body})


def bounded_linebreak_next_to_inline(ctx, b):
    """a source line break between a word and an inline element, or between two inline elements"""
    d = ('<tt xmlns="http://www.w3.org/ns/ttml" xmlns:tts="http://www.w3.org/ns/ttml#styling" xml:lang="en"><body><div>'
         '<p begin="1s" end="2s">one\n   <span tts:fontStyle="italic">two</span>\n   <span tts:fontStyle="italic">three</span>\n   four</p></div></body></tt>')
    s = ('<SAMI><HEAD><STYLE TYPE="text/css"><!-- .ENCC {Name: English; lang: en-US;} --></STYLE></HEAD><BODY>'
         '<SYNC start="1000"><P class="ENCC">one\n   <i>two</i>\n   <i>three</i>\n   four</P></SYNC></BODY></SAMI>')
    for fmt, R, doc, lang in (("dfxp", DFXPReader, d, "en"), ("sami", SAMIReader, s, "en-US")):
        def one(R=R, doc=doc, lang=lang):
            got = norm(R().read(doc).get_captions(lang)[0].get_text())
            return got == "one two three four", {"read": got, "expected": "one two three four"}
        b.guard(("inline-linebreak", fmt), one, sample={"format": fmt, "source_line_break_next_to_inline_element": True})


def bounded_webvtt_decode(ctx, b):
    """WebVTTReader._decode against the cue-text rules on every short string over a markup alphabet"""
    r = WebVTTReader()
    alpha = ["&", ";", "a", "m", "p", "l", "t", "g", "<", ">", "/", "i", "v", " ", "x"]
    L = 4 if not ctx.thorough else 5

    def reference(s):
        s = s.strip()
        s = re.sub(r"<v(?:\.[^\s.>]+)*[ \t]([^>]*)>", lambda m: m.group(1) + ": ", s)
        s = re.sub(r"</?(?:c|i|b|u|v|ruby|rt|lang)(?:[\s.][^>]*)?>|</?\d+:\d{2}(?::\d{2})?\.\d{3}[^>]*>", "", s)
        return _vtt_once(s)
    for n in range(1, L + 1):
        for tup in itertools.product(alpha, repeat=n):
            s = "".join(tup)
            b.guard(("decode", s), lambda s=s: (r._decode(s) == reference(s), {"cue_text": s, "decoded": r._decode(s), "expected": reference(s)}),
                    nontrivial=("&" in s or "<" in s), sample=s if s == "&lt;" else None)


def bounded_webvtt_tags(ctx, b):
    """tag-shaped cue text: every known tag name with no / one / several classes and with an annotation, voice
    tags, and unknown tags whose names extend a known one (they stay literal)"""
    r = WebVTTReader()
    known = ["c", "i", "b", "u", "ruby", "rt", "lang"]
    # (tag names are case-sensitive in WebVTT: <I>, <B>, <V Bob> are not cue tags and stay literal)
    unknown = ["cat", "br", "b-roll", "v-neck", "i/o", "c#", "u+1", "rt:x", "vv", "langx", "img", "I", "B", "U", "C", "Ruby", "RT", "LANG", "V"]
    suffixes = ["", ".x", ".x.y", " Bob", ".x Bob", ".x.y Bob", "\tBob"]
    for name in known + unknown + ["v"]:
        for suf in suffixes:
            for close in (True, False):
                tag = f"<{name}{suf}>"
                text = f"say {tag}hello" + (f"</{name}>" if close else "") + " &amp; bye"
                if name == "v":
                    m = re.fullmatch(r"(?:\.[^\s.>]+)*[ \t](.*)", suf)
                    exp = f"say {m.group(1)}: hello &amp; bye".replace("&amp;", "&") if m else f"say hello & bye"
                    if not m and suf and not suf.startswith("."):
                        exp = f"say {tag}hello & bye"
                elif name in known:
                    exp = "say hello & bye"
                else:
                    exp = f"say {tag}hello" + (f"</{name}>" if close else "") + " & bye"
                b.guard(("tag", text), lambda text=text, exp=exp: (r._decode(text) == exp, {"cue_text": text, "decoded": r._decode(text), "expected": exp}),
                        sample=text if name == "b-roll" and suf == "" and close else None)
    # several voice spans on one line: each becomes its own 'Name: ' prefix
    for text, exp in [("<v Bob>Hi!</v> <v Ann>Hello, <i>Bob</i>.</v>", "Bob: Hi! Ann: Hello, Bob."),
                      ("<v.loud Bob>one <v Mary Ann>two <v.a.b C>three", "Bob: one Mary Ann: two C: three"),
                      ("<v A>x</v><v A>y</v>", "A: xA: y"), ("- <v Bob>yes - <v\tAnn>no", "- Bob: yes - Ann: no")]:
        b.guard(("voices", text), lambda text=text, exp=exp: (r._decode(text) == exp, {"cue_text": text, "decoded": r._decode(text), "expected": exp}),
                sample=text)


def _vtt_once(s):
    ent = {"amp": "&", "lt": "<", "gt": ">", "lrm": "\u200e", "rlm": "\u200f", "nbsp": "\u00a0"}
    return re.sub(r"&(amp|lt|gt|lrm|rlm|nbsp);", lambda m: ent[m.group(1)], s)


def run(ctx):
    ctx.prove("webvtt.WebVTTReader._decode/entities", webvtt_decode_entity, functions=[WebVTTReader._decode], crosscheck=False)
    ctx.bounded("webvtt_decode", "WebVTTReader._decode on every string up to length 4 (thorough: 5) over & ; a m p l t g < > / i v "
                "space x against the cue-text rules (voice tag -> 'Name: ', known tags vanish, unknown tags literal, each "
                "reference decoded once)", lambda b: bounded_webvtt_decode(ctx, b), exhaustive=True)
    ctx.bounded("webvtt_tags", "tag-shaped WebVTT cue text: every known tag name with no / one / several classes and with an "
                "annotation, voice tags with 0-2 classes, unknown tags whose names extend a known one: voice -> 'Name: ', "
                "known tags vanish, unknown tags stay literal", lambda b: bounded_webvtt_tags(ctx, b), exhaustive=True)
    ctx.bounded("span_shapes", "DFXP / SAMI paragraphs with a line break as the last child of a styled span followed by text, and "
                "spans holding only a blank, a no-break space or a line break: the lines a consumer would display",
                lambda b: bounded_span_shapes(ctx, b))
    ctx.bounded("linebreak_next_to_inline", "DFXP / SAMI paragraph 'one\\n <i>two</i>\\n <i>three</i>\\n four'",
                lambda b: bounded_linebreak_next_to_inline(ctx, b))
    ctx.bounded("documents", "documents generated from an abstract caption model by independent serialisers for the five text "
                "formats: texts with & < > quotes and non-ASCII, references spelled named / decimal / hex, style tags around "
                "words, voice tags, br / | / newline line breaks, text wrapped over several indented source lines: the text "
                "read equals the authored lines (trimmed, whitespace runs collapsed)", lambda b: bounded(ctx, b))
    ctx.trust("A: bs4 / html.parser / lxml decode each reference of the (intermediate) markup exactly once; regex substitution "
              "with a match is outside the structured-string rules (only 'definitely no match' is decided symbolically)")
    ctx.assume("DFXP / SAMI text extraction walks BeautifulSoup trees: bounded only")
