"""C18 - geometry values compare, hash, parse and print consistently."""
import itertools
import random
import re
from decimal import Decimal, ROUND_HALF_EVEN
from fractions import Fraction

import z3

from pycaption.exceptions import CaptionReadSyntaxError
from pycaption.geometry import (Size, Point, Stretch, Padding, Alignment, Layout, UnitEnum,
                                HorizontalAlignmentEnum, VerticalAlignmentEnum, TwoDimensionalObject)
from pyvc import relang
from pyvc.sym import SInt
from pyvc.verify import Raised

GEOM = (Size, Point, Stretch, Padding, Alignment, Layout)


# ----------------------------------------------------------------------------- symbolic builders

def mk_size(c, n):
    return c.new(Size, value=c.real(n + ".v", 0, 10 ** 6), unit=c.enum(n + ".u", UnitEnum))


def mk_point(c, n):
    return c.new(Point, x=mk_size(c, n + ".x"), y=mk_size(c, n + ".y"))


def mk_stretch(c, n):
    return c.new(Stretch, horizontal=mk_size(c, n + ".h"), vertical=mk_size(c, n + ".v"))


def mk_padding(c, n):
    return c.new(Padding, before=mk_size(c, n + ".b"), after=mk_size(c, n + ".a"),
                 start=mk_size(c, n + ".s"), end=mk_size(c, n + ".e"))


def mk_alignment(c, n):
    h = c.enum(n + ".h", HorizontalAlignmentEnum) if c.pick(n + ".h?", [True, False]) else None
    v = c.enum(n + ".v", VerticalAlignmentEnum) if c.pick(n + ".v?", [True, False]) else None
    return c.new(Alignment, horizontal=h, vertical=v)


def mk_layout(c, n, shape=None, wv=None):
    shape = shape if shape is not None else c.pick(n + ".shape", list(itertools.product([0, 1], repeat=4)))
    al = None
    if shape[3]:
        # None-ness inside an Alignment is covered by the Alignment contracts; here both parts are set
        al = c.new(Alignment, horizontal=c.enum(n + ".al.h", HorizontalAlignmentEnum),
                   vertical=c.enum(n + ".al.v", VerticalAlignmentEnum))
    return c.new(Layout,
                 origin=mk_point(c, n + ".o") if shape[0] else None,
                 extent=mk_stretch(c, n + ".e") if shape[1] else None,
                 padding=mk_padding(c, n + ".p") if shape[2] else None,
                 alignment=al, webvtt_positioning=wv)


MK = {Size: mk_size, Point: mk_point, Stretch: mk_stretch, Padding: mk_padding, Alignment: mk_alignment,
      Layout: mk_layout}
FIELDS = {Size: ("value", "unit"), Point: ("x", "y"), Stretch: ("horizontal", "vertical"),
          Padding: ("before", "after", "start", "end"), Alignment: ("horizontal", "vertical"),
          Layout: ("origin", "extent", "padding", "alignment")}


def struct_eq(c, a, b):
    """the statement's notion of equality: same class and all geometric components equal"""
    if a is None or b is None:
        return a is None and b is None
    if type(a) in GEOM:
        if type(a) is not type(b):
            return False
        return c.conj(*[struct_eq(c, getattr(a, f), getattr(b, f)) for f in FIELDS[type(a)]])
    if type(b) in GEOM:
        return False
    return a == b               # numbers / enum members


def others_for(c, K):
    """what `other` may be: same class (symbolic), None, falsy / truthy foreign objects, another class"""
    kind = c.pick("other", ["same", "none", "zero", "str", "otherclass", "self"])
    return kind


# ----------------------------------------------------------------------------- contracts of callees

_UF = {}


def uf(name, *sorts):
    if name not in _UF:
        _UF[name] = z3.Function(name, *sorts)
    return _UF[name]


def size_code(s):
    return s.value, s.unit


def h_size_eq(interp, fn, args, kw):
    from pyvc.verify import SymCase
    a, b = args
    if not isinstance(b, Size):
        return False
    return (a.value == b.value) & (a.unit == b.unit) if not isinstance(a.value == b.value, bool) or \
        not isinstance(a.unit == b.unit, bool) else ((a.value == b.value) and (a.unit == b.unit))


def h_size_hash(interp, fn, args, kw):
    (a,) = args
    f = uf("H_Size", z3.RealSort(), z3.IntSort(), z3.IntSort())
    from pyvc.sym import zreal, SEnum
    u = a.unit.t if isinstance(a.unit, SEnum) else z3.IntVal(list(UnitEnum).index(a.unit))
    return SInt(f(zreal(a.value), u))


def h_size_bool(interp, fn, args, kw):
    return True


SIZE_CONTRACTS = {"pycaption.geometry:Size.__eq__": h_size_eq, "pycaption.geometry:Size.__hash__": h_size_hash,
                  "pycaption.geometry:Size.__bool__": h_size_bool}


def _mk_eq_handler(K):
    def h(interp, fn, args, kw):
        a, b = args

        class _C:          # minimal 'c' for struct_eq
            @staticmethod
            def conj(*xs):
                from pyvc import sym
                xs = [x for x in xs if x is not True]
                if any(x is False for x in xs):
                    return False
                return True if not xs else sym.mkbool(z3.And(*[sym.zbool(x) for x in xs]))
        return struct_eq(_C, a, b) if isinstance(b, K) else False
    return h


def _mk_hash_handler(K):
    def h(interp, fn, args, kw):
        (a,) = args
        # hash = uninterpreted function of the hashes of the components (congruence carries equality)
        parts = []
        for f in FIELDS[K]:
            v = getattr(a, f)
            parts.append(interp.overrides[hash](v).t if not isinstance(interp.overrides[hash](v), int)
                         else z3.IntVal(interp.overrides[hash](v)))
        fn_ = uf("H_" + K.__name__, *([z3.IntSort()] * (len(parts) + 1)))
        return SInt(fn_(*parts))
    return h


LEVEL1 = dict(SIZE_CONTRACTS)
LEVEL2 = dict(SIZE_CONTRACTS)
for _K in (Point, Stretch, Padding, Alignment):
    LEVEL2[f"pycaption.geometry:{_K.__name__}.__eq__"] = _mk_eq_handler(_K)
    LEVEL2[f"pycaption.geometry:{_K.__name__}.__hash__"] = _mk_hash_handler(_K)
LEVEL2["pycaption.geometry:Point.__bool__"] = lambda *a: True
LEVEL2["pycaption.geometry:Stretch.__bool__"] = lambda *a: True


# ----------------------------------------------------------------------------- eq / hash contracts

def eq_contract(K):
    def contract(c):
        kind = c.pick("other", ["same", "none", "zero", "str", "otherclass", "self"])
        if K is Layout:
            # every None-ness pattern of the receiver; the other side has the same pattern or
            # differs in exactly one component (presence); webvtt_positioning differs on purpose
            shapes = list(itertools.product([0, 1], repeat=4))
            sa = c.pick("shape", shapes if kind == "same" else [(1, 1, 1, 1), (0, 0, 0, 0)])
            a = mk_layout(c, "a", sa, wv="line:5%")
        else:
            a = MK[K](c, "a")
        if kind == "same" and K is Layout:
            flip = c.pick("flip", [None, 0, 1, 2, 3])
            sb = tuple((1 - x) if i == flip else x for i, x in enumerate(sa))
            b = mk_layout(c, "b", sb, wv=None)
        elif kind == "same":
            b = MK[K](c, "b")
        elif kind == "self":
            b = a
        elif kind == "otherclass":
            OK = Point if K is not Point else Stretch
            b = MK[OK](c, "b")
        else:
            b = {"none": None, "zero": 0, "str": "10%"}[kind]
        r = c.call(K.__eq__, a, b, compare="truth")
        c.ensure("eq_iff_same_class_and_components", c.iff(c.as_bool(r), struct_eq(c, a, b)))
        if K is Layout:
            r2 = c.call(K.__ne__, a, b, compare="truth")
            c.ensure("ne_is_negation", c.iff(c.as_bool(r2), c.neg(struct_eq(c, a, b))))
    return contract


def hash_contract(K):
    def contract(c):
        if K is Layout:
            shape = c.pick("shape", list(itertools.product([0, 1], repeat=4)))
            # (the raw WebVTT cue settings a layout may carry are not part of its value: __eq__ ignores them,
            # so equal layouts may differ there - and must still hash alike)
            a, b = mk_layout(c, "a", shape), mk_layout(c, "b", shape, wv=c.pick("b.cue_settings", [None, "line:10% align:start"]))
        else:
            a, b = MK[K](c, "a"), MK[K](c, "b")
        c.assume(struct_eq(c, a, b))
        ha = c.call(K.__hash__, a, compare=False)      # hashes are uninterpreted in the VCs
        hb = c.call(K.__hash__, b, compare=False)
        c.ensure("equal_values_have_equal_hashes", ha == hb)
        c.ensure("hash_is_int", c.is_int(ha))
    return contract


def truthiness(c):
    """Size / Point / Stretch instances are always truthy (their __eq__ relies on `other and ...`)"""
    K = c.pick("class", [Size, Point, Stretch])
    a = MK[K](c, "a")
    r = c.call(K.__bool__, a)
    c.ensure("truthy", c.as_bool(r))


# ----------------------------------------------------------------------------- receiver unchanged

def snapshot(o, depth=0):
    if type(o) in GEOM:
        return (type(o).__name__, id(o)) + tuple((f, snapshot(getattr(o, f))) for f in vars(o))
    return ("leaf", id(o))


def h_fresh_percent_size(interp, fn, args, kw):
    """contract of Size.as_percentage_of as far as frames are concerned: returns a Size (the
    receiver itself when already relative, else a new one) or raises; modifies nothing"""
    from pyvc.sym import cur, SNum
    from pycaption.exceptions import RelativizationError
    p = cur()
    k = p.choose(3, "size.rel")
    if k == 0:
        raise RelativizationError("no reference")
    if k == 1:
        return args[0]
    v = p.fresh_real("relv")
    p.assume(v >= 0)
    o = Size.__new__(Size)
    o.value, o.unit = SNum(v, "float"), UnitEnum.PERCENT
    return o


def _h_fresh(K, builder):
    def h(interp, fn, args, kw):
        from pyvc.sym import cur
        from pycaption.exceptions import RelativizationError
        if cur().choose(2, "rel"):
            raise RelativizationError("no reference")
        return builder()
    return h


class _Fresh:
    """fresh symbolic values created inside callee contracts"""
    n = 0

    @classmethod
    def size(cls):
        from pyvc.sym import cur, SNum
        v = cur().fresh_real("fv")
        cur().assume(v >= 0)
        o = Size.__new__(Size)
        o.value, o.unit = SNum(v, "float"), UnitEnum.PERCENT
        return o

    @classmethod
    def point(cls):
        o = Point.__new__(Point)
        o.x, o.y = cls.size(), cls.size()
        return o

    @classmethod
    def stretch(cls):
        o = Stretch.__new__(Stretch)
        o.horizontal, o.vertical = cls.size(), cls.size()
        return o

    @classmethod
    def padding(cls):
        o = Padding.__new__(Padding)
        o.before, o.after, o.start, o.end = cls.size(), cls.size(), cls.size(), cls.size()
        return o


FRAME_L1 = {"pycaption.geometry:Size.as_percentage_of": h_fresh_percent_size}
FRAME_L2 = dict(FRAME_L1)
FRAME_L2.update({"pycaption.geometry:Point.as_percentage_of": _h_fresh(Point, _Fresh.point),
                 "pycaption.geometry:Stretch.as_percentage_of": _h_fresh(Stretch, _Fresh.stretch),
                 "pycaption.geometry:Padding.as_percentage_of": _h_fresh(Padding, _Fresh.padding)})
NO_MUTATION_OPS = {
    "Size.as_percentage_of": {}, "Size.__add__": {}, "Size.__sub__": {}, "Size.__abs__": {},
    "Point.as_percentage_of": FRAME_L1, "Stretch.as_percentage_of": FRAME_L1, "Padding.as_percentage_of": FRAME_L1,
    "Point.add_stretch": {}, "Point.__sub__": {},
    "Layout.as_percentage_of": FRAME_L2, "Layout.fit_to_screen": {},
}


def no_mutation(op):
    """relativizing / fitting / arithmetic return new values: every field of the receiver (and of
    everything reachable from it and from the arguments) is the same object afterwards.  Each
    method is checked against the frame contracts of its callees (modular)."""
    def contract(c):
        W = c.pick("W", [None, "sym"])
        H = c.pick("H", [None, "sym"])
        W = c.int("Wv", 1, 10 ** 5) if W else None
        H = c.int("Hv", 1, 10 ** 5) if H else None
        from pycaption.exceptions import RelativizationError
        if op == "Size.as_percentage_of":
            recv = mk_size(c, "a")
            args, kw, others = (), {"video_width": W, "video_height": H}, []
        elif op in ("Point.as_percentage_of", "Stretch.as_percentage_of", "Padding.as_percentage_of"):
            K = {"Point": Point, "Stretch": Stretch, "Padding": Padding}[op.split(".")[0]]
            recv = MK[K](c, "a")
            args, kw, others = (W, H), {}, []
        elif op == "Layout.as_percentage_of":
            recv = mk_layout(c, "a")
            args, kw, others = (W, H), {}, []
        elif op == "Layout.fit_to_screen":
            recv = c.new(Layout, origin=mk_pct_point(c, "a.o") if c.pick("org", [True, False]) else None,
                         extent=mk_pct_stretch(c, "a.e") if c.pick("ext", [True, False]) else None,
                         padding=None, alignment=None, webvtt_positioning=None)
            args, kw, others = (), {}, []
        elif op == "Point.add_stretch":
            recv, st = mk_pct_point(c, "a"), mk_pct_stretch(c, "s")
            args, kw, others = (st,), {}, [st]
        elif op == "Point.__sub__":
            recv, other = mk_pct_point(c, "a"), mk_pct_point(c, "b")
            args, kw, others = (other,), {}, [other]
        else:
            recv, other = mk_size(c, "a"), mk_size(c, "b")
            args, kw, others = ((other,) if op != "Size.__abs__" else ()), {}, [other]
        before = [snapshot(recv)] + [snapshot(o) for o in others]
        cls, meth = op.split(".")
        K = {"Size": Size, "Point": Point, "Stretch": Stretch, "Padding": Padding, "Layout": Layout}[cls]
        c.call(getattr(K, meth), recv, *args, raises=(RelativizationError, ValueError), **kw)
        after = [snapshot(recv)] + [snapshot(o) for o in others]
        c.ensure("receiver_and_arguments_unchanged", before == after)
    return contract


def mk_pct_size(c, n):
    return c.new(Size, value=c.real(n + ".v", 0, 100), unit=UnitEnum.PERCENT)


def mk_pct_point(c, n):
    return c.new(Point, x=mk_pct_size(c, n + ".x"), y=mk_pct_size(c, n + ".y"))


def mk_pct_stretch(c, n):
    return c.new(Stretch, horizontal=mk_pct_size(c, n + ".h"), vertical=mk_pct_size(c, n + ".v"))


# ----------------------------------------------------------------------------- parsing

ALPHABET = "0123456789.+-eE%pxmct "      # (exponent characters: e and E)


def size_pattern_of_code():
    """the pattern object Size.from_string compiles, captured from a real call"""
    seen = []
    orig = re.compile

    def spy(p, flags=0):
        r = orig(p, flags)
        seen.append(r)
        return r
    re.compile = spy
    try:
        Size.from_string("0")
    finally:
        re.compile = orig
    if len(seen) != 1:
        raise RuntimeError(f"Size.from_string compiled {len(seen)} patterns")
    return seen[0]


def grammar_size():
    """non-negative decimal number followed by px | em | % | c | pt, or a bare 0 (from the statement)"""
    d = relang.chars("0123456789")
    num = z3.Concat(z3.Plus(d), z3.Option(z3.Concat(z3.Re("."), z3.Plus(d))))
    unit = z3.Union(z3.Re("px"), z3.Re("em"), z3.Re("%"), z3.Re("c"), z3.Re("pt"))
    return z3.Union(z3.Concat(num, unit), z3.Re("0"))


def size_language(g):
    pat = size_pattern_of_code()
    try:
        code_lang = relang.to_re(pat, ALPHABET, mode="search")
    except Exception as e:
        g.undecided("Size.from_string/language", f"pattern outside the translator: {e}")
        return
    st, wit = relang.equivalent(code_lang, grammar_size())
    if st == "proved":
        g.check("Size.from_string accepts exactly the grammar (regular-language equivalence over the "
                "property's alphabet, z3 RegLan)", True)
    elif st == "refuted":
        # replay natively: the string is in exactly one of the two languages
        try:
            Size.from_string(wit)
            accepted = True
        except CaptionReadSyntaxError:
            accepted = False
        in_grammar = re.fullmatch(r"(\d+(\.\d+)?(px|em|%|c|pt))|0", wit) is not None
        g.check("Size.from_string/language", accepted == in_grammar,
                {"string": wit, "accepted_by_code": accepted, "in_grammar": in_grammar})
        if accepted == in_grammar:
            g.undecided("Size.from_string/language", f"solver witness {wit!r} does not replay")
    else:
        g.undecided("Size.from_string/language", f"solver: {wit}")


def size_from_string(c):
    """value and unit of an accepted string: the decimal it shows, as the nearest double"""
    form = c.pick("form", ["int", "dec", "zero"])
    unit = c.pick("unit", list(UnitEnum))
    if form == "zero":
        s, exact, eunit = "0", 0, UnitEnum.PIXEL
    else:
        I = c.digits("I", lo=1)
        s, exact = I, c.ratio(I.val, 1)
        if form == "dec":
            F = c.digits("F", lo=1)
            s, exact = s + "." + F, exact + c.ratio(F.val, F.scale)
        s, eunit = s + unit.value, unit
    r = c.call(Size.from_string, s)
    c.ensure("is_size", isinstance(r, Size))
    c.ensure("unit", r.unit == eunit)
    v = c.exact(r.value)
    u = Fraction(1, 2 ** 53)
    c.ensure("value_is_nearest_double", c.conj(v - exact <= u * exact, exact - v <= u * exact))


def size_rejects(c):
    """strings of the right pieces in a wrong arrangement are rejected with the syntax error"""
    bad = c.pick("bad", ["nounit", "sign", "dotfirst", "dotlast", "space", "unknownunit", "two units", "empty"])
    I = c.digits("I", lo=1)
    s = {"nounit": "1" + I, "sign": "-" + I + "px", "dotfirst": "." + I + "px", "dotlast": I + ".px",
         "space": I + " px", "unknownunit": I + "pc", "two units": I + "px%", "empty": ""}[bad]
    r = c.call(Size.from_string, s, raises=(CaptionReadSyntaxError,))
    c.ensure("rejected_with_syntax_error", isinstance(r, Raised))


def two_sizes(c):
    """Point / Stretch from 'h v': first is horizontal/x, second vertical/y; wrong counts raise"""
    K = c.pick("class", [Point, Stretch])
    n = c.pick("count", [1, 2, 3])
    u1, u2 = c.pick("units", [(u, UnitEnum.PERCENT) for u in UnitEnum] + [(UnitEnum.PIXEL, u) for u in UnitEnum])
    A, B = c.digits("A", lo=1), c.digits("B", lo=1)
    c.assume(c.conj(A.val < 10 ** 15, B.val < 10 ** 15))      # integers below 2**53 are doubles
    parts = [A + u1.value, B + u2.value, "3px"][:n]
    s = parts[0]
    for p in parts[1:]:
        s = s + " " + p
    r = c.call(K.from_xml_attribute, s, raises=(ValueError,))
    if n != 2:
        c.ensure("wrong_count_rejected", isinstance(r, Raised))
        return
    c.ensure("accepted", isinstance(r, K))
    first, second = (r.x, r.y) if K is Point else (r.horizontal, r.vertical)
    c.ensure("first_is_horizontal", c.conj(first.unit == u1, c.exact(first.value) == A.val))
    c.ensure("second_is_vertical", c.conj(second.unit == u2, c.exact(second.value) == B.val))


def padding_shorthand(c):
    """1-4 sizes expand in TTML order: before, end, after, start"""
    n = c.pick("count", [1, 2, 3, 4, 5])
    D = [c.digits(f"D{i}", lo=1) for i in range(5)]
    c.assume(c.conj(*[d.val < 10 ** 9 for d in D]))
    s = D[0] + "px"
    for i in range(1, n):
        s = s + " " + D[i] + "px"
    r = c.call(Padding.from_xml_attribute, s, raises=(ValueError,))
    if n == 5:
        c.ensure("five_values_rejected", isinstance(r, Raised))
        return
    v = [d.val for d in D]
    exp = {1: (v[0], v[0], v[0], v[0]), 2: (v[0], v[1], v[0], v[1]), 3: (v[0], v[1], v[2], v[1]),
           4: (v[0], v[1], v[2], v[3])}[n]          # (before, end, after, start)
    got = (r.before, r.end, r.after, r.start)
    for name, g, e in zip(("before", "end", "after", "start"), got, exp):
        c.ensure(name, c.conj(c.exact(g.value) == e, g.unit == UnitEnum.PIXEL))


# ----------------------------------------------------------------------------- bounded part

def ref_print(v, unit):
    q = Decimal(v).quantize(Decimal("0.01"), rounding=ROUND_HALF_EVEN)
    s = format(q, "f")
    if "." in s:
        s = s.rstrip("0").rstrip(".")
    return s + unit.value


def bounded_printing(ctx, b):
    rng = random.Random(ctx.seed)
    vals = [0.0, 0.004, 0.005, 0.0049, 1.0, 1.5, 2.675, 10.0, 10.001, 10.004, 10.005, 9.995, 9.999, 30.004,
            33.333333, 59.99999999999999, 60.0, 99.999, 99.99, 100.0, 100.001, 200.0049, 1e-7, 12345.678, 0.125,
            0.375, 1e6, 999999.995, 64.005 * 100 / 640]
    vals += [rng.uniform(0, 100) for _ in range(200 if not ctx.thorough else 5000)]
    vals += [round(rng.uniform(0, 1000), rng.choice([0, 1, 2, 3])) for _ in range(200 if not ctx.thorough else 5000)]
    vals += [k * 10 + d for k in range(0, 12) for d in (0.001, 0.004, 0.0049999, 0.005, 0.0051, 0.994, 0.995, 0.9951)]
    for v in vals:
        for unit in UnitEnum:
            def one(v=v, unit=unit):
                s = Size(v, unit)
                printed = str(s)
                exp = ref_print(v, unit)
                if not (printed == exp and s.to_xml_attribute() == exp):
                    return False, {"value": v, "unit": unit.value, "printed": printed, "expected": exp}
                back = Size.from_string(printed)
                ok = back == Size(round(v, 2), unit) and str(back) == printed
                return ok, None if ok else {"value": v, "printed": printed, "reparsed": repr(back)}
            b.guard((v, unit.value), one, sample={"value": v, "unit": unit.value})
    # a size that was PARSED prints like the equal size that was constructed, whatever spelling it was parsed from
    # (1.239px, 10.000%, 007pt, 1.50em ...): what is printed is a matter of the value and the unit
    units = {"px": UnitEnum.PIXEL, "em": UnitEnum.EM, "%": UnitEnum.PERCENT, "c": UnitEnum.CELL, "pt": UnitEnum.PT}
    for num in ["1.239", "10.000", "1.50", "007", "0.004", "0.005", "12", "12.0", "12.10", "3.14159", "100.999", "000.5", "9.995", "33.3333"]:
        for suffix, unit in units.items():
            def parsed(num=num, suffix=suffix, unit=unit):
                got = Size.from_string(num + suffix)
                same = Size(float(num), unit)
                ok = str(got) == str(same) == ref_print(float(num), unit) and got.to_xml_attribute() == same.to_xml_attribute() \
                    and got == same and hash(got) == hash(same) and str(Size.from_string(str(got))) == str(got)
                return ok, {"parsed_from": num + suffix, "printed": str(got), "constructed_prints": str(same)}
            b.guard(("parsed", num, suffix), parsed, sample={"parsed_from": num + suffix})
    # composite to_xml_attribute
    for _ in range(50):
        a, bb, cc, d = (Size(rng.choice(vals), UnitEnum.PERCENT) for _ in range(4))
        b.guard(("composite", a.value, bb.value, cc.value, d.value), lambda: _composite(a, bb, cc, d),
                sample={"sizes": [a.value, bb.value, cc.value, d.value]})


def _composite(a, bb, cc, d):
    if True:
        ok = Point(a, bb).to_xml_attribute() == f"{ref_print(a.value, a.unit)} {ref_print(bb.value, bb.unit)}" and \
            Stretch(a, bb).to_xml_attribute() == f"{ref_print(a.value, a.unit)} {ref_print(bb.value, bb.unit)}" and \
            Padding(a, bb, cc, d).to_xml_attribute() == " ".join(ref_print(x.value, x.unit) for x in (a, d, bb, cc))
        p2 = Padding.from_xml_attribute(Padding(a, bb, cc, d).to_xml_attribute())
        r = lambda s_: Size(round(s_.value, 2), s_.unit)
        ok2 = (p2.before, p2.after, p2.start, p2.end) == (r(a), r(bb), r(cc), r(d))
        return bool(ok and ok2), {"sizes": [a.value, bb.value, cc.value, d.value], "reparsed": repr(p2)}


def bounded_parser_strings(ctx, b):
    """all strings up to length L over the property's alphabet: accepted iff in the grammar"""
    L = 4 if not ctx.thorough else 5
    alpha = "019.+-e%pxmct "
    gram = re.compile(r"(\d+(\.\d+)?(px|em|%|c|pt))|0")
    for n in range(0, L + 1):
        for tup in itertools.product(alpha, repeat=n):
            s = "".join(tup)
            try:
                r = Size.from_string(s)
                acc = True
            except CaptionReadSyntaxError:
                acc = False
            want = gram.fullmatch(s) is not None
            b.case(s, acc == want, {"string": s, "accepted": acc, "in_grammar": want},
                   nontrivial=want or any(ch.isdigit() for ch in s), sample=s if want else None)


def bounded_pairs(ctx, b):
    """the equality / hash relation over a grid exhaustive in units, alignments and None-ness"""
    rng = random.Random(ctx.seed + 1)
    mags = [0.0, 1.0, 10.0, 33.33, 100.0]
    sizes = [Size(m, u) for m in mags[:3] for u in UnitEnum]
    # values that differ by less than the printing precision are still different values
    sizes += [Size(m, u) for m in (0.004, 1.004, 100 / 3) for u in (UnitEnum.PERCENT, UnitEnum.PIXEL)] + [Size(33.33, UnitEnum.PERCENT)]
    vals = list(sizes)
    near = [Size(1.0, UnitEnum.PERCENT), Size(1.004, UnitEnum.PERCENT)]
    pts = [Point(a, bb) for a in sizes[:4] for bb in sizes[:4]] + [Point(a, bb) for a in near for bb in near]
    als = [Alignment(h, v) for h in list(HorizontalAlignmentEnum) + [None] for v in list(VerticalAlignmentEnum) + [None]]
    pads = [Padding(a, a, bb, bb) for a in sizes[:3] for bb in sizes[:3]]
    strs = [Stretch(a, bb) for a in sizes[:4] for bb in sizes[:4]] + [Stretch(a, bb) for a in near for bb in near]
    lays = [Layout(origin=o, extent=e, padding=p, alignment=al)
            for o in [None] + pts[:3] for e in [None] + strs[:3] for p in [None] + pads[:2] for al in [None] + als[:4]]
    import copy

    def comps(o):
        if type(o) in GEOM:
            return (type(o).__name__,) + tuple(comps(getattr(o, f)) for f in FIELDS[type(o)])
        return o
    lays_wv = [Layout(origin=o, webvtt_positioning=w) for o in [None, pts[0]] for w in (None, "line:10%", "align:start")]
    # paddings built with edges left out (they default to 0%) are the same values as those that spell the zeros out
    z0 = Size(0, UnitEnum.PERCENT)
    a1 = Size(5, UnitEnum.PERCENT)
    pads_partial = [Padding(before=a1), Padding(a1, Size(0, UnitEnum.PERCENT), Size(0, UnitEnum.PERCENT), Size(0, UnitEnum.PERCENT)),
                    Padding(start=a1), Padding(z0, z0, a1, z0), Padding(), Padding(z0, z0, z0, Size(0, UnitEnum.PERCENT)),
                    Padding(after=a1, end=a1), Padding(z0, a1, z0, a1), Padding(before=a1, after=None, start=None, end=a1)]
    lays_partial = [Layout(padding=pd) for pd in pads_partial] + [Layout(origin=pts[0], padding=pd) for pd in pads_partial[:4]]
    for group in (sizes, pts, als, pads, strs, rng.sample(lays, 60), lays_wv, pads_partial, lays_partial):
        for x in group:
            for y in group + [None, 0, "10%", copy.deepcopy(x)]:
                want = type(x) is type(y) and comps(x) == comps(y)
                got = bool(x == y)
                ok = got == want and (not want or hash(x) == hash(y))
                if type(x) is Layout:
                    ok = ok and bool(x != y) == (not want)
                b.case((repr(comps(x)), repr(comps(y)) if type(y) in GEOM else repr(y)), ok,
                       {"x": repr(x), "y": repr(y), "eq": got, "expected": want}, nontrivial=want or type(x) is type(y))


def bounded_histories(ctx, b):
    """values stay values along a history of uses: hash / compare / print a value, transform it (relativize, fit),
    and the result still equals - and hashes like - a value built afresh from the same components; the receiver
    still equals and hashes like its own fresh rebuild"""
    import copy
    pct, px = UnitEnum.PERCENT, UnitEnum.PIXEL

    def rebuild(o):
        if isinstance(o, Layout):
            return Layout(origin=rebuild(o.origin), extent=rebuild(o.extent), padding=rebuild(o.padding), alignment=rebuild(o.alignment),
                          webvtt_positioning=o.webvtt_positioning)
        if isinstance(o, Point):
            return Point(rebuild(o.x), rebuild(o.y))
        if isinstance(o, Stretch):
            return Stretch(rebuild(o.horizontal), rebuild(o.vertical))
        if isinstance(o, Padding):
            return Padding(rebuild(o.before), rebuild(o.after), rebuild(o.start), rebuild(o.end))
        if isinstance(o, Alignment):
            return Alignment(o.horizontal, o.vertical)
        if isinstance(o, Size):
            return Size(o.value, o.unit)
        return o
    layouts = [Layout(origin=Point(Size(x, u), Size(y, u)), extent=e, padding=pd, alignment=al)
               for u in (pct, px) for x, y in ((10, 10), (50, 80), (0, 0))
               for e in (None, Stretch(Size(95, u), Size(95, u)), Stretch(Size(20, u), Size(10, u)))
               for pd in (None, Padding(Size(1, u), Size(2, u), Size(3, u), Size(4, u)))
               for al in (None, Alignment(HorizontalAlignmentEnum.LEFT, VerticalAlignmentEnum.TOP))]
    uses = {"hash": lambda v: hash(v), "eq": lambda v: v == copy.deepcopy(v), "repr": lambda v: repr(v),
            "set": lambda v: {v: 1}[v], "none": lambda v: None}
    steps = {"fit": lambda v: v.fit_to_screen(), "relativize": lambda v: v.as_percentage_of(640, 360),
             "relativize+fit": lambda v: v.as_percentage_of(640, 360).fit_to_screen(), "fit twice": lambda v: v.fit_to_screen().fit_to_screen()}
    for li, L in enumerate(layouts):
        for un, use in uses.items():
            for sn, step in steps.items():
                def one(L=L, use=use, step=step):
                    v = copy.deepcopy(L)
                    before = rebuild(v)
                    use(v)
                    try:
                        r = step(v)
                    except Exception as e:
                        if type(e).__name__ in ("RelativizationError", "ValueError"):
                            return True, None
                        raise
                    use(v)
                    fresh = rebuild(r)
                    ok = r == fresh and hash(r) == hash(fresh) and v == before and hash(v) == hash(before) and len({r, fresh}) == 1
                    return ok, {"receiver": repr(L), "result": repr(r), "result_equals_fresh_rebuild": r == fresh,
                                "hashes": (hash(r), hash(fresh)), "receiver_unchanged": v == before}
                b.guard(("history", li, un, sn), one, sample={"layout": repr(L), "use_before": un, "transformation": sn}, nontrivial=True)


def run(ctx):
    P = ctx.prove
    ctx.bounded("histories", "layouts (2 units x 3 origins x 3 extents x with / without padding and alignment) that are hashed / "
                "compared / printed / used as a dict key and then relativized and / or fitted: the result equals and hashes like "
                "a value rebuilt from its components, the receiver like its own rebuild", lambda b: bounded_histories(ctx, b))
    for K in (Size,):
        P(f"geometry.{K.__name__}.__eq__", eq_contract(K), functions=[K.__eq__])
        P(f"geometry.{K.__name__}.__hash__", hash_contract(K), functions=[K.__hash__])
    P("geometry.__bool__", truthiness, functions=[Size.__bool__, Point.__bool__, Stretch.__bool__],
      contracts={k: v for k, v in SIZE_CONTRACTS.items() if not k.endswith("__bool__")})
    for K in (Point, Stretch, Padding, Alignment):
        P(f"geometry.{K.__name__}.__eq__", eq_contract(K), functions=[K.__eq__], contracts=LEVEL1)
        P(f"geometry.{K.__name__}.__hash__", hash_contract(K), functions=[K.__hash__], contracts=LEVEL1)
    P("geometry.Layout.__eq__", eq_contract(Layout), functions=[Layout.__eq__, Layout.__ne__], contracts=LEVEL2)
    P("geometry.Layout.__hash__", hash_contract(Layout), functions=[Layout.__hash__], contracts=LEVEL2)
    for op, cts in NO_MUTATION_OPS.items():
        cls, meth = op.split(".")
        K = {"Size": Size, "Point": Point, "Stretch": Stretch, "Padding": Padding, "Layout": Layout}[cls]
        P(f"geometry.{op}/frame", no_mutation(op), functions=[getattr(K, meth)], contracts=cts)
    ctx.ground("Size.from_string/language", size_language)
    P("geometry.Size.from_string", size_from_string, functions=[Size.from_string])
    P("geometry.TwoDimensionalObject.from_xml_attribute", two_sizes, functions=[TwoDimensionalObject.from_xml_attribute])
    P("geometry.Padding.from_xml_attribute", padding_shorthand, functions=[Padding.from_xml_attribute])
    ctx.bounded("printing", "str(Size) / to_xml_attribute against exact decimal rounding (half-even on the double's "
                "exact value) over boundary values, ties, near-multiples of ten and seeded magnitudes x 5 units; "
                "re-parsing the printed value; non-trivial = distinct (value, unit)",
                lambda b: bounded_printing(ctx, b))
    ctx.bounded("parser_strings", "every string up to length 4 (thorough: 5) over the alphabet 0 1 9 . + - e % p x m c t "
                "space: accepted iff in the grammar; non-trivial = strings with a digit or in the grammar",
                lambda b: bounded_parser_strings(ctx, b), exhaustive=True)
    ctx.bounded("pairs", "pairs of geometry values: grid exhaustive in units / alignments / None-ness, sampled "
                "magnitudes; eq iff components equal, equal => equal hash", lambda b: bounded_pairs(ctx, b))
    ctx.trust("A: builtin hash is a function of the value and respects == on float/int/Enum/None (uninterpreted "
              "function in the VCs); float(str) is the nearest double of the decimal; Enum(value) lookup; "
              "round()/format(.2f)/float.is_integer (printing is bounded only); deepcopy not involved")
    ctx.assume("Size.from_string language equivalence is over the property's alphabet (digits . + - e % p x m c t space); "
               "with a trailing newline the pattern's $ also matches ('5px\\n' is accepted) - outside the quantified domain")
