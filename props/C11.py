"""C11 - italic, bold and underline spans survive conversion and stay balanced."""
import itertools
import random
import re
import xml.etree.ElementTree as ET
from html.parser import HTMLParser

from pycaption import (CaptionSet, CaptionList, Caption, CaptionNode, DFXPReader, DFXPWriter, SAMIReader, SAMIWriter,
                       WebVTTWriter, SCCReader)
from pycaption.dfxp import base as dfxp_base
from pycaption.sami import SAMIWriter as SW, SAMIReader as SR
from pycaption.webvtt import WebVTTWriter as VW
from props import samples
from refs import parsers
from refs.stubdom import StubSoup, StubTag

T, BR, ST = CaptionNode.create_text, CaptionNode.create_break, CaptionNode.create_style
KEYS = ("italics", "bold", "underline")


# ------------------------------------------------------------------------------------ ground

def style_mappings(g):
    """style dictionary <-> format attributes, evaluated on the real functions for every flag subset"""
    for flags in itertools.product([False, True], repeat=3):
        d = {k: True for k, f in zip(KEYS, flags) if f}
        # SAMI: internal style -> CSS -> internal style
        css = SW()._recreate_style(dict(d))
        want = {}
        if flags[0]:
            want["font-style"] = "italic"
        if flags[1]:
            want["font-weight"] = "bold"
        if flags[2]:
            want["text-decoration"] = "underline"
        g.check(f"SAMI css of {sorted(d)}", css == want, {"css": css})
        back = {}
        r = SR()
        for k, v in css.items():
            r._translate_css_property(back, k, v)
        g.check(f"SAMI css round trip of {sorted(d)}", back == d, {"back": back})
        # DFXP carries italics only
        soup = StubSoup()
        attrs = dfxp_base._recreate_style(dict(d), soup)
        g.check(f"DFXP attributes of {sorted(d)}", attrs == ({"tts:fontStyle": "italic"} if flags[0] else {}), {"attrs": attrs})
        tag = StubTag("span", {"tts:fontStyle": "italic"} if flags[0] else {})
        g.check(f"DFXP attributes read back {sorted(d)}", DFXPReader()._convert_style(tag) == ({"italics": True} if flags[0] else {}), {})
    # ... and in the company of every subset of the other style keys the readers produce (a span written with inline
    # positioning comes back with text-align; DFXP / SAMI documents carry fonts, colours, classes): the italic / bold /
    # underline attributes depend on their own flags only
    OTHERS = {"text-align": "right", "font-family": "Arial", "font-size": "10pt", "color": "#ffeedd", "class": "k1", "display-align": "after"}
    for flags in itertools.product([False, True], repeat=3):
        for pick in itertools.product([False, True], repeat=len(OTHERS)):
            d = {k: True for k, f in zip(KEYS, flags) if f}
            d.update({k: v for (k, v), f in zip(OTHERS.items(), pick) if f})
            attrs = dfxp_base._recreate_style(dict(d), StubSoup())
            g.check(f"DFXP italic attribute of {sorted(d)}", (attrs.get("tts:fontStyle") == "italic") == flags[0] and
                    ("tts:fontStyle" in attrs) == flags[0], {"attrs": attrs})
            css = SW()._recreate_style(dict(d))
            got = (css.get("font-style") == "italic", css.get("font-weight") == "bold", css.get("text-decoration") == "underline")
            g.check(f"SAMI css flags of {sorted(d)}", got == flags, {"css": css})
            ext = {"text-align": "tts:textAlign", "font-family": "tts:fontFamily", "font-size": "tts:fontSize", "color": "tts:color"}
            tag = StubTag("span", dict({"tts:fontStyle": "italic"} if flags[0] else {}, **{ext[k]: v for k, v in d.items() if k in ext}))
            back = DFXPReader()._convert_style(tag)
            g.check(f"DFXP italic attribute read back with {sorted(d)}", (back.get("italics") is True) == flags[0], {"style": back})
    for k, (o, cl) in {"italics": ("<i>", "</i>"), "bold": ("<b>", "</b>"), "underline": ("<u>", "</u>"), "other": ("", "")}.items():
        g.check(f"WebVTT tag of {k}", list(VW._convert_style_to_text_tag(k)) == [o, cl], {})
    # TTML's decoration is a list of tokens: underlined iff the token `underline` is among them (`noUnderline` is another token)
    for value in ["underline", "noUnderline", "overline underline", "noUnderline lineThrough", "none", "lineThrough", "noUnderline overline",
                  "underline lineThrough", "noLineThrough noUnderline", "underline noLineThrough noOverline"]:
        back = DFXPReader()._convert_style(StubTag("span", {"tts:textDecoration": value}))
        g.check(f"DFXP textDecoration {value!r}", (back.get("underline") is True) == ("underline" in value.split()), {"style": back})
    for attr, val, key in (("tts:fontStyle", "normal", "italics"), ("tts:fontWeight", "normal", "bold"), ("tts:fontStyle", "italic", "italics"), ("tts:fontWeight", "bold", "bold")):
        back = DFXPReader()._convert_style(StubTag("span", {attr: val}))
        g.check(f"DFXP {attr}={val}", (back.get(key) is True) == (val in ("italic", "bold")), {"style": back})
    # SAMI inline styles: every declaration counts, in whatever order they come (the alignment goes to the layout, the
    # rest to the style)
    decls = ["text-align:right", "font-style:italic", "font-weight:bold", "text-decoration:underline", "color:red"]
    for perm in itertools.permutations(decls, 3):
        r = SR()
        r.first_alignment = None
        try:
            back = r._translate_style({}, list(perm))
        except Exception as e:          # (a reader object that needs more set-up than this is not what the clause is about)
            g.undecided(f"SAMI inline style {perm}", repr(e)) if hasattr(g, "undecided") else None
            continue
        want = {k: True for k, d_ in (("italics", "font-style:italic"), ("bold", "font-weight:bold"), ("underline", "text-decoration:underline")) if d_ in perm}
        g.check(f"SAMI inline style {';'.join(perm)}", {k: v for k, v in back.items() if k in KEYS} == want, {"style": back})
    tagd = StubTag("span", {"tts:fontWeight": "bold", "tts:textDecoration": "underline noLineThrough", "tts:fontStyle": "italic"})
    g.check("DFXP reader understands bold / underline / italic attributes",
            DFXPReader()._convert_style(tagd) == {"bold": True, "underline": True, "italics": True}, {})




_LONG_LIVED = {}


def shared(cls, **kw):
    """one object per class and option set for the whole run: what a conversion returns depends on its input and the
    options only, also when the object has converted other documents before"""
    key = (cls, tuple(sorted(kw.items())))
    if key not in _LONG_LIVED:
        _LONG_LIVED[key] = cls(**kw)
    return _LONG_LIVED[key]

# ------------------------------------------------------------------------------------ bounded

def flags_of_nodes(nodes):
    """[(char, (italic, bold, underline))] for the visible characters, lines separated by '\\n'"""
    active = {k: 0 for k in KEYS}
    out = []
    depth = 0
    balanced = True
    for n in nodes:
        if n.type_ == CaptionNode.STYLE:
            depth += 1 if n.start else -1
            if depth < 0:
                balanced = False
            for k in KEYS:
                if n.content.get(k):
                    active[k] += 1 if n.start else -1
        elif n.type_ == CaptionNode.BREAK:
            out.append(("\n", None))
        else:
            out += [(ch, tuple(active[k] > 0 for k in KEYS)) for ch in n.content if not ch.isspace()]
    return out, balanced and depth == 0


def gen_caption(rng, start, span_layouts=False):
    """flat (non-nesting) style spans at arbitrary positions over 1-3 lines; with span_layouts some spans (style
    nodes and the text inside) carry a layout of their own"""
    from pycaption.geometry import Layout, Point, Size, UnitEnum, Alignment, HorizontalAlignmentEnum, VerticalAlignmentEnum
    lays = [Layout(origin=Point(Size(10, UnitEnum.PERCENT), Size(10, UnitEnum.PERCENT))),
            Layout(origin=Point(Size(20, UnitEnum.PERCENT), Size(70, UnitEnum.PERCENT)),
                   alignment=Alignment(HorizontalAlignmentEnum.RIGHT, VerticalAlignmentEnum.TOP))]
    words = ["alpha", "beta", "gamma", "x", "&", "<tag>", "fin."]
    nodes = []
    for ln in range(rng.choice([1, 2, 3])):
        if ln:
            nodes.append(BR())
        k = rng.choice([1, 2, 3, 4])
        i = 0
        while i < k:
            if rng.random() < 0.45:
                style = rng.choice([{"italics": True}, {"bold": True}, {"underline": True}, {"italics": True, "bold": True},
                                    {"italics": True, "underline": True, "bold": True}])
                span_words = rng.choice([0, 1, 2])
                if rng.random() < 0.25:
                    # a span that also refers to a style class (the class key first, as the readers build it)
                    style = dict({"class": "quote"}, **style)
                if rng.random() < 0.2:
                    # ... or names a font family of several words (it is written next to the marking, in one attribute)
                    style = dict({"font-family": "Courier New"}, **style)
                lay = rng.choice(lays) if (span_layouts and rng.random() < 0.6) else None
                nodes.append(ST(True, dict(style), lay))
                for j in range(span_words):
                    nodes.append(T(rng.choice(words) + (" " if j + 1 < span_words else ""), lay))
                    if rng.random() < 0.25 and j + 1 < span_words:
                        nodes.append(BR(lay))          # a span across a break
                nodes.append(ST(False, dict(style), lay))
                i += max(1, span_words)
            else:
                nodes.append(T(rng.choice(words)))
                i += 1
            if i < k:
                nodes.append(T(" "))
    if not any(n.type_ == CaptionNode.TEXT and n.content.strip() for n in nodes):
        nodes.append(T("z"))
    return Caption(start, start + 10 ** 6, nodes)


class _TagBalance(HTMLParser):
    def __init__(self):
        super().__init__()
        self.stack, self.ok = [], True

    def handle_starttag(self, tag, attrs):
        if tag in ("i", "b", "u", "span"):
            self.stack.append(tag)

    def handle_endtag(self, tag):
        if tag in ("i", "b", "u", "span"):
            if not self.stack or self.stack.pop() != tag:
                self.ok = False


def webvtt_flags(doc):
    """per-character flags from the <i> <b> <u> tags of every cue; also nesting"""
    cues = parsers.parse_webvtt(doc)
    res = []
    for cu in cues:
        out, stack, ok = [], [], True
        for li, raw in enumerate(cu["raw"]):
            if li:
                out.append(("\n", None))
            for m in re.finditer(r"<(/?)([ibu])>|([^<]+)|<", raw):
                if m.group(2):
                    if m.group(1):
                        if not stack or stack.pop() != m.group(2):
                            ok = False
                    else:
                        stack.append(m.group(2))
                elif m.group(3):
                    txt = parsers.vtt_unescape(m.group(3))
                    out += [(ch, ("i" in stack, "b" in stack, "u" in stack)) for ch in txt if not ch.isspace()]
        res.append((out, ok and not stack))
    return res


def strip_breaks(fl):
    return [(c, f) for c, f in fl if c != "\n"]


def bounded(ctx, b):
    rng = random.Random(ctx.seed)
    n = 120 if not ctx.thorough else 2500
    for i in range(n):
        caps = [gen_caption(rng, (j + 1) * 2 * 10 ** 6) for j in range(rng.choice([1, 2]))]
        cs = CaptionSet({"en-US": CaptionList(caps)}, styles={"quote": {"color": "red", "font-family": "Arial"}})
        orig = [flags_of_nodes(c_.nodes) for c_ in caps]

        def only(fl, keep):
            return [(c, tuple(v if k in keep else False for k, v in zip(KEYS, f)) if f else None) for c, f in fl]

        def roundtrip(W, R, lang, keep, label):
            def one():
                doc = shared(W).write(cs)
                back = shared(R).read(doc).get_captions(lang)
                got = [flags_of_nodes(c_.nodes) for c_ in back]
                if not all(bal for _, bal in got):
                    return False, {"path": label, "unbalanced_style_nodes_after_reading": True, "doc": doc[-600:]}
                g2 = [strip_breaks(only(fl, keep)) for fl, _ in got]
                e2 = [strip_breaks(only(fl, keep)) for fl, _ in orig]
                return g2 == e2, {"path": label, "got": ["".join(c for c, f in x if f and any(f)) for x in g2],
                                  "expected_marked_characters": ["".join(c for c, f in x if f and any(f)) for x in e2], "doc": doc[-600:]}
            b.guard((label, i), one, sample={"path": label, "nodes": [[repr(n_) for n_ in c_.nodes] for c_ in caps]})
        roundtrip(DFXPWriter, DFXPReader, "en-US", ("italics",), "dfxp->dfxp")
        roundtrip(SAMIWriter, SAMIReader, "en-US", KEYS, "sami->sami")
        if i % 3 == 0:
            # the other DFXP writers and options, on captions whose spans may carry a layout of their own
            from pycaption.dfxp.extras import SinglePositioningDFXPWriter, LegacyDFXPWriter
            caps_l = [gen_caption(rng, (j + 1) * 2 * 10 ** 6, span_layouts=True) for j in range(rng.choice([1, 2]))]
            cs_l = CaptionSet({"en-US": CaptionList(caps_l)}, styles={"quote": {"color": "red", "font-family": "Arial"}})
            orig_l = [flags_of_nodes(c_.nodes) for c_ in caps_l]
            for label, mk in (("dfxp(inline positioning)->dfxp", lambda: DFXPWriter(write_inline_positioning=True)),
                              ("dfxp(single positioning)->dfxp", lambda: SinglePositioningDFXPWriter()),
                              ("dfxp(no relativize)->dfxp", lambda: DFXPWriter(relativize=False, fit_to_screen=False))):
                def opt(label=label, mk=mk, cs_l=cs_l, orig_l=orig_l):
                    doc = mk().write(cs_l)
                    back = DFXPReader().read(doc).get_captions("en-US")
                    got = [flags_of_nodes(c_.nodes) for c_ in back]
                    g2 = [strip_breaks(only(fl, ("italics",))) for fl, _ in got]
                    e2 = [strip_breaks(only(fl, ("italics",))) for fl, _ in orig_l]
                    return g2 == e2 and all(bal for _, bal in got), {
                        "path": label, "got": ["".join(c for c, f in x if f and any(f)) for x in g2],
                        "expected_marked_characters": ["".join(c for c, f in x if f and any(f)) for x in e2], "doc": doc[-700:]}
                b.guard((label, i), opt, sample={"path": label})

            # captions shown at the same time are merged by the legacy / single-position writers: the marking of each
            # survives the merge (a caption may END with a span), and the markup stays balanced
            same = [gen_caption(rng, 2 * 10 ** 6) for _ in range(rng.choice([2, 3]))]
            if rng.random() < 0.7:
                same[0].nodes += [T(" "), ST(True, {"italics": True}), T("closer"), ST(False, {"italics": True})]
            cs_s = CaptionSet({"en-US": CaptionList(same + [gen_caption(rng, 9 * 10 ** 6)])})
            want_s = [sum((strip_breaks(only(flags_of_nodes(c_.nodes)[0], ("italics",))) for c_ in same), []),
                      strip_breaks(only(flags_of_nodes(cs_s.get_captions("en-US")[-1].nodes)[0], ("italics",)))]
            for label, Wm in (("dfxp(single positioning, simultaneous captions)->dfxp", SinglePositioningDFXPWriter), ("dfxp(legacy, simultaneous captions)->dfxp", LegacyDFXPWriter)):
                def merged(label=label, Wm=Wm, cs_s=cs_s, want_s=want_s):
                    doc = Wm().write(cs_s)
                    got = [flags_of_nodes(c_.nodes) for c_ in DFXPReader().read(doc).get_captions("en-US")]
                    g2 = [strip_breaks(only(fl, ("italics",))) for fl, _ in got]
                    return g2 == want_s and all(bal for _, bal in got) and doc.count("<span") == doc.count("</span>"), {
                        "path": label, "got": ["".join(c for c, f in x if f and any(f)) for x in g2],
                        "expected_marked_characters": ["".join(c for c, f in x if f and any(f)) for x in want_s], "doc": doc[-700:]}
                b.guard((label, i), merged, sample={"path": label})
            # a caption that lies, with all its nodes, in one layout at the very corner of the screen (origin 0% 0%)
            from pycaption.geometry import Layout, Point, Size, UnitEnum
            corner = Layout(origin=Point(Size(0, UnitEnum.PERCENT), Size(0, UnitEnum.PERCENT)))
            caps_c = [gen_caption(rng, (j + 1) * 2 * 10 ** 6) for j in range(2)]
            for c_ in caps_c:
                c_.layout_info = corner
                for n_ in c_.nodes:
                    n_.layout_info = Layout(origin=Point(Size(0, UnitEnum.PERCENT), Size(0, UnitEnum.PERCENT)))
            cs_c = CaptionSet({"en-US": CaptionList(caps_c)})
            orig_c = [flags_of_nodes(c_.nodes) for c_ in caps_c]

            def vtt_corner(cs_c=cs_c, orig_c=orig_c):
                doc = shared(WebVTTWriter).write(cs_c)
                got = webvtt_flags(doc)
                if not all(ok for _, ok in got):
                    return False, {"path": "webvtt", "tags_not_balanced_or_nested": doc[-400:]}
                g2 = [strip_breaks(fl) for fl, _ in got]
                e2 = [strip_breaks(fl) for fl, _ in orig_c]
                return g2 == e2, {"path": "webvtt", "cues": len(g2), "captions": len(e2), "doc": doc[-400:]}
            b.guard(("webvtt-corner", i), vtt_corner, sample={"path": "->webvtt", "layout": "origin 0% 0% on the caption and every node"})

        def cross(label, W1, R1, lang1, W2, R2, lang2, keep):
            def one():
                mid = shared(R1).read(shared(W1).write(cs))
                doc = shared(W2).write(mid)
                back = shared(R2).read(doc).get_captions(lang2)
                got = [flags_of_nodes(c_.nodes) for c_ in back]
                g2 = [strip_breaks(only(fl, keep)) for fl, _ in got]
                e2 = [strip_breaks(only(fl, keep)) for fl, _ in orig]
                return g2 == e2 and all(bal for _, bal in got), {"path": label, "got": ["".join(c for c, f in x if f and any(f)) for x in g2],
                                                                  "expected_marked_characters": ["".join(c for c, f in x if f and any(f)) for x in e2]}
            b.guard((label, i), one, sample={"path": label})
        cross("dfxp->sami", DFXPWriter, DFXPReader, "en-US", SAMIWriter, SAMIReader, "en-US", ("italics",))
        cross("sami->dfxp", SAMIWriter, SAMIReader, "en-US", DFXPWriter, DFXPReader, "en-US", ("italics",))

        def vtt():
            doc = shared(WebVTTWriter).write(cs)
            got = webvtt_flags(doc)
            if not all(ok for _, ok in got):
                return False, {"path": "webvtt", "tags_not_balanced_or_nested": doc[-400:]}
            g2 = [strip_breaks(fl) for fl, _ in got]
            e2 = [strip_breaks(fl) for fl, _ in orig]
            return g2 == e2, {"path": "webvtt", "got": ["".join(c for c, f in x if f and any(f)) for x in g2],
                              "expected_marked_characters": ["".join(c for c, f in x if f and any(f)) for x in e2], "doc": doc[-400:]}
        b.guard(("webvtt", i), vtt, sample={"path": "->webvtt"})
        for W in (DFXPWriter, SAMIWriter):
            def markup(W=W):
                doc = W().write(cs)
                if W is DFXPWriter:
                    ET.fromstring(doc)
                    return doc.count("<span") == doc.count("</span>"), {"writer": "DFXPWriter", "spans": (doc.count("<span"), doc.count("</span>"))}
                p = _TagBalance()
                p.feed(doc)
                return p.ok and not p.stack, {"writer": "SAMIWriter", "unbalanced": doc[-500:]}
            b.guard(("markup", W.__name__, i), markup, sample={"writer": W.__name__})
    # spans in different layouts: DFXP paragraphs whose spans sit in different regions (each span within
    # nodes of one layout), written as WebVTT - one cue per layout, tags balanced in every cue, same marking
    tmpl = ('<?xml version="1.0" encoding="utf-8"?><tt xml:lang="en" xmlns="http://www.w3.org/ns/ttml" '
            'xmlns:tts="http://www.w3.org/ns/ttml#styling"><head><layout>'
            '<region xml:id="a" tts:origin="10% 10%" tts:extent="30% 30%"/><region xml:id="b" tts:origin="20% 70%" tts:extent="30% 20%"/>'
            '</layout></head><body><div><p begin="00:00:00.000" end="00:00:01.000">%s</p></div></body></tt>')
    spans = {"plain_a": '<span region="a">one</span>', "italic_b": '<span region="b" tts:fontStyle="italic">two</span>',
             "plain_b": '<span region="b">three</span>', "italic_a": '<span region="a" tts:fontStyle="italic">four</span>',
             "bold_b": '<span region="b" tts:fontWeight="bold" tts:fontStyle="italic">five</span>'}
    import itertools as _it
    for combo in list(_it.permutations(spans, 2)) + [("plain_a", "italic_b", "plain_a"), ("italic_a", "italic_b", "plain_b")]:
        def layouts(combo=combo):
            import warnings
            warnings.filterwarnings("ignore")
            cs2 = shared(DFXPReader).read(tmpl.replace("%s", "".join(spans[k] for k in combo)))
            doc = shared(WebVTTWriter).write(cs2)
            got = webvtt_flags(doc)
            want_italic = "".join(w for k, w in (("italic_b", "two"), ("italic_a", "four"), ("bold_b", "five")) if k in combo for _ in [0])
            marked = "".join(ch for fl, _ in got for ch, f in fl if f and f[0])
            ok = all(okk for _, okk in got) and sorted(marked) == sorted(want_italic)
            return ok, {"spans": combo, "italic_characters": marked, "expected": want_italic, "doc": doc[-400:]}
        b.guard(("span-layouts", combo), layouts, sample={"spans": combo})
    # a span that opens with one or two line breaks and lies in another layout than the text before it: the opening tags
    # and the breaks go to the cue of the span's text
    from pycaption.geometry import Layout as _L, Point as _P, Size as _S, UnitEnum as _U
    la_, lb_ = _L(origin=_P(_S(10, _U.PERCENT), _S(10, _U.PERCENT))), _L(origin=_P(_S(20, _U.PERCENT), _S(70, _U.PERCENT)))
    for nbreaks, style in itertools.product([1, 2], [{"italics": True}, {"italics": True, "bold": True}]):
        def after_break(nbreaks=nbreaks, style=style):
            nodes = [T("before", la_), ST(True, dict(style), lb_)] + [BR(lb_)] * nbreaks + [T("inside", lb_), ST(False, dict(style), lb_), T("after", lb_)]
            out = shared(WebVTTWriter).write(CaptionSet({"en-US": CaptionList([Caption(0, 10 ** 6, nodes)])}))
            got = webvtt_flags(out)
            marked = "".join(ch for fl, _ in got for ch, f in fl if f and f[0])
            return all(okk for _, okk in got) and marked == "inside", {"cues": len(got), "italic_characters": marked, "expected": "inside", "doc": out[-300:]}
        b.guard(("span-opens-with-breaks", nbreaks, tuple(style)), after_break, sample={"breaks_after_the_opening_style_node": nbreaks, "style": style})
    # marking that comes from a style CLASS whose name has capital letters (DFXP xml:id="italicStyle"): it survives the
    # way through SAMI (whose style sheet is case-insensitive) and is written as tags by WebVTT
    cls_doc = ('<?xml version="1.0" encoding="utf-8"?><tt xml:lang="en" xmlns="http://www.w3.org/ns/ttml" xmlns:tts="http://www.w3.org/ns/ttml#styling">'
               '<head><styling><style xml:id="italicStyle" tts:fontStyle="italic"/><style xml:id="Shout" tts:fontWeight="bold" tts:fontStyle="italic"/></styling></head>'
               '<body><div><p begin="00:00:01.000" end="00:00:02.000">the <span style="italicStyle">brown fox</span> and the <span style="Shout">lazy</span> dog</p></div></body></tt>')

    def by_class():
        import warnings
        warnings.filterwarnings("ignore")
        cs0 = shared(DFXPReader).read(cls_doc)
        direct = "".join(ch for fl, _ in webvtt_flags(shared(WebVTTWriter).write(cs0)) for ch, f in fl if f and f[0])
        via_sami = shared(SAMIReader).read(shared(SAMIWriter).write(cs0))
        after = "".join(ch for fl, _ in webvtt_flags(shared(WebVTTWriter).write(via_sami)) for ch, f in fl if f and f[0])
        twice = shared(SAMIReader).read(shared(SAMIWriter).write(via_sami))
        again = "".join(ch for fl, _ in webvtt_flags(shared(WebVTTWriter).write(twice)) for ch, f in fl if f and f[0])
        return direct == after == again == "brownfoxlazy", {"italic_characters_from_dfxp": direct, "after_sami": after, "after_sami_twice": again, "expected": "brownfoxlazy"}
    b.guard(("class-with-capitals",), by_class, sample={"classes": ["italicStyle", "Shout"], "path": "dfxp -> (sami ->)* webvtt"})
    # a caption styled as a WHOLE (italic paragraph) whose text lies in two layouts: every cue written for it carries the
    # style, with its own balanced pair of tags
    for combo in [("plain_a", "plain_b"), ("plain_b", "plain_a", "plain_b"), ("plain_a", "bold_b")]:
        def whole(combo=combo):
            import warnings
            warnings.filterwarnings("ignore")
            doc_ = tmpl.replace('<p begin="00:00:00.000"', '<p tts:fontStyle="italic" begin="00:00:00.000"').replace("%s", "".join(spans[k] for k in combo))
            cs2 = shared(DFXPReader).read(doc_)
            out = shared(WebVTTWriter).write(cs2)
            got = webvtt_flags(out)
            words_ = {"plain_a": "one", "plain_b": "three", "bold_b": "five"}
            want_italic = "".join(words_[k] for k in combo)
            marked = "".join(ch for fl, _ in got for ch, f in fl if f and f[0])
            return all(okk for _, okk in got) and len(got) >= 2 and sorted(marked) == sorted(want_italic), {
                "spans": combo, "cues": len(got), "italic_characters": marked, "expected": want_italic, "doc": out[-400:]}
        b.guard(("caption-level-style", combo), whole, sample={"paragraph": "italic", "spans": combo})
    # every caption returned by any reader has balanced style nodes
    readers = {"dfxp": DFXPReader, "sami": SAMIReader, "scc": SCCReader}
    for fmt, docs in samples.all_docs().items():
        if fmt not in readers:
            continue
        for k, d in enumerate(docs):
            def bal(fmt=fmt, d=d):
                cs2 = readers[fmt]().read(d)
                bad = [c_.get_text() for l in cs2.get_languages() for c_ in cs2.get_captions(l) if not flags_of_nodes(c_.nodes)[1]]
                return not bad, {"unbalanced_captions": bad}
            b.guard(("reader-balance", fmt, k), bal, sample={"format": fmt, "document": k})


def bounded_scc_italics(ctx, b):
    """the SCC reader's italics normalisation on every short node-type sequence: each resulting caption
    has balanced ON / OFF nodes and the same text nodes are italic as in a straightforward reading"""
    from pycaption.scc.specialized_collections import _InstructionNode as N, _format_italics, CaptionCreator
    L = 5 if not ctx.thorough else 6
    kinds = ["T", "ON", "OFF", "POS", "BR"]
    for n in range(1, L + 1):
        for seq in itertools.product(kinds, repeat=n):
            if "T" not in seq:
                continue

            def one(seq=seq):
                coll, k = [], 0
                for s in seq:
                    if s == "T":
                        coll.append(N.create_text((1, 0), f"t{k}"))
                        k += 1
                    elif s == "ON":
                        coll.append(N.create_italics_style((1, 0)))
                    elif s == "OFF":
                        coll.append(N.create_italics_style((1, 0), turn_on=False))
                    elif s == "POS":
                        coll.append(N.create_repositioning_command((5, 0)))
                    else:
                        coll.append(N.create_break((1, 0)))
                out = _format_italics(list(coll))
                # reference: italic state of each text node in the raw sequence
                state, want = False, []
                for x in coll:
                    if x.sets_italics_on():
                        state = True
                    elif x.sets_italics_off():
                        state = False
                    elif x.is_text_node():
                        want.append((x.text, state))
                state, got, depth, ok = False, [], 0, True
                for x in out:
                    if x.sets_italics_on():
                        ok = ok and not state
                        state = True
                    elif x.sets_italics_off():
                        ok = ok and state
                        state = False
                    elif x.requires_repositioning():
                        ok = ok and not state
                    elif x.is_text_node():
                        got.append((x.text.rstrip() if x.text else x.text, state))
                ok = ok and not state
                want = [(t.rstrip(), s_) for t, s_ in want]
                return ok and got == want, {"sequence": seq, "balanced": ok, "italic_text": got, "expected": want}
            b.guard(("scc-italics", seq), one, nontrivial=("ON" in seq or "OFF" in seq), sample=list(seq) if seq == ("ON", "T", "POS", "T") else None)


def webvtt_resulting_style(c):
    """WebVTTWriter._calculate_resulting_style: the style a span ends up with is its own properties over those of its
    classes - each class resolved the same way through its own class chain, a later class over an earlier one, a class
    without definition contributing nothing - so that italics / bold / underline declared anywhere along the chain mark the
    span, and nothing that is declared nowhere does.  The styles of the set are left as they were."""
    from pycaption.base import CaptionSet
    from pycaption.webvtt import WebVTTWriter as W
    ref = c.pick("span_refers_to", ["nothing", "class a", "classes a c", "classes c a", "an undefined class"])
    own = c.pick("own_properties", [{}, {"italics": True}, {"color": "own"}])
    xa = c.pick("class_a", [{}, {"bold": True, "color": "a"}])
    xb = c.pick("class_b_which_a_refers_to", [{"italics": True, "color": "b"}, {"underline": True}])
    styles = {"a": dict(xa, **{"class": "b"}), "b": dict(xb), "c": {"color": "c", "underline": True}}
    style = dict(own)
    style.update({"nothing": {}, "class a": {"class": "a"}, "classes a c": {"classes": ["a", "c"], "class": "a"},
                  "classes c a": {"classes": ["c", "a"], "class": "c"}, "an undefined class": {"class": "zz"}}[ref])
    cs = CaptionSet({"en": []}, styles={k: dict(v) for k, v in styles.items()})
    w = c.new(W, global_layout=None, video_width=None, video_height=None)
    r = c.call(W._calculate_resulting_style, w, dict(style), cs, compare=False)

    def resolve(st):
        out = {}
        for cls in (st["classes"] if "classes" in st else [st["class"]] if "class" in st else []):
            out.update(resolve(styles.get(cls, {})))
        out.update(st)
        return out
    want = resolve(style)
    for flag in ("italics", "bold", "underline"):
        c.ensure(f"{flag}_iff_declared_along_the_chain", bool(r.get(flag)) == bool(want.get(flag)))
    c.ensure("nearer_declarations_win", {k: v for k, v in r.items() if k not in ("class", "classes")} == {k: v for k, v in want.items() if k not in ("class", "classes")})
    c.ensure("the_styles_of_the_set_are_left_alone", dict(cs.get_styles()) == styles)


def run(ctx):
    ctx.ground("style_mappings", style_mappings)
    from pycaption.webvtt import WebVTTWriter as _W
    ctx.prove("webvtt.WebVTTWriter._calculate_resulting_style", webvtt_resulting_style, functions=[_W._calculate_resulting_style], crosscheck=False)
    import props.C07_spans as SP
    import props.C11_italics as IT
    SP.prove_span_balance(ctx)
    import props.C07_span_tag as ST_
    ST_.prove_span_tag(ctx)
    IT.prove_passes(ctx)
    import props.C05_captions as CP
    CP.prove_captions(ctx)
    import props.C03_lines as LN
    LN.prove_cue_lines(ctx)
    ctx.bounded("scc_italics", "every sequence of up to 5 (thorough: 6) instruction nodes over {text, italics on, italics off, "
                "reposition, break}: after _format_italics the ON / OFF nodes alternate, are closed before every "
                "repositioning and at the end, and exactly the text nodes sent while italics were on are italic",
                lambda b: bounded_scc_italics(ctx, b), exhaustive=True)
    ctx.bounded("round_trips", "captions with flat style spans (italic / bold / underline and combinations; at start / end of "
                "line, across breaks, adjacent, empty) through DFXP->DFXP, SAMI->SAMI, DFXP->SAMI, SAMI->DFXP and to WebVTT "
                "with the real readers and writers: the same characters are marked (DFXP: italics only), style nodes read "
                "back are balanced, emitted span / tag markup is balanced and nested; balanced style nodes in every "
                "caption read from the sample documents", lambda b: bounded(ctx, b))
    ctx.trust("P-ground: style dictionary <-> attribute mappings evaluated on the real functions for all flag subsets; "
              "P: span balance of the DFXP writers and alternation after the SCC redundancy pass (loop invariants); "
              "A: bs4 / html.parser tree construction")
    ctx.assume("which characters a span covers after a round trip through the real parsers is bounded-checked only")
