"""TimingCorrectingCaptionList.append / extend as skeletons (shared by C06 and C16): which captions are kept, in which order,
and which earlier captions each addition closes.

P[n] over every history of three additions drawn from: append a caption / append None / append a caption without nodes /
extend by two captions (the parts of one multi-position caption) / extend by two captions with a None and an empty one
between them.  Nothing is stubbed: every caption is added with a start of its own and without an end, so that what an addition closes
shows in the captions themselves (`_update_last_batch`, which does the closing, has its own contract for any batch length, C06).

  * the list holds exactly the captions that have nodes, in the order they were added, each once; None and captions
    without nodes are dropped and change nothing - neither the list nor what the next addition closes;
  * every addition that keeps something ends ALL the captions kept by the previous such addition (the parts of a
    multi-position caption end together) at the start of its own first caption, and touches nothing older.
Precondition (from the call sites: `create_and_store` extends by the captions of a non-empty buffer, of which at least one
has a node): an `extend` keeps at least one caption.
"""
from pycaption.base import CaptionNode
from pycaption.scc.specialized_collections import PreCaption, TimingCorrectingCaptionList as TL

OPS = ["append kept", "append None", "append empty", "extend two", "extend two and dropped ones"]


def _cap(tag, start, nodes=True):
    c_ = PreCaption()
    c_.start, c_.end = start, 0
    if nodes:
        c_.nodes.append(CaptionNode.create_text(tag))
    return c_


def list_skeleton(c):
    ops = [c.pick(f"addition{k + 1}", OPS) for k in range(3)]
    tl = TL()
    kept_all, prev_kept, closed_at = [], (), {}
    for k, op in enumerate(ops):
        t0 = 10 ** 6 * (k + 1)
        if op.startswith("append"):
            item = {"append kept": _cap(f"a{k}", t0), "append None": None, "append empty": _cap(f"e{k}", t0, nodes=False)}[op]
            c.call(TL.append, tl, item, compare=False)
            kept = [item] if op == "append kept" else []
        else:
            x, y = _cap(f"x{k}", t0), _cap(f"y{k}", t0)
            items = [x, y] if op == "extend two" else [x, None, _cap(f"e{k}", t0, nodes=False), y]
            c.call(TL.extend, tl, items, compare=False)
            kept = [x, y]
        if kept:
            for p_ in prev_kept:
                closed_at[id(p_)] = t0
            prev_kept = tuple(kept)
            kept_all += kept
        # every caption that is still open ends exactly when the next kept addition begins: ALL parts of the previous
        # addition, nothing older touched again, nothing closed by a dropped item
        c.ensure(f"addition{k + 1}/all_parts_of_the_previous_caption_end_where_this_one_starts_and_nothing_else_changes",
                 all(x_.end == closed_at.get(id(x_), 0) for x_ in kept_all))
        c.ensure(f"addition{k + 1}/list_is_the_kept_captions_in_order", len(tl) == len(kept_all) and all(p_ is q_ for p_, q_ in zip(tl, kept_all)))


def prove_list_skeleton(ctx):
    ctx.prove("scc.TimingCorrectingCaptionList.append+extend", list_skeleton, functions=[TL.append, TL.extend, TL._update_last_batch] if hasattr(TL, "_update_last_batch") else [TL.append, TL.extend], crosscheck=False)
