"""TimingCorrectingCaptionList.append / extend as skeletons (shared by C06 and C16): which captions are kept, in which order,
and which earlier captions each addition closes.

P[n] over every history of three additions drawn from: append a caption / append None / append a caption without nodes /
extend by two captions (the parts of one multi-position caption) / extend by two captions with a None and an empty one
between them.  `_update_last_batch` is a recording stub (its own contract: for any batch length, C06).

  * the list holds exactly the captions that have nodes, in the order they were added, each once; None and captions
    without nodes are dropped and change nothing - neither the list nor what the next addition closes;
  * every addition that keeps something hands `_update_last_batch` - once, before the list grows - ALL the captions kept
    by the previous such addition (the parts of a multi-position caption end together) and the kept captions of this
    one, first one first (its start is the instant the previous ones end).
Precondition (from the call sites: `create_and_store` extends by the captions of a non-empty buffer, of which at least one
has a node): an `extend` keeps at least one caption.
"""
from pycaption.base import CaptionNode
from pycaption.scc.specialized_collections import PreCaption, TimingCorrectingCaptionList as TL
from pyvc.verify import args_by_name as N

OPS = ["append kept", "append None", "append empty", "extend two", "extend two and dropped ones"]


def _cap(tag, nodes=True):
    c_ = PreCaption()
    c_.start, c_.end = 10 ** 6, 0
    if nodes:
        c_.nodes.append(CaptionNode.create_text(tag))
    return c_


def list_skeleton(c):
    ops = [c.pick(f"addition{k + 1}", OPS) for k in range(3)]
    tl = TL()
    log = []

    def stub(interp, fn, a, kw):
        x = N(fn, a, kw)
        log.append((tuple(x["batch"]), tuple(x["new_captions"]), list(tl)))
        return None
    c.interp.contracts["pycaption.scc.specialized_collections:TimingCorrectingCaptionList._update_last_batch"] = stub
    kept_all, prev_kept, expected_calls = [], (), []
    for k, op in enumerate(ops):
        before_calls = len(log)
        if op.startswith("append"):
            item = {"append kept": _cap(f"a{k}"), "append None": None, "append empty": _cap(f"e{k}", nodes=False)}[op]
            c.call(TL.append, tl, item, compare=False)
            kept = [item] if op == "append kept" else []
        else:
            x, y = _cap(f"x{k}"), _cap(f"y{k}")
            items = [x, y] if op == "extend two" else [x, None, _cap(f"e{k}", nodes=False), y]
            c.call(TL.extend, tl, items, compare=False)
            kept = [x, y]
        if kept:
            calls = log[before_calls:]
            c.ensure(f"addition{k + 1}/closes_all_captions_of_the_previous_addition_once_before_the_list_grows",
                     len(calls) == 1 and len(calls[0][0]) == len(prev_kept) and all(p_ is q_ for p_, q_ in zip(calls[0][0], prev_kept))
                     and len(calls[0][1]) >= 1 and calls[0][1][0] is kept[0]
                     and len(calls[0][2]) == len(kept_all))
            prev_kept = tuple(kept)
            kept_all += kept
        else:
            # a dropped item may be shown to the helper (which ignores it) but must not replace what the next addition closes
            c.ensure(f"addition{k + 1}/a_dropped_item_closes_nothing", all(not [n_ for n_ in call[1] if n_ is not None and n_.nodes] for call in log[before_calls:]))
        c.ensure(f"addition{k + 1}/list_is_the_kept_captions_in_order", len(tl) == len(kept_all) and all(p_ is q_ for p_, q_ in zip(tl, kept_all)))


def prove_list_skeleton(ctx):
    ctx.prove("scc.TimingCorrectingCaptionList.append+extend", list_skeleton, functions=[TL.append, TL.extend], crosscheck=False)
