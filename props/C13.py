"""C13 - absolute sizes are relativized exactly or refused; fit-to-screen stays safe."""
import random
import itertools
import re
from decimal import Decimal, ROUND_HALF_EVEN
from fractions import Fraction

import z3

from pycaption import (CaptionSet, CaptionList, Caption, CaptionNode, DFXPWriter, SAMIWriter, WebVTTWriter)
from pycaption.base import BaseWriter
from pycaption.exceptions import RelativizationError
from pycaption.geometry import (Size, Point, Stretch, Padding, Alignment, Layout, UnitEnum,
                                HorizontalAlignmentEnum, VerticalAlignmentEnum)
from pyvc.sym import SNum, SStr, Opaque, SEnum, cur, zreal
from pyvc.verify import Raised
from props.C18 import mk_size, mk_point, mk_stretch, mk_padding, mk_layout, mk_pct_size, mk_pct_point, \
    mk_pct_stretch, uf

U = Fraction(1, 2 ** 53)
T = lambda s: CaptionNode.create_text(s)


def dims(c):
    W = c.int("W", 1, 10 ** 5) if c.pick("W?", [True, False]) else None
    H = c.int("H", 1, 10 ** 5) if c.pick("H?", [True, False]) else None
    return W, H


def exact_percent(c, v, unit, W, H):
    """the statement's arithmetic: px*100/dimension, 1em = 16px, 1pt = 4/3 px, 32x15 cell grid"""
    dim = W if W is not None else H
    v = c.exact(v)
    if unit == UnitEnum.PIXEL:
        return v * 100 / dim
    if unit == UnitEnum.EM:
        return v * 16 * 100 / dim
    if unit == UnitEnum.PT:
        return v * Fraction(4, 3) * 100 / dim
    if unit == UnitEnum.CELL:
        return v * 100 / (32 if W is not None else 15)
    raise AssertionError(unit)


def size_relativize(c):
    unit = c.pick("unit", list(UnitEnum))
    s = c.new(Size, value=c.real("v", 0, 10 ** 5), unit=unit)
    W, H = dims(c)
    r = c.call(Size.as_percentage_of, s, video_width=W, video_height=H, raises=(RelativizationError,))
    if unit == UnitEnum.PERCENT:
        c.ensure("percent_returned_unchanged", r is s)
        return
    if (W is None) == (H is None):
        c.ensure("refused_without_exactly_one_reference", isinstance(r, Raised))
        return
    c.ensure("not_refused", isinstance(r, Size))
    if not isinstance(r, Size):
        return
    c.ensure("unit_is_percent", r.unit == UnitEnum.PERCENT)
    e = exact_percent(c, s.value, unit, W, H)
    rv = c.exact(r.value)
    c.ensure("value_within_8_ulp_of_exact", c.conj(rv - e <= 8 * U * e, e - rv <= 8 * U * e))


# ---- callee contracts used by the composite proofs (each is proved above / below on its own)

def _axis_size(interp, fn, args, kw):
    """Size.as_percentage_of under contract: a % Size whose value is an uninterpreted function of
    (value, unit, dimension, axis); refuses when no / both references are given"""
    s = args[0]
    W = kw.get("video_width", args[1] if len(args) > 1 else None)
    H = kw.get("video_height", args[2] if len(args) > 2 else None)
    if (W is None) == (H is None):
        raise RelativizationError("reference")
    f = uf("REL", z3.RealSort(), z3.IntSort(), z3.RealSort(), z3.IntSort(), z3.RealSort())
    u = s.unit.t if isinstance(s.unit, SEnum) else z3.IntVal(list(UnitEnum).index(s.unit))
    axis = 0 if W is not None else 1
    o = Size.__new__(Size)
    o.value = SNum(f(zreal(s.value), u, zreal(W if W is not None else H), z3.IntVal(axis)), "float")
    o.unit = UnitEnum.PERCENT
    o._rel_of = (s, axis)
    return o


def rel_value(size, dim, axis):
    f = uf("REL", z3.RealSort(), z3.IntSort(), z3.RealSort(), z3.IntSort(), z3.RealSort())
    u = size.unit.t if isinstance(size.unit, SEnum) else z3.IntVal(list(UnitEnum).index(size.unit))
    return SNum(f(zreal(size.value), u, zreal(dim), z3.IntVal(axis)), "float")


AXIS = {"pycaption.geometry:Size.as_percentage_of": _axis_size}


def composite_axes(c):
    """horizontal lengths use the width, vertical lengths the height"""
    K = c.pick("class", [Point, Stretch, Padding])
    W, H = c.int("W", 1, 10 ** 5), c.int("H", 1, 10 ** 5)
    if K is Point:
        o = mk_point(c, "a")
        r = c.call(Point.as_percentage_of, o, W, H, compare=False)
        want = [(r.x, o.x, W, 0), (r.y, o.y, H, 1)]
    elif K is Stretch:
        o = mk_stretch(c, "a")
        r = c.call(Stretch.as_percentage_of, o, W, H, compare=False)
        want = [(r.horizontal, o.horizontal, W, 0), (r.vertical, o.vertical, H, 1)]
    else:
        o = mk_padding(c, "a")
        r = c.call(Padding.as_percentage_of, o, W, H, compare=False)
        want = [(r.before, o.before, H, 1), (r.after, o.after, H, 1), (r.start, o.start, W, 0), (r.end, o.end, W, 0)]
    c.ensure("same_class", type(r) is K)
    if c.symbolic:
        for i, (got, src, dim, axis) in enumerate(want):
            c.ensure(f"component{i}_uses_the_right_dimension", got.value == rel_value(src, dim, axis))
    else:
        for i, (got, src, dim, axis) in enumerate(want):
            exp = src.as_percentage_of(video_width=dim) if axis == 0 else src.as_percentage_of(video_height=dim)
            c.ensure(f"component{i}_uses_the_right_dimension", got == exp)


def _tag(K, name):
    def h(interp, fn, args, kw):
        o = K.__new__(K)
        o.__dict__.update(args[0].__dict__)
        o._rel_of = (args[0],) + tuple(args[1:]) + tuple(sorted(kw.items()))
        o._tag = name
        return o
    return h


LAYOUT_PARTS = {"pycaption.geometry:Point.as_percentage_of": _tag(Point, "rel"),
                "pycaption.geometry:Stretch.as_percentage_of": _tag(Stretch, "rel"),
                "pycaption.geometry:Padding.as_percentage_of": _tag(Padding, "rel")}


def layout_relativize(c):
    """Layout.as_percentage_of relativizes origin, extent and padding with (width, height) and keeps
    the alignment"""
    L = mk_layout(c, "a")
    # (one dimension may be missing: whether that matters is for the parts to say, axis by axis - a layout whose
    # absolute lengths all lie on the axis that WAS supplied is written)
    given = c.pick("dimensions_given", ["both", "width only", "height only", "none"]) if c.symbolic else "both"
    W = c.int("W", 1, 10 ** 5) if given in ("both", "width only") else None
    H = c.int("H", 1, 10 ** 5) if given in ("both", "height only") else None
    r = c.call(Layout.as_percentage_of, L, W, H, compare=False)
    c.ensure("is_layout", type(r) is Layout)
    c.ensure("alignment_kept", r.alignment is L.alignment)
    for f in ("origin", "extent", "padding"):
        src, got = getattr(L, f), getattr(r, f)
        if src is None:
            c.ensure(f + "_stays_absent", got is None)
        elif c.symbolic:
            c.ensure(f + "_relativized_with_width_and_height",
                     getattr(got, "_rel_of", None) is not None and got._rel_of[0] is src
                     and got._rel_of[1] is W and got._rel_of[2] is H)
        else:
            c.ensure(f + "_relativized_with_width_and_height", got == src.as_percentage_of(W, H))


def fit_to_screen(c):
    """origin inside the safe area: right edge <= 90 %, bottom edge <= 95 %; a missing extent reaches
    exactly those edges; an extent that fits is unchanged (float slack 2**-50 relative)"""
    x, y = c.real("x", 10, 90), c.real("y", 5, 95)
    has_ext = c.pick("extent?", [False, True])
    origin = c.new(Point, x=c.new(Size, value=x, unit=UnitEnum.PERCENT), y=c.new(Size, value=y, unit=UnitEnum.PERCENT))
    ext = None
    if has_ext:
        w, h = c.real("w", 0, 200), c.real("h", 0, 200)
        ext = c.new(Stretch, horizontal=c.new(Size, value=w, unit=UnitEnum.PERCENT),
                    vertical=c.new(Size, value=h, unit=UnitEnum.PERCENT))
    pad = c.pick("pad", [None, "p"])
    pad = mk_padding(c, "p") if pad else None
    al = c.new(Alignment, horizontal=HorizontalAlignmentEnum.LEFT, vertical=VerticalAlignmentEnum.TOP)
    L = c.new(Layout, origin=origin, extent=ext, padding=pad, alignment=al, webvtt_positioning=None)
    parts0 = (ext.horizontal, ext.vertical) if has_ext else None
    r = c.call(Layout.fit_to_screen, L, compare=False)
    # frame: the layout it was called on - and the value objects it is made of, which other layouts may share - are
    # left as they were; what is fitted is the layout that is returned
    c.ensure("receiver_left_as_it_was", L.origin is origin and L.extent is ext and L.padding is pad and L.alignment is al
             and (not has_ext or (ext.horizontal is parts0[0] and ext.vertical is parts0[1])))
    eps = Fraction(1, 2 ** 50)
    xx, yy = c.exact(x), c.exact(y)
    rw, rh = c.exact(r.extent.horizontal.value), c.exact(r.extent.vertical.value)
    c.ensure("origin_padding_alignment_kept", r.origin is origin and r.padding is pad and r.alignment is al)
    c.ensure("units_percent", c.conj(r.extent.horizontal.unit == UnitEnum.PERCENT, r.extent.vertical.unit == UnitEnum.PERCENT))
    c.ensure("right_edge_at_most_90", xx + rw <= 90 * (1 + eps))
    c.ensure("bottom_edge_at_most_95", yy + rh <= 95 * (1 + eps))
    if not has_ext:
        c.ensure("missing_extent_reaches_the_edges",
                 c.conj(xx + rw >= 90 * (1 - eps), yy + rh >= 95 * (1 - eps)))
    else:
        ww, hh = c.exact(w), c.exact(h)
        c.ensure("fitting_width_unchanged", c.implies(xx + ww <= 90 * (1 - eps), r.extent.horizontal is ext.horizontal))
        c.ensure("fitting_height_unchanged", c.implies(yy + hh <= 95 * (1 - eps), r.extent.vertical is ext.vertical))
        c.ensure("overflowing_width_reaches_the_edge", c.implies(xx + ww >= 90 * (1 + eps), xx + rw >= 90 * (1 - eps)))
        c.ensure("overflowing_height_reaches_the_edge", c.implies(yy + hh >= 95 * (1 + eps), yy + rh >= 95 * (1 - eps)))


def fit_without_origin(c):
    L = c.new(Layout, origin=None, extent=mk_pct_stretch(c, "e") if c.pick("e?", [True, False]) else None,
              padding=None, alignment=None, webvtt_positioning=None)
    r = c.call(Layout.fit_to_screen, L, compare=False)
    c.ensure("returned_as_is", r is L)


WRITER_PARTS = {"pycaption.geometry:Layout.as_percentage_of": _tag(Layout, "rel"),
                "pycaption.geometry:Layout.fit_to_screen": _tag(Layout, "fit"),
                "pycaption.geometry:Layout.__bool__": lambda interp, fn, args, kw: True}


def writer_entry(c):
    """BaseWriter._relativize_and_fit_to_screen: relativize (with the writer's video size) then fit"""
    rel, fit = c.pick("relativize", [True, False]), c.pick("fit", [True, False])
    W = c.int("W", 1, 10 ** 5) if c.pick("W?", [True, False]) else None
    H = c.int("H", 1, 10 ** 5) if c.pick("H?", [True, False]) else None
    w = c.new(BaseWriter, relativize=rel, video_width=W, video_height=H, fit_to_screen=fit)
    L = mk_layout(c, "a", (1, 1, 0, 0)) if c.pick("layout?", [True, False]) else None
    r = c.call(BaseWriter._relativize_and_fit_to_screen, w, L, compare=False)
    if L is None:
        c.ensure("none_stays_none", r is None)
        return
    if not c.symbolic:
        exp = L
        if rel:
            try:
                exp = exp.as_percentage_of(W, H)
            except RelativizationError:
                return
        if fit:
            exp = exp.fit_to_screen()
        c.ensure("relativize_then_fit", r == exp)
        return
    chain = []
    o = r
    while getattr(o, "_tag", None):
        chain.append((o._tag, o._rel_of))
        o = o._rel_of[0]
    c.ensure("applied_to_the_given_layout", o is L)
    want = (["fit"] if fit else []) + (["rel"] if rel else [])
    c.ensure("relativize_then_fit", [t for t, _ in chain] == want)
    for t, ro in chain:
        if t == "rel":
            c.ensure("relativized_with_the_writer_video_size", ro[1] is W and ro[2] is H)


# ---- WebVTT: never a non-percentage length; position / line / size arithmetic (also C12)

def _size_str(interp, fn, args, kw):
    """str(size) under contract: an opaque token carrying the Size (printing is bounded-checked in C18)"""
    return SStr([Opaque("Size.__str__", args[0], "0123456789.%pxemct")])


def _all_percent_layout(interp, fn, args, kw):
    """Layout.as_percentage_of under contract (proved above): every length in % or refusal"""
    L = args[0]
    p = cur()
    if p.choose(2, "rel"):
        raise RelativizationError("reference")

    def pct(n):
        v = p.fresh_real(n)
        p.assume(v >= 0)
        s = Size.__new__(Size)
        s.value, s.unit = SNum(v, "float"), UnitEnum.PERCENT
        return s
    o = Layout.__new__(Layout)
    o.origin = None if L.origin is None else _mk(Point, x=pct("ox"), y=pct("oy"))
    o.extent = None if L.extent is None else _mk(Stretch, horizontal=pct("eh"), vertical=pct("ev"))
    o.padding = None if L.padding is None else _mk(Padding, before=pct("pb"), after=pct("pa"), start=pct("ps"), end=pct("pe"))
    o.alignment, o.webvtt_positioning = L.alignment, None
    return o


def _mk(K, **f):
    o = K.__new__(K)
    o.__dict__.update(f)
    return o


WEBVTT_PARTS = {"pycaption.geometry:Size.__str__": _size_str,
                "pycaption.geometry:Layout.as_percentage_of": _all_percent_layout}


def webvtt_never_absolute(c):
    """every length WebVTTWriter._convert_positioning prints is a percentage (or nothing is printed)"""
    rel, fit = c.pick("relativize", [True, False]), c.pick("fit", [True, False])
    w = c.new(WebVTTWriter, relativize=rel, video_width=c.int("W", 1, 10 ** 5), video_height=c.int("H", 1, 10 ** 5),
              fit_to_screen=fit, global_layout=None)
    shape = c.pick("shape", [(1, 1, 1, 1), (1, 0, 0, 1), (1, 1, 0, 0), (0, 1, 1, 0), (0, 0, 0, 1), (1, 0, 1, 0)])
    L = mk_layout(c, "a", shape)
    r = c.call(WebVTTWriter._convert_positioning, w, L, raises=(RelativizationError, ValueError), compare=False)
    if isinstance(r, Raised):
        c.ensure("refusal_is_not_a_wrong_value", True)
        return
    if c.symbolic:
        atoms = [] if isinstance(r, str) else [a for a in r.atoms if isinstance(a, Opaque)]
        c.ensure("every_printed_length_is_a_percentage",
                 all(c.entails(a.payload.unit == UnitEnum.PERCENT) for a in atoms))
    else:
        lens = re.findall(r"(?:position|line|size):(\S+)", r)
        c.ensure("every_printed_length_is_a_percentage", all(x.endswith("%") for x in lens))


# ------------------------------------------------------------------------------------ bounded part

def ref2(v):
    q = Decimal(v).quantize(Decimal("0.01"), rounding=ROUND_HALF_EVEN)
    s = format(q, "f")
    s = s.rstrip("0").rstrip(".") if "." in s else s
    return "0" if s == "-0" else s          # (a difference that rounds to zero from below is printed as 0)


def printed_ok(written, exact):
    """the two-decimal print of `exact`; where the exact value lies within float error of a rounding tie
    (255.99em of 1920: 213.325) either neighbour is a correct rounding of the computed double"""
    if written == ref2(exact):
        return True
    frac = (exact * 100) % 1
    # (... unless the exact RATIONAL value is the tie itself - 92px of 640 is 14.375: then px*100/dimension is computed
    # without any rounding and the written value is the rounding of exactly that number)
    q = getattr(exact, "q", None)
    if q is not None and (q * 100) % 1 == Fraction(1, 2) and Fraction(float(q)) == q:
        return False
    return abs(frac - 0.5) < 1e-6 and written in (ref2(exact - 0.004), ref2(exact + 0.004))


def expected_pct(v, unit, W, H, horizontal):
    dim = W if horizontal else H
    if unit == UnitEnum.PERCENT:
        return float(v)
    if dim is None:
        return None
    px = {UnitEnum.PIXEL: Fraction(v), UnitEnum.EM: Fraction(v) * 16, UnitEnum.PT: Fraction(v) * 4 / 3}.get(unit)
    if unit == UnitEnum.CELL:
        return _Exact(Fraction(v) * 100 / (32 if horizontal else 15))
    return _Exact(px * 100 / dim)


class _Exact(float):
    """a float that remembers the exact rational it stands for"""

    def __new__(cls, q):
        o = float.__new__(cls, float(q))
        o.q = q
        return o


def bounded_one_dimension(ctx, b):
    """only one video dimension supplied: lengths on that axis are converted, percentages on the other axis pass
    through, an absolute length on the other axis is refused; writers configured by position as well as by keyword"""
    PX, PC = UnitEnum.PIXEL, UnitEnum.PERCENT
    for axis in ("width", "height"):
        for other_absolute in (False, True):
            hx, vy = (PX, PX if other_absolute else PC) if axis == "width" else (PX if other_absolute else PC, PX)
            L = Layout(origin=Point(Size(64 if hx is PX else 10, hx), Size(36 if vy is PX else 10, vy)),
                       padding=Padding(before=Size(18 if vy is PX else 5, vy), after=Size(18 if vy is PX else 5, vy),
                                       start=Size(32 if hx is PX else 5, hx), end=Size(32 if hx is PX else 5, hx)))
            W, H = (640, None) if axis == "width" else (None, 360)
            for level in ("node", "caption", "language"):
                node = CaptionNode.create_text("x", layout_info=L if level == "node" else None)
                cs = CaptionSet({"en": CaptionList([Caption(0, 10 ** 6, [node], layout_info=L if level == "caption" else None)],
                                                   layout_info=L if level == "language" else None)})
                for Wr in (DFXPWriter, SAMIWriter, WebVTTWriter):
                    for positional in (False, True):
                        # (a text node's own layout is written by WebVTT only; SAMI writes the language's paddings)
                        writes_it = Wr is WebVTTWriter or level == "language" or (Wr is DFXPWriter and level == "caption")
                        if not writes_it:
                            continue

                        def one(Wr=Wr, cs=cs, W=W, H=H, other_absolute=other_absolute, positional=positional):
                            w = Wr(True, W, H, False) if positional else Wr(relativize=True, video_width=W, video_height=H, fit_to_screen=False)
                            try:
                                out = w.write(cs)
                            except RelativizationError:
                                return other_absolute, {"refused_although_every_absolute_length_lies_on_the_supplied_axis": True}
                            if other_absolute:
                                return False, {"written_although_a_needed_dimension_is_missing": out[:500]}
                            lens = re.findall(r'(?:tts:origin|tts:padding)="([^"]*)"', out) + re.findall(r"(?:position|line|size):(\S+)", out) + \
                                re.findall(r"margin-(?:top|right|bottom|left): ([^;]+);", out)
                            toks = sorted({t for x in lens for t in x.split()})
                            return bool(toks) and all(t in ("10%", "5%", "15%", "80%", "70%") for t in toks), {"lengths_written": toks, "output": out[:500]}
                        b.guard(("one_dimension", axis, other_absolute, level, Wr.__name__, positional), one,
                                sample={"supplied": axis, "absolute_length_on_the_other_axis": other_absolute, "level": level, "writer": Wr.__name__,
                                        "writer_configured_by_position": positional})


def bounded_shared_layout(ctx, b):
    """one Layout object carried by three captions (percentage origin / extent, paddings in px or %): every cue is written
    with the values of the first - converting a length for one cue does not touch the layout the others share"""
    for unit, fit in itertools.product([UnitEnum.PIXEL, UnitEnum.PERCENT], [False, True]):
        pad = Padding(*[Size(v, unit) for v in ((18, 9, 32, 16) if unit is UnitEnum.PIXEL else (5, 2.5, 5, 2.5))])
        L = Layout(origin=Point(Size(10, UnitEnum.PERCENT), Size(20, UnitEnum.PERCENT)), extent=Stretch(Size(50, UnitEnum.PERCENT), Size(30, UnitEnum.PERCENT)), padding=pad)
        for level in ("caption", "node"):
            caps = [Caption(j * 10 ** 6, (j + 1) * 10 ** 6, [CaptionNode.create_text(f"t{j}", layout_info=L if level == "node" else None)],
                            layout_info=L if level == "caption" else None) for j in range(3)]
            cs = CaptionSet({"en": CaptionList(caps)})

            def one(cs=cs, fit=fit):
                out = WebVTTWriter(relativize=True, video_width=640, video_height=360, fit_to_screen=fit).write(cs)
                settings = re.findall(r"--> \S+ (.*)", out)
                return len(settings) == 3 and len(set(settings)) == 1 and "position:15%" in settings[0], {"cue_settings": settings}
            b.guard(("shared_layout", unit.value, fit, level), one, sample={"padding_unit": unit.value, "fit_to_screen": fit, "level": level, "cues_sharing_one_layout": 3})


def bounded_writers(ctx, b):
    rng = random.Random(ctx.seed)
    # (127.99 of 640 is 19.998%: rounds to a whole number without being one; 0.01 of 640 rounds to 0)
    vals = [0, 1, 10, 64, 36.5, 100, 33.333, 12.5, 640, 7, 127.99, 0.01, 63.99, 255.99]
    videos = [(640, 360), (1920, 1080), (720, 720), (None, None), (640, None), (None, 360), (1080, 1920)]
    n = 120 if not ctx.thorough else 2000
    # deterministic prefix: equal values on both axes, square video, landscape then portrait -
    # the situations in which a result computed for one axis could be reused for the other
    fixed = [(u, wh, v, v, he, v, v, lvl, ft)
             for u in UnitEnum for wh in [(720, 720), (1920, 1080), (1080, 1920)] for v in (10, 7)
             for he in (False, True) for lvl in ("node", "language") for ft in (True, False)]
    fixed += [(UnitEnum.PIXEL, (640, 360), 127.99, 71.99, False, 10, 10, lvl, False) for lvl in ("node", "caption")]
    fixed += [(UnitEnum.PIXEL, (640, 360), 0.01, 0.01, False, 10, 10, "node", False)]
    # lengths whose percentage is EXACTLY a tie of the second decimal (92px of 640 = 14.375): px*100/dimension is exact
    # there, and the written value is the rounding of that exact number (the other order of operations is not)
    fixed += [(UnitEnum.PIXEL, (640, 480), ox_, oy_, False, 10, 10, lvl, False) for ox_, oy_ in ((92, 69), (204, 153), (348, 69)) for lvl in ("caption", "language")]
    fixed += [(UnitEnum.EM, (640, 480), 5.75, 4.3125, False, 10, 10, "caption", False), (UnitEnum.PT, (640, 480), 69, 51.75, False, 10, 10, "caption", False)]
    # a box at the left / top edge of the video (x = 0, y = 0), without extent and with one that crosses the far edge
    fixed += [(u, (640, 360), 0, 0 if yz else 10, he, {UnitEnum.PERCENT: 95, UnitEnum.PIXEL: 620, UnitEnum.EM: 39, UnitEnum.PT: 460,
                                                        UnitEnum.CELL: 31}[u], 10, lvl, True)
              for u in UnitEnum for he in (False, True) for lvl in ("node", "caption") for yz in (False, True)]
    for i in range(len(fixed) + n):
        if i < len(fixed):
            unit, (W, H), ox, oy, has_ext, ew, eh, level, fit = fixed[i]
        else:
            unit = rng.choice(list(UnitEnum))
            W, H = rng.choice(videos)
            ox, oy = rng.choice(vals), rng.choice(vals)
            has_ext = rng.random() < 0.5
            ew, eh = rng.choice(vals), rng.choice(vals)
            level = rng.choice(["node", "caption", "language"])
            fit = rng.choice([True, False])
        mk = lambda v: Size(v, unit)
        L = Layout(origin=Point(mk(ox), mk(oy)), extent=Stretch(mk(ew), mk(eh)) if has_ext else None,
                   padding=rng.choice([Padding(mk(1), mk(2), mk(3), mk(4)), Padding(mk(1), mk(2), mk(12), mk(1)), Padding(mk(0), mk(0), mk(9), mk(0))])
                   if (rng.random() < 0.4 and not (i < len(fixed) and ox == 0)) else None)
        node = CaptionNode.create_text("x", layout_info=L if level == "node" else None)
        cap = Caption(0, 10 ** 6, [node], layout_info=L if level == "caption" else None)
        cs = CaptionSet({"en": CaptionList([cap], layout_info=L if level == "language" else None)})
        import copy
        pristine = copy.deepcopy(cs)
        for Wr in (DFXPWriter, SAMIWriter, WebVTTWriter):
            key = (Wr.__name__, unit.value, W, H, ox, oy, has_ext, ew, eh, level, fit, L.padding is not None)

            def one(Wr=Wr):
                w = Wr(relativize=True, video_width=W, video_height=H, fit_to_screen=fit)
                # the code asks for the reference dimension for every absolute unit, cells included
                need_w = unit != UnitEnum.PERCENT and W is None
                need_h = unit != UnitEnum.PERCENT and H is None
                try:
                    out = w.write(cs)
                except RelativizationError:
                    # refusing is right only if a needed dimension is missing (SAMI only writes paddings)
                    ok = need_w or need_h
                    return ok, {"refused_although_dimensions_were_given": key}
                lens = re.findall(r'(?:tts:origin|tts:extent|tts:padding)="([^"]*)"', out) + \
                    re.findall(r"(?:position|line|size):(\S+)", out) + \
                    re.findall(r"margin-(?:top|right|bottom|left): ([^;]+);", out)
                toks = [t for x in lens for t in x.split()]
                bad = [t for t in toks if not t.endswith("%")]
                if bad:
                    return False, {"non_percentage_lengths": bad, "output": out[:600]}
                if Wr is DFXPWriter:
                    m = re.search(r'tts:origin="(\S+) (\S+)"', out.split("</layout>")[0].split('xml:id="bottom"')[-1])
                    ex, ey = expected_pct(ox, unit, W, H, True), expected_pct(oy, unit, W, H, False)
                    if m and ex is not None and ey is not None:
                        if not (printed_ok(m.group(1).rstrip("%"), ex) and printed_ok(m.group(2).rstrip("%"), ey)):
                            return False, {"origin_written": m.groups(), "expected": (ref2(ex), ref2(ey))}
                        if fit and 10 <= ex <= 90 and 5 <= ey <= 95:
                            me = re.search(r'tts:extent="(\S+)% (\S+)%"', out)
                            if not me:
                                return False, {"fit_to_screen": "no extent written", "output": out[:400]}
                            rw, rh = float(me.group(1)), float(me.group(2))
                            if ex + rw > 90.011 or ey + rh > 95.011:
                                return False, {"fit_to_screen": "region exceeds the safe area", "edges": (ex + rw, ey + rh)}
                            if not has_ext and (abs(ex + rw - 90) > 0.011 or abs(ey + rh - 95) > 0.011):
                                return False, {"fit_to_screen": "missing extent does not reach the edges", "edges": (ex + rw, ey + rh)}
                if Wr is WebVTTWriter and fit and L.padding is not None:
                    # with paddings the cue box (position = left edge + left padding, size = width - both paddings) still ends
                    # at or before the 90% edge
                    ex = expected_pct(ox, unit, W, H, True)
                    mp, ms = re.search(r"position:([\d.]+)%", out), re.search(r"size:([\d.]+)%", out)
                    if ex is not None and 0 <= ex <= 89 and mp and ms and float(mp.group(1)) + float(ms.group(1)) > 90.6:
                        return False, {"fit_to_screen": "padded cue box crosses the 90% edge", "position_plus_size": float(mp.group(1)) + float(ms.group(1)), "output": out[:300]}
                if Wr is WebVTTWriter and fit and L.padding is None:
                    # WebVTT: the cue box never crosses the 90% edge, and a missing extent reaches it - also from x = 0
                    ex = expected_pct(ox, unit, W, H, True)
                    ew_ = expected_pct(ew, unit, W, H, True) if has_ext else None
                    mp, ms = re.search(r"position:([\d.]+)%", out), re.search(r"size:([\d.]+)%", out)
                    if ex is not None and 0 <= ex <= 89 and mp:
                        if not ms:
                            return False, {"fit_to_screen": "no size written for a positioned cue", "output": out[:300]}
                        right = float(mp.group(1)) + float(ms.group(1))
                        want = 90 if (ew_ is None or ex + ew_ > 90) else ex + ew_
                        if right > 90.5 or abs(right - want) > 1.01:          # (WebVTT prints whole percentages)
                            return False, {"fit_to_screen": "right edge of the cue box", "position_plus_size": right, "expected": want, "output": out[:300]}
                if Wr is DFXPWriter and W and H:
                    # the percentages are those of the size supplied to THIS writer: what another writer configured with
                    # another size wrote before does not matter (and without a size the refusal still happens)
                    def again(**kw):
                        try:
                            return WebVTTWriter(relativize=True, fit_to_screen=fit, **kw).write
                        except Exception:
                            raise
                    # ... nor what THIS writer object wrote before it was given another video size
                    if Wr is DFXPWriter:
                        w.video_width, w.video_height = 2 * W, 2 * H
                        try:
                            again_same = w.write(copy.deepcopy(pristine))
                        except RelativizationError:
                            again_same = "refused"
                        try:
                            fresh_other = DFXPWriter(relativize=True, video_width=2 * W, video_height=2 * H, fit_to_screen=fit).write(copy.deepcopy(pristine))
                        except RelativizationError:
                            fresh_other = "refused"
                        if again_same != fresh_other:
                            return False, {"writer_reconfigured_to_another_video_size": again_same[:400], "fresh_writer_with_that_size": fresh_other[:400]}
                    for kw in ({"video_width": 2 * W, "video_height": 2 * H}, {}):
                        res = []
                        for target in (cs, copy.deepcopy(pristine)):
                            try:
                                res.append(WebVTTWriter(relativize=True, fit_to_screen=fit, **kw).write(target))
                            except RelativizationError:
                                res.append("refused")
                        if res[0] != res[1]:
                            return False, {"written_after_a_DFXP_write_with_another_size": res[0][:300], "written_from_a_pristine_copy": res[1][:300], "second_writer": kw}
                return True, None
            b.guard(key, one, sample={"writer": Wr.__name__, "unit": unit.value, "video": (W, H), "level": level})


def run(ctx):
    P = ctx.prove
    P("geometry.Size.as_percentage_of", size_relativize, functions=[Size.as_percentage_of])
    P("geometry.composite.as_percentage_of", composite_axes,
      functions=[Point.as_percentage_of, Stretch.as_percentage_of, Padding.as_percentage_of], contracts=AXIS)
    P("geometry.Layout.as_percentage_of", layout_relativize, functions=[Layout.as_percentage_of], contracts=LAYOUT_PARTS)
    P("geometry.Layout.fit_to_screen", fit_to_screen,
      functions=[Layout.fit_to_screen, Point.add_stretch, Size.__add__])
    P("geometry.Layout.fit_to_screen/no_origin", fit_without_origin, functions=[Layout.fit_to_screen])
    P("base.BaseWriter._relativize_and_fit_to_screen", writer_entry,
      functions=[BaseWriter._relativize_and_fit_to_screen], contracts=WRITER_PARTS)
    P("webvtt.WebVTTWriter._convert_positioning/units", webvtt_never_absolute,
      functions=[WebVTTWriter._convert_positioning], contracts=WEBVTT_PARTS)
    import props.C13_levels as LV
    LV.prove_levels(ctx)
    ctx.bounded("shared_layout", "three captions (or their text nodes) carrying ONE Layout object with paddings in px or %, WebVTT with and "
                "without fit-to-screen: the three cues are written with identical settings (position 15%)", lambda b: bounded_shared_layout(ctx, b))
    ctx.bounded("one_dimension", "layouts with pixel lengths on one axis and percentages (or pixels) on the other, only that axis' "
                "video dimension supplied, at three levels x DFXP/SAMI/WebVTT writers configured by keyword and by position: "
                "written as 10% / 5% (position 15%, size 70-80%), refused exactly when the other axis needs its dimension",
                lambda b: bounded_one_dimension(ctx, b))
    ctx.bounded("writers", "layouts with one unit (5 units) x value grid x video sizes (both, none, one of two, square, "
                "portrait) x attachment level x fit_to_screen x DFXP/SAMI/WebVTT writers: every written length is a "
                "percentage with the exact two-decimal value, or the writer refuses; fit-to-screen edges",
                lambda b: bounded_writers(ctx, b))
    ctx.trust("A: callee contracts used modularly (each proved on its own in this file): Size.as_percentage_of (axis "
              "function), Point/Stretch/Padding/Layout.as_percentage_of, Layout.fit_to_screen; str(Size) opaque "
              "(printing is bounded-checked in C18)")
    ctx.assume("floats under the standard model: relativized values within 8 ulp of the exact rational, screen edges "
               "within a relative 2**-50 of 90 / 95 (far below the two printed decimals)")
    ctx.assume("video dimensions are positive integers (0 is treated as 'not supplied' by the code)")
