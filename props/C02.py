"""C02 - writing preserves every cue's start and end instant."""
import random
from fractions import Fraction

from pycaption import (CaptionSet, CaptionList, Caption, CaptionNode, SRTWriter, WebVTTWriter, DFXPWriter,
                       SAMIWriter, MicroDVDWriter)
from pycaption.dfxp.extras import LegacyDFXPWriter, SinglePositioningDFXPWriter
from refs import parsers
from refs.stubdom import StubSoup

US = 10 ** 6
DAY = 24 * 3600 * US
T = lambda s: CaptionNode.create_text(s)


def _time(c, name, kind):
    """a caption time below 24 h: an int, or a float as the SCC reader produces them"""
    return c.int(name, 0, DAY - 1) if kind == "int" else c.real(name, 0, DAY - 1)


def _floor_ms_ok(c, V, t, kind, res=1000):
    """V is the instant t truncated to the resolution `res` us.  For float t the clause is
    'V = floor(t'/res) for some t' within half a microsecond of t' (DESIGN C02: timedelta rounds
    to the microsecond before the formatter truncates; both orders are 'truncated')."""
    if kind == "int":
        return V == t // res
    t = c.exact(t)
    return (V * res <= t + Fraction(1, 2)) & (t - Fraction(1, 2) < (V + 1) * res)


def format_timestamp(c):
    kind = c.pick("kind", ["int", "float"])
    sep = c.pick("sep", [None, ",", "."])
    t = _time(c, "t", kind)
    cap = c.new(Caption, start=t, end=t, nodes=[T("x")], style={}, layout_info=None)
    which = c.pick("entry", ["format_start", "format_end", "_format_timestamp"])
    if which == "_format_timestamp":
        r = c.call(Caption._format_timestamp, cap, t, sep)
    else:
        r = c.call(getattr(Caption, which), cap, sep)
    f = c.view_fields(r, [("d", 2), ":", ("d", 2), ":", ("d", 2), sep or ".", ("d", 3)])
    c.ensure("shape_HH:MM:SS_mmm", f is not None)
    if f is not None:
        h, m, s, ms = f
        c.ensure("ranges", (m < 60) & (s < 60) & (ms < 1000) & (h < 24))
        c.ensure("value", _floor_ms_ok(c, ((h * 60 + m) * 60 + s) * 1000 + ms, t, kind))


def webvtt_timestamp(c):
    kind = c.pick("kind", ["int", "float"])
    t = _time(c, "t", kind)
    r = c.call(WebVTTWriter._timestamp, c.new(WebVTTWriter), t)
    f3 = c.view_fields(r, [("d", 2), ":", ("d", 2), ":", ("d", 2), ".", ("d", 3)])
    f2 = c.view_fields(r, [("d", 2), ":", ("d", 2), ".", ("d", 3)]) if f3 is None else None
    c.ensure("shape", f3 is not None or f2 is not None)
    if f3 is not None:
        h, m, s, ms = f3
        c.ensure("hours_written_only_if_nonzero", h > 0)
    elif f2 is not None:
        h, (m, s, ms) = 0, f2
    else:
        return
    c.ensure("ranges", (m < 60) & (s < 60) & (ms < 1000) & (h < 24))
    c.ensure("value", _floor_ms_ok(c, ((h * 60 + m) * 60 + s) * 1000 + ms, t, kind))


def microdvd_frames(c):
    kind = c.pick("kind", ["int", "float"])
    t = _time(c, "t", kind)
    r = c.call(MicroDVDWriter._microtoframes, c.new(MicroDVDWriter), t)
    c.ensure("is_int", c.is_int(r))
    if kind == "int":
        c.ensure("value", r == (t * 25) // US)
    else:
        # frame = floor(t' * 25 / 10**6) for some t' within half a microsecond of t
        tx = c.exact(t)
        c.ensure("value", (r * US <= (tx + Fraction(1, 2)) * 25) & ((tx - Fraction(1, 2)) * 25 < (r + 1) * US))


def srt_timing_lines(c):
    """SRTWriter._recreate_lang on two captions with symbolic times (list length fixed at 2: the
    loop is unrolled, the times are symbolic): one block per caption, or one merged block when both
    spans are identical; index lines count from 1; timing line 'HH:MM:SS,mmm --> HH:MM:SS,mmm'."""
    s1, e1, s2, e2 = (c.int(n, 0, DAY - 1) for n in ("s1", "e1", "s2", "e2"))
    caps = [c.new(Caption, start=s1, end=e1, nodes=[T("a")], style={}, layout_info=None),
            c.new(Caption, start=s2, end=e2, nodes=[T("b")], style={}, layout_info=None)]
    r = c.call(SRTWriter._recreate_lang, c.new(SRTWriter), caps)
    stamp = [("d", 2), ":", ("d", 2), ":", ("d", 2), ",", ("d", 3)]
    same = c.truth((s1 == s2) & (e1 == e2))
    if same:
        f = c.view_fields(r, ["1\n"] + stamp + [" --> "] + stamp + ["\na \nb\n"])
        c.ensure("merged_block_shape", f is not None)
        spans = [(f[:4], f[4:], s1, e1)] if f is not None else []
    else:
        f = c.view_fields(r, ["1\n"] + stamp + [" --> "] + stamp + ["\na\n\n2\n"] + stamp + [" --> "] + stamp + ["\nb\n"])
        c.ensure("two_blocks_shape", f is not None)
        spans = [(f[:4], f[4:8], s1, e1), (f[8:12], f[12:], s2, e2)] if f is not None else []
    for i, (a, b, s, e) in enumerate(spans):
        c.ensure(f"start{i}", ((a[0] * 60 + a[1]) * 60 + a[2]) * 1000 + a[3] == s // 1000)
        c.ensure(f"end{i}", ((b[0] * 60 + b[1]) * 60 + b[2]) * 1000 + b[3] == e // 1000)


def srt_any_number(c):
    """SRTWriter._recreate_lang for ANY number of captions (loop invariants over z3 sequences): the
    printed cues are numbered 1, 2, ... and their (start, end) stamps are exactly the captions' spans in
    order with consecutive identical spans collapsed into one cue.  The stamp text itself is
    Caption.format_start / format_end (contract proved above: 'HH:MM:SS,mmm' of floor(t / 1000) ms, 12
    characters below 100 h); the cue text statements (which assign only new_content / node) are abstracted."""
    import ast
    import z3
    from pyvc import heap
    from pyvc.heap import SymList, SymRef, declare, loop_rule, SEQ, INT, REAL, heap_array, as_seq
    from pyvc.interp import SymObject, function_ast
    from pyvc.sym import zreal, Fmt, Digits, Inapplicable, cur, SStr, Opaque
    from pycaption.base import Caption as RealCaption
    heap.install(c.interp)
    saved = dict(heap.SCHEMAS)
    p = cur()
    p.ghost["symbolic_heap"] = True
    RSEQ = z3.SeqSort(REAL)

    class OpaqueList(heap.SymId):
        """a node list known only by identity; concatenation gives another one; never empty (A: the
        Caption constructor rejects empty node lists)"""
        def __add__(self, o):
            return OpaqueList(cur().fresh_int("nodes"))
        __radd__ = __add__
        def __bool__(self):
            return True
        def __hash__(self):
            return id(self)

    class Stamp(SymObject):
        def __init__(self, which, t):
            self.which, self.t = which, t
        def sym_getitem(self, interp, k):
            if not (isinstance(k, slice) and k.start is None and k.stop == 12 and k.step is None):
                raise Inapplicable("stamp sliced other than [:12]")
            return SStr([Opaque("stamp", (self.which, self.t), "0123456789:,", lo=12)])

    class Text(SymObject):
        def sym_format(self, spec):
            return SStr([Opaque("text", None, "x", lo=0)])

    class SrtLog(SymObject):
        """the SRT text abstracted to what was printed: the sequences of start and end instants, and
        whether every index line carried the number of its cue"""
        def __init__(self, S, E, nok):
            self.S, self.E, self.nok = S, E, nok
        @staticmethod
        def of(x):
            return x if isinstance(x, SrtLog) else SrtLog(z3.Empty(RSEQ), z3.Empty(RSEQ), z3.BoolVal(True))
        def __add__(self, piece):
            out = self
            for a in (piece.atoms if isinstance(piece, SStr) else []):
                if isinstance(a, (Fmt, Digits)):
                    out = SrtLog(out.S, out.E, z3.And(out.nok, a.val == z3.Length(out.S) + 1))
                elif isinstance(a, Opaque) and a.tag == "stamp":
                    which, t = a.payload
                    if which == "start":
                        out = SrtLog(z3.Concat(out.S, z3.Unit(t)), out.E, out.nok)
                    else:
                        out = SrtLog(out.S, z3.Concat(out.E, z3.Unit(t)), out.nok)
            return out
        def sym_getitem(self, interp, k):
            return self

    heap.CUSTOM_KINDS["olist"] = OpaqueList
    try:
        declare(RealCaption, start="num!", end="num!", nodes="olist", style="id", layout_info="id")
        X = SymList(z3.Const("captions", SEQ), RealCaption)
        n = z3.Length(X.t)
        ST, EN = heap_array(p, RealCaption, "start"), heap_array(p, RealCaption, "end")
        DS, DE = z3.Function("DS", SEQ, RSEQ), z3.Function("DE", SEQ, RSEQ)      # spans with consecutive duplicates collapsed
        OS, OE = z3.Function("OS", SEQ, RSEQ), z3.Function("OE", SEQ, RSEQ)      # spans of a caption list
        E0, R0 = z3.Empty(SEQ), z3.Empty(RSEQ)
        p.assume(z3.And(DS(E0) == R0, DE(E0) == R0, OS(E0) == R0, OE(E0) == R0))

        def snoc(s, x):
            sx = z3.Concat(s, z3.Unit(x))
            last = s[z3.Length(s) - 1]
            same = z3.And(z3.Length(s) > 0, ST[x] == ST[last], EN[x] == EN[last])
            return z3.And(OS(sx) == z3.Concat(OS(s), z3.Unit(ST[x])), OE(sx) == z3.Concat(OE(s), z3.Unit(EN[x])),
                          DS(sx) == z3.If(same, DS(s), z3.Concat(DS(s), z3.Unit(ST[x]))),
                          DE(sx) == z3.If(same, DE(s), z3.Concat(DE(s), z3.Unit(EN[x]))))

        def pre(s, i):
            return z3.SubSeq(s, 0, i)

        def split_last(s):
            """sequence-theory lemma instance: a non-empty sequence is its front plus its last element"""
            m = z3.Length(s)
            return z3.Implies(m >= 1, z3.And(s == z3.Concat(pre(s, m - 1), z3.Unit(s[m - 1])), snoc(pre(s, m - 1), s[m - 1])))

        def definitions(S):
            for s_, x_ in S.p.ghost.get("appends", []):
                S.p.assume(snoc(s_, x_))

        def inv1(S):
            # loop over captions[1:]: index i of the tail is index i + 1 of the list
            i = S.i
            definitions(S)
            S.p.assume(z3.Implies(n >= 1, z3.And(pre(X.t, 1) == z3.Unit(X.t[0]), snoc(E0, X.t[0]))))
            S.p.assume(z3.Implies(i + 1 < n, z3.And(pre(X.t, i + 2) == z3.Concat(pre(X.t, i + 1), z3.Unit(X.t[i + 1])),
                                                     snoc(pre(X.t, i + 1), X.t[i + 1]))))
            M = as_seq(S.local("merged_captions"))
            S.p.assume(split_last(M))
            P = pre(X.t, i + 1)
            lastm = M[z3.Length(M) - 1]
            return [("loop_runs_over_all_captions_after_the_first", z3.And(z3.Length(S.seq.t) == z3.If(n >= 1, n - 1, 0),
                                                                            z3.Implies(i + 1 < n, S.seq.t[i] == X.t[i + 1]))),
                    ("no_caption_no_cue", z3.Implies(n == 0, M == E0)),
                    ("one_cue_per_run_so_far", z3.Implies(n >= 1, z3.And(z3.Length(M) >= 1, OS(M) == DS(P), OE(M) == DE(P)))),
                    ("last_cue_has_the_span_of_the_last_caption", z3.Implies(n >= 1, z3.And(ST[lastm] == ST[X.t[i]], EN[lastm] == EN[X.t[i]])))]
        q = "pycaption.srt:SRTWriter._recreate_lang"
        c.interp.loop_hooks[(q, 1)] = loop_rule("merge", inv1, locals_={"merged_captions": ("seq", RealCaption)},
                                                fields=[(RealCaption, "layout_info"), (RealCaption, "nodes"), (RealCaption, "style")])

        def inv2(S):
            j = S.i
            definitions(S)
            Mt = S.seq.t
            S.p.assume(z3.Implies(j < z3.Length(Mt), z3.And(pre(Mt, j + 1) == z3.Concat(pre(Mt, j), z3.Unit(Mt[j])), snoc(pre(Mt, j), Mt[j]))))
            S.p.assume(pre(Mt, 0) == E0)
            log = SrtLog.of(S.local("srt"))
            cnt = S.local("count")
            return [("printed_cues_are_the_merged_list_so_far", z3.And(log.S == OS(pre(Mt, j)), log.E == OE(pre(Mt, j)), log.nok,
                                                                       z3.Length(log.S) == j, zint_(cnt) == j + 1))]

        def zint_(v):
            from pyvc.sym import zint
            return zint(v)
        c.interp.loop_hooks[(q, 2)] = loop_rule(
            "print", inv2, locals_={"srt": ("custom", lambda p_, v: SrtLog(z3.Const(p_._name("S"), RSEQ), z3.Const(p_._name("E"), RSEQ), p_.fresh_bool("nok"))),
                                    "count": ("int", None), "start": ("skip", None), "end": ("skip", None),
                                    "new_content": ("skip", None), "node": ("skip", None), "line": ("skip", None)})
        # the cue-text statements are abstracted; they may assign nothing but new_content / node / line
        fn_node = function_ast(SRTWriter._recreate_lang)
        loops = [st for st in fn_node.body if isinstance(st, ast.For)]
        if len(loops) != 2:
            raise Inapplicable(f"expected the merge loop and the print loop, found {len(loops)} loops")
        text_stmts = [st for st in loops[1].body if (isinstance(st, ast.For) and isinstance(st.iter, ast.Attribute) and st.iter.attr == "nodes")
                      or (isinstance(st, ast.Assign) and any(isinstance(t, ast.Name) and t.id == "new_content" for t in st.targets)
                          and isinstance(st.value, ast.Call))]
        if len(text_stmts) != 2:
            raise Inapplicable(f"expected the node loop and the blank-line filter, found {len(text_stmts)} cue-text statements")
        for st in text_stmts:
            names = heap.assigned_names([st])
            if not names <= {"new_content", "node", "line"} or heap.stored_fields([st]) or heap.mutated_names([st]):
                raise Inapplicable(f"cue-text statement at line {st.lineno} assigns {sorted(names)}")

            def hook(interp, s_, frame):
                frame.locals["new_content"] = Text()
                return "skip"
            c.interp.stmt_hooks[(q, st.lineno)] = hook
        c.interp.contracts["pycaption.base:Caption.format_start"] = lambda interp, fn, a, kw: Stamp("start", zreal(a[0].start))
        c.interp.contracts["pycaption.base:Caption.format_end"] = lambda interp, fn, a, kw: Stamp("end", zreal(a[0].end))
        r = c.call(SRTWriter._recreate_lang, c.new(SRTWriter), X, compare=False)
        log = SrtLog.of(r)
        p.assume(pre(X.t, n) == X.t)
        M = None
        c.ensure("cue_numbers_count_from_one", log.nok)
        c.ensure("printed_starts_are_the_spans_with_identical_neighbours_collapsed", log.S == DS(X.t))
        c.ensure("printed_ends_are_the_spans_with_identical_neighbours_collapsed", log.E == DE(X.t))
    finally:
        heap.SCHEMAS.clear()
        heap.SCHEMAS.update(saved)
        heap.CUSTOM_KINDS.pop("olist", None)


def microdvd_any_number(c):
    """MicroDVDWriter._recreate_lang for ANY number of captions (loop invariant over a z3 sequence): the
    printed frame numbers are exactly _microtoframes(start), _microtoframes(end) of every caption, in order,
    each once - no caption skipped, merged or printed with another one's frames.  _microtoframes is used by
    contract (proved above; here an uninterpreted MF of the instant); the cue-text statements (which may
    assign only new_content / node / line) are abstracted."""
    import ast
    import z3
    from pyvc import heap
    from pyvc.heap import SymList, declare, loop_rule, SEQ, INT, REAL, heap_array
    from pyvc.interp import SymObject, function_ast
    from pyvc.sym import zreal, mkint, Fmt, Digits, Inapplicable, cur, SStr
    from pyvc.verify import args_by_name
    from pycaption.base import Caption as RealCaption
    heap.install(c.interp)
    saved = dict(heap.SCHEMAS)
    p = cur()
    p.ghost["symbolic_heap"] = True
    ISEQ = z3.SeqSort(INT)

    class OpaqueList(heap.SymId):
        def __add__(self, o):
            return OpaqueList(cur().fresh_int("nodes"))
        __radd__ = __add__
        def __bool__(self):
            return True
        def __hash__(self):
            return id(self)

    class Text(SymObject):
        def sym_format(self, spec):
            return SStr([])

    class FrameLog(SymObject):
        """the MicroDVD text abstracted to the sequence of numbers printed into it"""
        def __init__(self, F):
            self.F = F
        @staticmethod
        def of(x):
            return x if isinstance(x, FrameLog) else FrameLog(z3.Empty(ISEQ))
        def __add__(self, piece):
            out = self
            for a in (piece.atoms if isinstance(piece, SStr) else []):
                if isinstance(a, (Fmt, Digits)):
                    out = FrameLog(z3.Concat(out.F, z3.Unit(a.val)))
            return out

    heap.CUSTOM_KINDS["olist"] = OpaqueList
    try:
        declare(RealCaption, start="num!", end="num!", nodes="olist", style="id", layout_info="id")
        X = SymList(z3.Const("captions", SEQ), RealCaption)
        n = z3.Length(X.t)
        ST, EN = heap_array(p, RealCaption, "start"), heap_array(p, RealCaption, "end")
        MF = z3.Function("MICROTOFRAMES", REAL, INT)
        FR = z3.Function("FRAMES_OF", SEQ, ISEQ)          # start frame, end frame of every caption of a list
        E0 = z3.Empty(SEQ)
        p.assume(FR(E0) == z3.Empty(ISEQ))

        def snoc(s, x):
            return FR(z3.Concat(s, z3.Unit(x))) == z3.Concat(FR(s), z3.Unit(MF(ST[x])), z3.Unit(MF(EN[x])))

        def pre(s, i):
            return z3.SubSeq(s, 0, i)

        def inv(S):
            i = S.i
            Xt = S.seq.t
            S.p.assume(z3.Implies(i < z3.Length(Xt), z3.And(pre(Xt, i + 1) == z3.Concat(pre(Xt, i), z3.Unit(Xt[i])), snoc(pre(Xt, i), Xt[i]))))
            S.p.assume(pre(Xt, 0) == E0)
            log = FrameLog.of(S.local("sub"))
            return [("loop_runs_over_the_captions", Xt == X.t),
                    ("printed_frames_are_those_of_the_captions_so_far", log.F == FR(pre(Xt, i)))]
        q = "pycaption.microdvd:MicroDVDWriter._recreate_lang"
        fn_node = function_ast(MicroDVDWriter._recreate_lang)
        loops = [st for st in fn_node.body if isinstance(st, ast.For)]
        if len(loops) != 1:
            raise Inapplicable(f"expected one loop over the captions, found {len(loops)}")
        # cue-text statements: statements of the body that read and write nothing but the cue text (new_content / node /
        # line, the caption and the writer), have no side effect and cannot leave the iteration early
        text_names = {"new_content", "node", "line"}
        tgt = {nd.id for nd in ast.walk(loops[0].target) if isinstance(nd, ast.Name)}
        text_stmts = []
        for st in loops[0].body:
            names = heap.assigned_names([st])
            used = {nd.id for nd in ast.walk(st) if isinstance(nd, ast.Name)}
            jumps = any(isinstance(nd, (ast.Continue, ast.Break, ast.Return, ast.Raise, ast.Yield, ast.YieldFrom)) for nd in ast.walk(st))
            if names and names <= text_names and used <= text_names | tgt | {"self"} and not jumps \
                    and not heap.stored_fields([st]) and not heap.mutated_names([st]):
                text_stmts.append(st)
        skip = {nm: ("skip", None) for nm in sorted(text_names | {"start", "end"})}
        c.interp.loop_hooks[(q, 1)] = loop_rule(
            "print", inv, locals_=dict(skip, sub=("custom", lambda p_, v: FrameLog(z3.Const(p_._name("F"), ISEQ)))))
        for st in text_stmts:
            def hook(interp, s_, frame):
                frame.locals["new_content"] = Text()
                return "skip"
            c.interp.stmt_hooks[(q, st.lineno)] = hook

        def frames(interp, fn, a, kw):
            A = args_by_name(fn, a, kw)
            return mkint(MF(zreal(A["micro"])))
        c.interp.contracts["pycaption.microdvd:MicroDVDWriter._microtoframes"] = frames
        from pyvc.verify import require_callees
        require_callees(c.interp.contracts)
        r = c.call(MicroDVDWriter._recreate_lang, c.new(MicroDVDWriter), X, compare=False)
        log = FrameLog.of(r)
        p.assume(pre(X.t, n) == X.t)
        c.ensure("printed_frames_are_start_and_end_of_every_caption_in_order", log.F == FR(X.t))
    finally:
        heap.SCHEMAS.clear()
        heap.SCHEMAS.update(saved)
        heap.CUSTOM_KINDS.pop("olist", None)


def dfxp_p_times(c):
    """<p begin= end=> of the DFXP writers (A: bs4 new_tag keeps the attribute values)"""
    W = c.pick("writer", [DFXPWriter, LegacyDFXPWriter])
    kind = c.pick("kind", ["int", "float"])
    s, e = _time(c, "s", kind), _time(c, "e", kind)
    cap = c.new(Caption, start=s, end=e, nodes=[T("a")], style={}, layout_info=None)
    w = c.new(W, open_span=False, p_style=False, region_creator=None, write_inline_positioning=False)
    soup = StubSoup()
    p = c.call(W._recreate_p_tag, w, cap, {"class": "default"}, soup)
    stamp = [("d", 2), ":", ("d", 2), ":", ("d", 2), ".", ("d", 3)]
    for name, t in (("begin", s), ("end", e)):
        f = c.view_fields(p.attrs[name], stamp)
        c.ensure(name + "_shape", f is not None)
        if f is not None:
            c.ensure(name + "_value", _floor_ms_ok(c, ((f[0] * 60 + f[1]) * 60 + f[2]) * 1000 + f[3], t, kind))


def sami_sync_decision(c):
    """One SAMIWriter._recreate_p_tag call in the primary language, from any writer state
    (last_time = None or the previous cue's end millisecond): the paragraph goes into a sync at
    floor(start/1000) (an int), a blank sync at last_time is written before it exactly when
    last_time is set and differs, and last_time becomes floor(end/1000).  write() resets last_time
    to None per language, so by induction over the caption list: a blank sync at every end
    millisecond unless the next cue starts there, none after the last cue."""
    kind = c.pick("kind", ["int", "float"])
    has_last = c.pick("has_last", [False, True])
    s, e = _time(c, "s", kind), _time(c, "e", kind)
    last = c.int("last", 0, DAY // 1000) if has_last else None
    cap = c.new(Caption, start=s, end=e, nodes=[T("a")], style={}, layout_info=None)
    w = c.new(SAMIWriter, open_span=False, last_time=last)
    soup = StubSoup(("sami", ("head", ("style",)), ("body",)))
    cs = c.new(CaptionSet, _captions={"en": [cap]}, _styles={}, layout_info=None)
    c.call(SAMIWriter._recreate_p_tag, w, cap, soup, "en", "en", cs)
    syncs = soup.body.children
    start_ms = syncs[-1].attrs["start"] if syncs else None
    c.ensure("paragraph_sync_written", len(syncs) >= 1 and syncs[-1].children[0].string == "a")
    c.ensure("start_is_int", c.is_int(start_ms))
    sx, ex = c.exact(s), c.exact(e)
    c.ensure("start_value", (start_ms * 1000 <= sx) & (sx < (start_ms + 1) * 1000))
    expect_blank = has_last and c.truth(last != start_ms)
    c.ensure("blank_sync_iff_previous_end_differs", (len(syncs) == 2) == bool(expect_blank))
    if len(syncs) == 2:
        c.ensure("blank_at_previous_end", (syncs[0].attrs["start"] == last) & (syncs[0].children[0].string == "&nbsp;"))
    c.ensure("last_time_is_end_ms", c.is_int(w.last_time) and c.truth((w.last_time * 1000 <= ex) & (ex < (w.last_time + 1) * 1000)))


# ------------------------------------------------------------------------------------ bounded part

def make_sets(rng, n):
    """caption sets with 0 <= start <= end < 24 h: integer times on a carry grid + seeded random,
    and the fractional times the SCC reader produces (k*100100/3, k*100000/3)"""
    grid = [0, 999, 1000, 999999, US, 59 * US + 999999, 60 * US, 3599 * US + 999000, 3600 * US,
            86399 * US + 999999, 8040000, 33366, 5 * US,
            # millisecond values whose float images fall just below an integer, and the first minute after one hour
            1001000, 1003000, 2002000, 66776264000, 3600 * US + 1, 3600 * US + 59 * US + 999000, 3661 * US, 7200 * US - 1000]
    out = []
    for i in range(n):
        k = rng.choice([1, 2, 3, 4])
        mode = rng.choice(["grid", "rand", "scc", "identical", "adjacent", "samestart", "sameend"])
        pts = []
        if mode == "scc":
            ks = sorted(rng.sample(range(0, 2 * 10 ** 6), 2 * k))
            base = rng.choice([100100, 100000])
            pts = [x * base / 3 for x in ks]
        elif mode == "grid":
            pts = sorted(rng.choice(grid) for _ in range(2 * k))
        else:
            pts = sorted(rng.randrange(0, DAY) for _ in range(2 * k))
        spans = [(pts[2 * j], pts[2 * j + 1]) for j in range(k)]
        if mode == "identical" and k > 1:
            spans[1] = spans[0]
            spans.sort()
        if mode == "samestart" and k > 1:
            spans[1] = (spans[0][0], spans[1][1])
            spans.sort()
        if mode == "sameend" and k > 1:
            spans[0] = (spans[0][0], spans[1][1])
            spans.sort()
        if mode == "adjacent" and k > 1:
            spans[1] = (spans[0][1], max(spans[1][1], spans[0][1]))
            spans.sort()
        caps = CaptionList([Caption(s, e, [T(f"cue {j}")]) for j, (s, e) in enumerate(spans)])
        langs = {"en-US": caps}
        if i % 3 == 2:
            # a second language with its own instants, falling between and onto those of the first
            lo = min(s for s, _ in spans)
            fr = [(lo + (q + 1) * 700000 + 250, lo + (q + 1) * 700000 + 400250) for q in range(rng.choice([2, 3, 4]))]
            if isinstance(lo, int):
                langs["fr-FR"] = CaptionList([Caption(s, e, [T(f"fr {q}")]) for q, (s, e) in enumerate(fr)])
        out.append((spans, CaptionSet(langs)))
    # spans a microsecond or two apart, hours into the programme, are not identical: each caption keeps its own cue
    for spans in ([(3600 * US + 999, 3605 * US), (3600 * US + 1001, 3605 * US)],
                  [(7200 * US, 7204 * US + 999), (7200 * US, 7204 * US + 1000)],
                  [(86000 * US + 999, 86001 * US + 999), (86000 * US + 1000, 86001 * US + 1000), (86000 * US + 1000, 86001 * US + 1000)]):
        out.append((spans, CaptionSet({"en-US": CaptionList([Caption(s_, e_, [T(f"cue {j}")]) for j, (s_, e_) in enumerate(spans)])})))
    return out


def expect_ms(t):
    """set of acceptable millisecond values of an instant (floats: t' within 0.5 us)"""
    if isinstance(t, int):
        return {t // 1000}
    f = Fraction(t)
    return {int((f - Fraction(1, 2)) // 1000) if f >= Fraction(1, 2) else 0, int((f + Fraction(1, 2)) // 1000)}


def merge_identical(spans):
    out = []
    for sp in spans:
        if out and out[-1] == sp:
            continue
        out.append(sp)
    return out


def bounded_writers(ctx, b):
    rng = random.Random(ctx.seed)
    sets = make_sets(rng, 60 if not ctx.thorough else 800)
    writers = {"srt": SRTWriter(), "webvtt": WebVTTWriter(), "dfxp": DFXPWriter(), "legacy": LegacyDFXPWriter(),
               "single": SinglePositioningDFXPWriter(), "sami": SAMIWriter(), "microdvd": MicroDVDWriter()}
    for spans, cs in sets:
        for name, w in writers.items():
            use = cs
            if name not in ("sami", "dfxp", "legacy", "single") and len(cs.get_languages()) > 1:
                # SRT / MicroDVD write every language into one file, WebVTT the first one: these formats are
                # checked on the first language alone
                use = CaptionSet({"en-US": cs.get_captions("en-US")})
            if name == "webvtt" and len(spans) > 1 and spans[0][0] % 5 == 4:
                # WebVTT keeps a caption whose only text node is empty as a cue with a non-breaking space
                cl = CaptionList([Caption(c_.start, c_.end, [T("" if j == 1 else f"cue {j}")]) for j, c_ in enumerate(cs.get_captions("en-US"))])
                use = CaptionSet({"en-US": cl})
            out = w.write(use)
            detail = None
            ok = True
            try:
                if name == "srt":
                    cues = parsers.parse_srt(out)
                    exp = merge_identical(spans)
                    ok = len(cues) == len(exp) and all(
                        cu["start"] // 1000 in expect_ms(s) and cu["end"] // 1000 in expect_ms(e)
                        for cu, (s, e) in zip(cues, exp)) and [cu["index"] for cu in cues] == list(range(1, len(exp) + 1))
                elif name == "webvtt":
                    cues = parsers.parse_webvtt(out)
                    ok = len(cues) == len(spans) and all(
                        cu["start"] // 1000 in expect_ms(s) and cu["end"] // 1000 in expect_ms(e)
                        for cu, (s, e) in zip(cues, spans))
                elif name in ("dfxp", "legacy", "single"):
                    d = parsers.parse_dfxp(out)
                    cues = d["cues"].get("en-US", [])
                    exp = spans if name == "dfxp" else merge_identical(spans)
                    ok = len(cues) == len(exp) and all(
                        cu["start"] // 1000 in expect_ms(s) and cu["end"] // 1000 in expect_ms(e)
                        for cu, (s, e) in zip(cues, exp))
                elif name == "sami":
                    d = parsers.parse_sami(out)
                    cues = d["cues"].get("en-US", [])
                    ok = len(cues) == len(spans)
                    for j, (cu, (s, e)) in enumerate(zip(cues, spans)):
                        ok = ok and cu["start"] // 1000 in expect_ms(s)
                        if j + 1 < len(spans):
                            # end conveyed by a blank sync or by the next cue's start
                            ok = ok and cu["end"] is not None and (cu["end"] // 1000 in expect_ms(e) or
                                                                   cu["end"] // 1000 in expect_ms(spans[j + 1][0]))
                            if expect_ms(e).isdisjoint(expect_ms(spans[j + 1][0])):
                                ok = ok and cu["end"] // 1000 in expect_ms(e)
                        else:
                            ok = ok and cu["end"] is None      # no end written for the last cue
                    if "fr-FR" in cs.get_languages():
                        want_fr = [(c_.start // 1000, c_.end // 1000) for c_ in cs.get_captions("fr-FR")]
                        got_fr = [(cu["start"] // 1000, cu["end"] // 1000 if cu["end"] is not None else None) for cu in d["cues"].get("fr-FR", [])]
                        ok = ok and [g[0] for g in got_fr] == [w_[0] for w_ in want_fr] and \
                            all(g[1] == w_[1] for g, w_ in zip(got_fr[:-1], want_fr[:-1])) and \
                            (d["syncs"] == sorted(d["syncs"]) or any(e1 > s2 for (_, e1), (s2, _) in zip(spans, spans[1:])))
                        if not ok:
                            detail = {"second_language": got_fr, "expected": want_fr, "syncs": d["syncs"]}
                else:
                    cues = parsers.parse_microdvd(out)

                    def frames(t):
                        if isinstance(t, int):
                            return {t * 25 // US}
                        f = Fraction(t)
                        return {int(max(f - Fraction(1, 2), 0) * 25 // US), int((f + Fraction(1, 2)) * 25 // US)}
                    ok = len(cues) == len(spans) and all(
                        cu["start_frame"] in frames(s) and cu["end_frame"] in frames(e) for cu, (s, e) in zip(cues, spans))
                if not ok:
                    detail = {"writer": name, "spans": spans, "parsed": [(cu.get("start"), cu.get("end")) for cu in cues]}
            except parsers.FormatError as ex:
                ok, detail = False, {"writer": name, "spans": spans, "format_error": str(ex)}
            b.case((name, tuple(spans)), ok, detail, sample={"writer": name, "spans": spans, "output": out[:300]})
    # SAMI, two languages: the end of a non-primary cue that falls on a millisecond where the primary language already
    # has a sync is conveyed all the same (a blank paragraph of ITS language in that sync)
    for en_spans, fr_spans in [([(1000000, 2000000), (4000000, 5000000)], [(500000, 4000000), (6000000, 7000000)]),
                               ([(1000000, 3000000), (3000000, 5000000), (8000000, 9000000)], [(2000000, 3000000), (6000000, 8000000)]),
                               ([(0, 1000000), (5000000, 6000000)], [(250000, 5000000)])]:
        def sami_two(en_spans=en_spans, fr_spans=fr_spans):
            cs = CaptionSet({"en-US": CaptionList([Caption(s_, e_, [T(f"en {j}")]) for j, (s_, e_) in enumerate(en_spans)]),
                             "fr-FR": CaptionList([Caption(s_, e_, [T(f"fr {j}")]) for j, (s_, e_) in enumerate(fr_spans)])})
            d = parsers.parse_sami(writers["sami"].write(cs))
            for lang, spans in (("en-US", en_spans), ("fr-FR", fr_spans)):
                got = [(cu["start"], cu["end"]) for cu in d["cues"].get(lang, [])]
                want = [(s_, e_ if j + 1 < len(spans) else None) for j, (s_, e_) in enumerate(spans)]
                if got != want:
                    return False, {"language": lang, "written": got, "expected_starts_and_non_final_ends": want, "syncs": d["syncs"]}
            return True, None
        b.guard(("sami-two-languages", tuple(en_spans), tuple(fr_spans)), sami_two, sample={"en-US": en_spans, "fr-FR": fr_spans})
    # language options and an empty language next to the written one do not take cues away: every caption of the written
    # language keeps its timed cue
    for i in range(4 if not ctx.thorough else 20):
        k = rng.choice([1, 2, 3])
        pts = sorted(rng.randrange(0, 5000 * US) // 1000 * 1000 for _ in range(2 * k))
        spans = [(pts[2 * j], pts[2 * j + 1]) for j in range(k)]
        mk = lambda extra: CaptionSet(dict([("en-US", CaptionList([Caption(s_, e_, [T(f"cue {j}")]) for j, (s_, e_) in enumerate(spans)]))] + extra))
        variants = [("alone", mk([]), {}), ("empty_language_after", mk([("de-DE", CaptionList())]), {}),
                    ("two_languages", mk([("fr-FR", CaptionList([Caption(1000, 2000, [T("fr")])]))]), {})]
        for vname, cs, _ in variants:
            calls = [("webvtt", {}), ("webvtt", {"lang": "en-US"}), ("sami", {})] + \
                    [(nm, kw) for nm in ("dfxp", "legacy", "single") for kw in ({}, {"force": "en-US"}, {"force": "en-us"}, {"force": "EN-US"}, {"force": "zz"})]
            for name, kw in calls:
                if name == "legacy" and kw.get("force") in ("en-us", "EN-US", "zz") and vname != "alone":
                    continue        # (the legacy writer writes the LAST language under the forced code when it is absent)
                def opt(name=name, kw=kw, cs=cs, spans=spans):
                    out = writers[name].write(cs, **kw)
                    if name == "webvtt":
                        got = [(cu["start"], cu["end"]) for cu in parsers.parse_webvtt(out)]
                    elif name == "sami":
                        got = [(cu["start"], spans[j][1]) for j, cu in enumerate(parsers.parse_sami(out)["cues"].get("en-US", []))]
                    else:
                        d = parsers.parse_dfxp(out)
                        lang_key = "en-US" if "en-US" in d["cues"] else (d["langs"][0] if d["langs"] else None)
                        got = [(cu["start"], cu["end"]) for cu in d["cues"].get(lang_key, [])]
                    return got == list(spans), {"writer": name, "options": kw, "languages": cs.get_languages(), "parsed": got, "expected": spans}
                b.guard(("options", i, vname, name, tuple(kw.items())), opt, sample={"writer": name, "options": kw, "languages": vname, "spans": spans})
    # histories: captions that were printed / formatted / written, then re-timed (adjust_caption_timing, or their times
    # assigned), are written with their NEW times by every writer
    for i in range(6 if not ctx.thorough else 40):
        k = rng.choice([1, 2, 3])
        pts = sorted(rng.randrange(2 * US, 3000 * US) // 1000 * 1000 for _ in range(2 * k))
        spans = [(pts[2 * j], pts[2 * j + 1]) for j in range(k)]
        shift = rng.choice([1500000, -1000000, 40000])
        how = ["adjust", "assign"][i % 2]

        def retimed(spans=spans, shift=shift, how=how):
            cs = CaptionSet({"en-US": CaptionList([Caption(s_, e_, [T(f"cue {j}")]) for j, (s_, e_) in enumerate(spans)])})
            for cp in cs.get_captions("en-US"):
                repr(cp), cp.format_start(), cp.format_end(), cp.format_start(msec_separator=","), cp.format_end(msec_separator=".")
            for w in writers.values():
                w.write(cs)
            if how == "adjust":
                cs.adjust_caption_timing(offset=shift, rate_skew=1.0)
            else:
                for cp in cs.get_captions("en-US"):
                    cp.start, cp.end = cp.start + shift, cp.end + shift
            want = [(s_ + shift, e_ + shift) for s_, e_ in spans]
            for name, w in writers.items():
                out = w.write(cs)
                if name == "srt":
                    got = [(cu["start"], cu["end"]) for cu in parsers.parse_srt(out)]
                elif name == "webvtt":
                    got = [(cu["start"], cu["end"]) for cu in parsers.parse_webvtt(out)]
                elif name in ("dfxp", "legacy", "single"):
                    got = [(cu["start"], cu["end"]) for cu in parsers.parse_dfxp(out)["cues"].get("en-US", [])]
                elif name == "sami":
                    got = [(cu["start"], want[j][1]) for j, cu in enumerate(parsers.parse_sami(out)["cues"].get("en-US", []))]
                else:
                    got = [(cu["start_frame"] * 40000, cu["end_frame"] * 40000) for cu in parsers.parse_microdvd(out)]
                    if got != [(int(s_) // 40000 * 40000, int(e_) // 40000 * 40000) for s_, e_ in want]:
                        return False, {"writer": name, "written_after_retiming": got, "expected": want, "retimed_by": how}
                    continue
                if [(int(a), int(b_)) for a, b_ in got] != [(int(s_), int(e_)) for s_, e_ in want]:
                    return False, {"writer": name, "written_after_retiming": got, "expected": want, "retimed_by": how}
            return True, None
        b.guard(("retimed", i), retimed, sample={"spans": spans, "shift": shift, "retimed_by": how})
    # captions with identical spans that are NOT neighbours stay separate cues, in order (only runs are merged, and only
    # by the writers that merge at all): 3-5 captions, the first span repeated after one or more others
    for i in range(12 if not ctx.thorough else 120):
        k = rng.choice([3, 4, 5])
        pts = sorted(rng.randrange(0, 3600 * US) // 1000 * 1000 for _ in range(2 * k))
        spans = [(pts[2 * j], pts[2 * j + 1]) for j in range(k)]
        spans[rng.randrange(2, k)] = spans[0]
        cs = CaptionSet({"en-US": CaptionList([Caption(s, e, [T(f"cue {j}")]) for j, (s, e) in enumerate(spans)])})
        # a caption whose text is a no-break space (what WebVTT's &nbsp; cue reads as) keeps its own timed cue in the DFXP family
        blank = CaptionSet({"en-US": CaptionList([Caption(s, e, [T("\xa0" if j == 1 else f"cue {j}")]) for j, (s, e) in enumerate(spans)])})
        for name in ("dfxp", "legacy", "single"):
            def blank_kept(name=name, spans=spans, blank=blank):
                got = [(cu["start"], cu["end"]) for cu in parsers.parse_dfxp(writers[name].write(blank))["cues"].get("en-US", [])]
                want = list(spans) if name == "dfxp" else merge_identical(spans)
                return got == want, {"writer": name, "spans": spans, "parsed": got, "expected": want}
            b.guard(("blank", i, name), blank_kept, sample={"writer": name, "spans": spans, "blank_text_caption": 1})
        for name in ("srt", "webvtt", "dfxp", "legacy", "single", "microdvd"):
            def apart(name=name, spans=spans, cs=cs):
                out = writers[name].write(cs)
                if name == "srt":
                    got = [(cu["start"], cu["end"], cu["lines"]) for cu in parsers.parse_srt(out)]
                elif name == "webvtt":
                    got = [(cu["start"], cu["end"], cu["lines"]) for cu in parsers.parse_webvtt(out)]
                elif name == "microdvd":
                    got = [(cu["start_frame"] * 40000, cu["end_frame"] * 40000, cu["lines"]) for cu in parsers.parse_microdvd(out)]
                    return [(s_ // 40000 * 40000, e_ // 40000 * 40000) for s_, e_ in spans] == [(g[0], g[1]) for g in got] and \
                        [g[2] for g in got] == [[f"cue {j}"] for j in range(len(spans))], {"writer": name, "spans": spans, "parsed": got}
                else:
                    got = [(cu["start"], cu["end"], cu["lines"]) for cu in parsers.parse_dfxp(out)["cues"].get("en-US", [])]
                want = [(s_, e_, [f"cue {j}"]) for j, (s_, e_) in enumerate(spans)]
                return got == want, {"writer": name, "spans": spans, "parsed": got}
            b.guard(("apart", i, name), apart, sample={"writer": name, "spans": spans})


def run(ctx):
    P = ctx.prove
    P("base.Caption._format_timestamp", format_timestamp,
      functions=[Caption._format_timestamp, Caption.format_start, Caption.format_end])
    P("webvtt.WebVTTWriter._timestamp", webvtt_timestamp, functions=[WebVTTWriter._timestamp])
    P("microdvd.MicroDVDWriter._microtoframes", microdvd_frames, functions=[MicroDVDWriter._microtoframes])
    P("srt.SRTWriter._recreate_lang[2 captions]", srt_timing_lines,
      functions=[SRTWriter._recreate_lang, SRTWriter._recreate_line])
    P("srt.SRTWriter._recreate_lang[any number of captions]", srt_any_number, functions=[SRTWriter._recreate_lang], crosscheck=False)
    P("microdvd.MicroDVDWriter._recreate_lang[any number of captions]", microdvd_any_number,
      functions=[MicroDVDWriter._recreate_lang], crosscheck=False)
    P("dfxp._recreate_p_tag", dfxp_p_times, functions=[DFXPWriter._recreate_p_tag, LegacyDFXPWriter._recreate_p_tag])
    P("sami.SAMIWriter._recreate_p_tag", sami_sync_decision,
      functions=[SAMIWriter._recreate_p_tag, SAMIWriter._recreate_blank_tag, SAMIWriter._recreate_sync])
    import props.C03_lines as LN
    LN.prove_cue_lines(ctx)          # (WebVTT: a caption with a text node yields at least one cue)
    # DFXPWriter.write: one <p> per caption of every written language, none skipped (skeleton contract shared with C07)
    import props.C07_write as WS
    WS.prove_write_skeleton(ctx)
    WS.prove_sami_write_skeleton(ctx)         # (the sync bookkeeping starts afresh for every language)
    WS.prove_single_positioning_write(ctx)    # (force= reaches the DFXP writer: the cues of the forced language, no others)
    WS.prove_legacy_write_skeleton(ctx)
    WS.prove_plain_write_skeleton(ctx)        # (SRT / MicroDVD: every language handed to _recreate_lang once, in order)
    import props.C14 as C14
    P("webvtt.WebVTTWriter.write/language", C14.webvtt_write_language, functions=[WebVTTWriter.write], crosscheck=False)   # (an absent lang= writes no cue)
    # the legacy / single-position DFXP writers merge exactly the runs of IDENTICAL spans (contract shared with C19)
    import props.C19 as C19
    P("base.merge_concurrent_captions", C19.mcc, functions=[C19.merge_concurrent_captions], setup_interp=C19.setup, crosscheck=False)
    ctx.bounded("writers", "caption sets of 1-4 cues (carry grid, seeded random, SCC-style fractional times, "
                "identical and adjacent spans) x 7 writers, outputs parsed by the reference parsers; "
                "non-trivial = distinct (writer, spans)", lambda b: bounded_writers(ctx, b))
    ctx.trust("A: datetime.timedelta(microseconds=t) normalisation (seconds = t div 1e6 mod 86400, "
              "microseconds = t mod 1e6, nearest microsecond for floats); float // int = floor of the exact "
              "quotient; bs4 new_tag/append/[]= as in refs/stubdom.py; int-format specs 02d/03d/02/03")
    ctx.assume("fractional (SCC) times: 'truncated' is read as floor(t'/res) for some t' within 0.5 us of t")
    ctx.assume("SRTWriter timing lines proved for a list of two captions with symbolic times (unrolled), longer lists bounded")
