"""C15 - SCC lines longer than 32 characters are never returned silently."""
import ast
import itertools
import random

import z3

from pycaption import SCCReader
from pycaption.exceptions import CaptionLineLengthError
from pycaption.scc.specialized_collections import PreCaption
from pyvc import heap
from pyvc.heap import SymList, SymRef, SymKey, SymDefaultDictOfLists, declare, loop_rule, SEQ, INT
from pyvc.sym import cur, Inapplicable, SInt
from pyvc.interp import SymObject
from refs import cea608 as C

declare(PreCaption)


class Line:
    """one line of a caption's text, known by an identity; its length is LEN(identity)"""


declare(Line)
LEN = z3.Function("LINE_LENGTH", INT, INT)
LINES = z3.Function("LINES_OF_CAPTION", INT, SEQ)
# spec function: the lines of a sequence that are longer than 32 characters, in order (defined by its fold
# equations, instantiated where the proof touches the sequence)
LONG = z3.Function("LONGER_THAN_32", SEQ, SEQ)


class AbsText(SymObject):
    """the caption's text: only split("\\n") is meaningful - it yields the caption's lines"""

    def __init__(self, lines):
        self.lines = lines

    def sym_getattr(self, interp, name):
        if name == "split":
            def split(sep=None, *rest):
                if sep != "\n" or rest:
                    raise Inapplicable("caption text split other than at line breaks")
                return SymList(self.lines, Line)
            return split
        raise Inapplicable(f"str.{name} on the abstract caption text")


def region_accumulation(c):
    """Region of SCCReader.read from `lines_too_long = defaultdict(list)` to the end of the scan loop.
    The two statements that compute a caption's key (formatted start) and its text are abstracted (KEY(c);
    the text is known through its lines LINES(c) and their lengths: checked by the bounded part).  Proved, for
    any number of captions with any number of lines: the comprehension selects exactly the lines LONGER THAN
    32 characters, in order (inner loop invariant against the spec function LONG), and the accumulation:
    afterwards, for EVERY key k, lines_too_long[k] is the concatenation, in transmission order, of
    LONG(LINES(c)) over the captions with KEY(c) = k - nothing is lost when captions share a start time,
    whatever their order."""
    p = cur()
    caps = SymList(z3.Const("caps", SEQ), PreCaption)
    n = z3.Length(caps.t)
    KEY = z3.Function("KEY", INT, INT)
    TL = lambda ref: LONG(LINES(ref))
    p.assume(LONG(z3.Empty(SEQ)) == z3.Empty(SEQ))
    ACC = z3.Function("ACC", INT, INT, SEQ)
    k_ = z3.Int("any_key")       # an arbitrary key: a fresh constant stands for "for every key"
    p.assume(ACC(0, k_) == z3.Empty(SEQ))

    def accdef(j):
        return ACC(j + 1, k_) == z3.If(KEY(caps.t[j]) == k_, z3.Concat(ACC(j, k_), TL(caps.t[j])), ACC(j, k_))
    stash = type("Stash", (), {})()
    stash._collection = caps
    reader = c.new(SCCReader, caption_stash=stash)
    cur_ref = {}

    def is_assign_to(name):
        return lambda st: isinstance(st, ast.Assign) and len(st.targets) == 1 and \
            isinstance(st.targets[0], ast.Name) and st.targets[0].id == name

    def h_start(interp, st, frame):
        frame.locals["caption_start"] = SymKey(KEY(frame.locals["caption"].ref))
        return "skip"

    def h_text(interp, st, frame):
        frame.locals["caption_text"] = AbsText(LINES(frame.locals["caption"].ref))
        return "skip"

    old_len = c.interp.overrides[len]
    c.interp.overrides[len] = lambda x: SInt(LEN(x.ref)) if isinstance(x, SymRef) and x.cls is Line else old_len(x)

    def inv_lines(S):
        """the comprehension over the lines of one caption: what was kept so far is LONG(lines seen so far)"""
        lines = S.seq.t
        pre, pre1 = z3.SubSeq(lines, 0, S.i), z3.SubSeq(lines, 0, S.i + 1)
        x = lines[S.i]
        S.p.assume(z3.Implies(S.i < S.n, z3.And(
            pre1 == z3.Concat(pre, z3.Unit(x)),                                             # (sequence theory: prefix snoc)
            LONG(pre1) == z3.If(LEN(x) > 32, z3.Concat(LONG(pre), z3.Unit(x)), LONG(pre)))))    # fold equation of LONG
        S.p.assume(z3.SubSeq(lines, 0, S.n) == lines)
        return [("kept_lines_are_the_lines_longer_than_32", heap.as_seq(S.local("__comp")) == LONG(pre))]
    c.interp.loop_hooks[("pycaption.scc:SCCReader.read", ("comp", comp_ordinal()))] = loop_rule(
        "long_lines.comp", inv_lines, locals_={"__comp": ("seq", Line)})

    def h_dict(interp, st, frame):
        frame.locals["lines_too_long"] = SymDefaultDictOfLists()
        return "skip"

    def inv(S):
        S.p.assume(accdef(S.i))
        d = S.local("lines_too_long")
        return [("every_key_holds_all_long_lines_of_its_captions",
                 z3.Select(d.arr, k_) == ACC(S.i, k_))]

    def havoc_dict(p_, name):
        return SymDefaultDictOfLists(z3.Const(p_._name("D"), z3.ArraySort(INT, SEQ)),
                                     z3.Const(p_._name("Dpresent"), z3.ArraySort(INT, z3.BoolSort())))
    rule = loop_rule("scan.loop", inv, locals_={"lines_too_long": ("custom", havoc_dict), "caption_start": ("skip", None),
                                               "caption_text": ("skip", None), "text_too_long": ("skip", None), "line": ("skip", None)})
    q = "pycaption.scc:SCCReader.read"
    c.interp.loop_hooks[(q, scan_loop_ordinal())] = rule
    loc = c.run_region(
        SCCReader.read,
        first=is_assign_to("lines_too_long"),
        last=lambda st: isinstance(st, ast.For) and isinstance(st.iter, ast.Attribute) and st.iter.attr == "_collection",
        locals_={"self": reader},
        stmt_hooks=[(is_assign_to("caption_start"), h_start), (is_assign_to("caption_text"), h_text),
                    (is_assign_to("lines_too_long"), h_dict)])
    d = loc["lines_too_long"]
    c.ensure("no_long_line_is_lost_for_any_key", z3.Select(d.arr, k_) == ACC(n, k_))


def comp_ordinal():
    """position of the comprehension that selects the over-long lines among the list comprehensions of read()"""
    from pyvc.interp import function_ast
    node = function_ast(SCCReader.read)
    comps = sorted((x for x in ast.walk(node) if isinstance(x, ast.ListComp)), key=lambda x: (x.lineno, x.col_offset))
    for k, cp in enumerate(comps, 1):
        it = cp.generators[0].iter
        if isinstance(it, ast.Call) and isinstance(it.func, ast.Attribute) and it.func.attr == "split":
            return k
    return -1


def scan_loop_ordinal():
    from pyvc.interp import function_ast
    node = function_ast(SCCReader.read)
    fors = sorted((x for x in ast.walk(node) if isinstance(x, ast.For)), key=lambda x: (x.lineno, x.col_offset))
    for k, f in enumerate(fors, 1):
        if isinstance(f.iter, ast.Attribute) and f.iter.attr == "_collection":
            return k
    return -1


# ------------------------------------------------------------------------------------ bounded part

ROWS_TEXT = "ABCDEFGHIJKLMNOPQRSTUVWXYZ0123456789ABCD"      # 40 characters


def row_words(text, row=15):
    """code words of a row; '~' stands for a mid-row italics code (it occupies one cell), '^' for the row's own
    preamble address code sent again in the middle of the row (the cursor is already there: nothing moves)"""
    if "^" in text:
        out = []
        for k, piece in enumerate(text.split("^")):
            out += ([C.pac(row)] if k else []) + row_words(piece, row)
        return out
    text = text.lstrip("/\x01")
    for other, code in OTHER_MIDROW.items():             # (further codes that occupy a cell: written like '~')
        if other in text:
            return [code if w == C.midrow(True) else w for w in row_words(text.replace(other, "~"), row)]
    if "\b" in text:
        out = []
        for k, piece in enumerate(text.split("\b")):
            out += ([C.ctrl("BS")] if k else []) + row_words(piece, row)
        return out
    parts = text.split("~")
    ws = list(C.text_words(parts[0]))
    for part in parts[1:]:
        ws += [C.midrow(True)]
        if part.startswith("_"):            # '_' right after it: a padding word (8080) before the text goes on
            ws.append("8080")
            part = part[1:]
        ws += list(C.text_words(part))
    return ws


OTHER_MIDROW = {"!": C.ctrl("FON"), "@": C.midrow(False, True), "$": C.word(0x11, 0x22)}     # flash on, white underlined, green


def pac_for(row, text):
    """the row's preamble address code: an italic one when the row text is marked with a leading '/'; every leading
    \\x01 indents it by four columns"""
    k = len(text) - len(text.lstrip("\x01"))
    return C.pac(row, 0, italics=True) if text.startswith("/") else C.pac(row, 4 * k)


def cells(t):
    """columns a row occupies.  A mid-row code is one cell; where it is followed by a padding word ('~_') the count is
    exact, otherwise such rows are chosen well above / below 32 and the cell is not counted"""
    t = t.lstrip("/\x01").replace("^", "").rstrip(" ")        # (trailing blanks are not part of the line)
    for other in OTHER_MIDROW:
        t = t.replace(other, "~")
    while "\b" in t:                         # a backspace erases the character before it
        k = t.index("\b")
        t = t[:max(k - 1, 0)] + t[k + 1:]
    return len(t.replace("~", "").replace("_", "")) + (t.count("~") if "_" in t else 0)


def popon(rows, tc, cr=False):
    """one pop-on caption with the given (row number, text) rows, shown with EOC; one line of SCC"""
    ws = [C.ctrl("ENM"), C.ctrl("RCL")]
    for r, text in rows:
        ws.append(pac_for(r, text))
        ws += row_words(text, r)
        if cr:
            ws.append(C.ctrl("CR"))
    ws += [C.ctrl("EDM"), C.ctrl("EOC")]
    return tc, ws


def stream(mode, rowsets, terminated=True, cr=False):
    """cr: a carriage return (94ad) is sent after every row also in pop-on and paint-on mode (where it moves nothing)"""
    lines = []
    t = 30
    if mode == "pop":
        for rows in rowsets:
            lines.append(popon(rows, C.timecode(t), cr))
            t += 90
        if terminated:
            lines.append((C.timecode(t), [C.ctrl("EDM")]))
    elif mode == "roll":
        for rows in rowsets:
            for r, text in rows:
                lines.append((C.timecode(t), [C.ctrl("RU2"), C.ctrl("CR"), pac_for(15, text)] + row_words(text, 15)))
                t += 90
        if terminated:
            lines.append((C.timecode(t), [C.ctrl("CR")]))
    else:
        for rows in rowsets:
            ws = [C.ctrl("RDC")]
            for r, text in rows:
                ws += [pac_for(r, text)] + row_words(text, r) + ([C.ctrl("CR")] if cr else [])
            lines.append((C.timecode(t), ws))
            t += 90
        if terminated:
            lines.append((C.timecode(t), [C.ctrl("RDC")]))
    return C.scc_document(lines)


def doubled(doc):
    """the same stream with every control code sent twice (text words once), as broadcast equipment does"""
    out = []
    for line in doc.split("\n"):
        if "\t" not in line:
            out.append(line)
            continue
        tc, ws = line.split("\t")
        ws2 = []
        for w in ws.split():
            ws2.append(w)
            if (int(w[:2], 16) & 0x7F) < 0x20 and w != "8080":
                ws2.append(w)
        out.append(tc + "\t" + " ".join(ws2))
    return "\n".join(out)


def stream_rows_with_cr(mode, texts):
    """rows sent one per line to the same address, each followed by a carriage return; the mode command is sent once"""
    mode_word = {"pop": C.ctrl("RCL"), "roll": C.ctrl("RU2"), "paint": C.ctrl("RDC")}[mode]
    lines, t = [], 30
    for k, text in enumerate(texts):
        lines.append((C.timecode(t), ([mode_word] if k == 0 else []) + [C.pac(15)] + row_words(text, 15) + [C.ctrl("CR")]))
        t += 60
    if mode == "pop":
        lines += [(C.timecode(t), [C.ctrl("EOC")]), (C.timecode(t + 60), [C.ctrl("EDM")])]
    return C.scc_document(lines)


def bounded(ctx, b):
    rng = random.Random(ctx.seed)
    lens = [0, 1, 31, 32, 33, 34, 40]
    # several captions sharing a start time: one pop-on buffer with rows on NON-adjacent screen rows
    # is split into captions with equal times; every order of long / short rows
    cases = []
    for mode in ("pop", "roll", "paint"):
        for term in (True, False):
            for l1, l2, l3 in itertools.product([5, 32, 33, 36], repeat=3):
                cases.append((mode, term, [[(1, ROWS_TEXT[:l1]), (5, ROWS_TEXT[:l2]), (9, ROWS_TEXT[:l3])]]))
            for l1, l2 in itertools.product(lens, repeat=2):
                cases.append((mode, term, [[(14, ROWS_TEXT[:l1])], [(15, ROWS_TEXT[:l2])]]))
    # leading blanks are columns too: rows that exceed 32 only when their indentation is counted
    for mode in ("pop", "roll", "paint"):
        for lead, total in itertools.product([1, 2, 5], [32, 33, 34]):
            ind = " " * lead + ROWS_TEXT[:total - lead]
            cases.append((mode, True, [[(14, ind), (15, ROWS_TEXT[:10])]]))
            cases.append((mode, True, [[(14, ROWS_TEXT[:10]), (15, ind)]]))
            cases.append((mode, False, [[(3, ind)], [(9, ROWS_TEXT[:5])]]))
    for mode in ("pop", "roll", "paint"):
        # a row interrupted by a mid-row style code is still ONE line: 18 + 1 + 18 cells, or 10 + 1 + 10
        cases.append((mode, True, [[(15, ROWS_TEXT[:18] + "~" + ROWS_TEXT[:18])]]))
        cases.append((mode, True, [[(15, ROWS_TEXT[:10] + "~" + ROWS_TEXT[:10])]]))
        cases.append((mode, True, [[(14, ROWS_TEXT[:5]), (15, ROWS_TEXT[:17] + "~" + ROWS_TEXT[:17])]]))
        # two over-long rows on consecutive screen rows of ONE caption: both are named
        cases.append((mode, True, [[(14, ROWS_TEXT[:34]), (15, "X" + ROWS_TEXT[:35])]]))
        cases.append((mode, True, [[(13, ROWS_TEXT[:33]), (14, ROWS_TEXT[:10]), (15, "Y" + ROWS_TEXT[:36])]]))
        # an empty row (a preamble address code without text) next to a long one, in both orders of transmission
        cases.append((mode, True, [[(5, "top"), (10, ""), (11, ROWS_TEXT[:34])]]))
        cases.append((mode, True, [[(10, ""), (11, ROWS_TEXT[:34]), (5, "top")]]))
        cases.append((mode, True, [[(5, "top"), (10, ""), (11, ROWS_TEXT[:30])]]))
        # a mid-row code followed by a padding word keeps its cell: 20 + 1 + 12 = 33 columns, 20 + 1 + 11 = 32
        cases.append((mode, True, [[(15, ROWS_TEXT[:20] + "~_" + ROWS_TEXT[:12])]]))
        cases.append((mode, True, [[(15, ROWS_TEXT[:20] + "~_" + ROWS_TEXT[:11])]]))
        cases.append((mode, True, [[(3, "top")], [(15, ROWS_TEXT[:20] + "~_" + ROWS_TEXT[:12])], [(15, "end")]]))
        # a row of blanks only is a row like any other: it is not merged with the next row sent to the same address
        cases.append((mode, True, [[(15, "  ")], [(15, ROWS_TEXT[:31])]]))
        cases.append((mode, True, [[(15, ROWS_TEXT[:31])], [(15, "  ")], [(15, ROWS_TEXT[:31])]]))
        cases.append((mode, False, [[(14, " ")], [(14, ROWS_TEXT[:32])], [(15, "   ")], [(15, ROWS_TEXT[:30])]]))
    for _ in range(100 if not ctx.thorough else 2000):
        mode = rng.choice(["pop", "roll", "paint"])
        sets = [[(r, ROWS_TEXT[:rng.choice(lens + [10, 20])]) for r in sorted(rng.sample([1, 3, 5, 7, 9, 11, 13, 15], rng.choice([1, 2, 3])))]
                for _ in range(rng.choice([1, 2, 3]))]
        cases.append((mode, rng.choice([True, False]), sets))
    # one reader object for all streams (the outcome must depend on the stream only, also after a read that raised)
    shared = SCCReader()
    for mode in ("pop", "roll", "paint"):
        # the row's own preamble address code sent again in the middle of the row: still ONE row of 40 / 20 / 33 columns
        cases.append((mode, True, [[(15, ROWS_TEXT[:20] + "^" + ROWS_TEXT[:20])]]))
        cases.append((mode, True, [[(15, ROWS_TEXT[:10] + "^" + ROWS_TEXT[:10])]]))
        cases.append((mode, True, [[(3, "top")], [(15, ROWS_TEXT[:20] + "^" + ROWS_TEXT[:13])]]))
        cases.append((mode, False, [[(14, ROWS_TEXT[:16] + "^" + ROWS_TEXT[:16])]]))
        # carriage returns between the rows of a pop-on / paint-on caption do not glue the rows together
        cases.append((mode, True, [[(1, ROWS_TEXT[:20]), (5, ROWS_TEXT[:20]), (9, ROWS_TEXT[:20])]], True))
        cases.append((mode, True, [[(15, ROWS_TEXT[:20])], [(15, ROWS_TEXT[:20])], [(15, ROWS_TEXT[:20])]], True))
        cases.append((mode, True, [[(13, ROWS_TEXT[:30]), (14, ROWS_TEXT[:34]), (15, ROWS_TEXT[:5])]], True))
    shared_cr = SCCReader()
    for mode in ("pop", "roll", "paint"):
        for lens_ in ([20, 20, 20], [12, 12], [32, 1, 32], [20, 33, 5], [16, 17]):
            texts_ = [ROWS_TEXT[:k] for k in lens_]

            def crs(mode=mode, texts_=texts_):
                doc = stream_rows_with_cr(mode, texts_)
                longs_ = [t for t in texts_ if len(t) > 32]
                try:
                    cs = shared_cr.read(doc)
                except CaptionLineLengthError as e:
                    return bool(longs_) and all(f"{t} - Length {len(t)}" in str(e) for t in longs_), {"raised": str(e)[:300], "row_lengths": [len(t) for t in texts_]}
                too = [ln for cap in cs.get_captions("en-US") for ln in cap.get_text().split("\n") if len(ln) > 32]
                return not too and not longs_, {"returned_silently": too or longs_}
            b.guard(("rows_with_cr", mode, tuple(lens_)), crs, sample={"mode": mode, "row_lengths": lens_, "carriage_return_after_every_row": True})
    for mode in ("pop", "roll", "paint"):
        # a backspace takes one character away (single or doubled codes alike): 34 typed - 1 = 33 columns, 33 - 1 = 32
        cases.append((mode, True, [[(15, ROWS_TEXT[:34] + "\b")]], False, True))
        cases.append((mode, True, [[(15, ROWS_TEXT[:34] + "\b")]], False, False))
        cases.append((mode, True, [[(15, ROWS_TEXT[:33] + "\b")]], False, True))
        cases.append((mode, True, [[(15, ROWS_TEXT[:20] + "\b" + ROWS_TEXT[:14])]], False, True))
        # a full row followed, on the next row, by a row that opens with a mid-row italics code
        cases.append((mode, True, [[(14, ROWS_TEXT[:32]), (15, "~" + ROWS_TEXT[:10])]]))
        cases.append((mode, True, [[(14, ROWS_TEXT[:32]), (15, "~" + ROWS_TEXT[:10])]], False, True))
        cases.append((mode, True, [[(13, ROWS_TEXT[:31]), (14, "~" + ROWS_TEXT[:31]), (15, ROWS_TEXT[:5])]]))
        # the outcome does not depend on the order in which the rows of one screen are sent: a full row and an italic
        # row elsewhere on the screen, a full row with a trailing blank and a short row - in both orders
        for rows in ([(5, ROWS_TEXT[:32]), (1, "~HELLO")], [(1, "~HELLO"), (5, ROWS_TEXT[:32])],
                     [(5, ROWS_TEXT[:32] + " "), (1, "HELLO")], [(1, "HELLO"), (5, ROWS_TEXT[:32] + " ")],
                     [(9, ROWS_TEXT[:33] + "  "), (3, "~X")], [(3, "~X"), (9, ROWS_TEXT[:33] + "  ")],
                     [(11, ROWS_TEXT[:31] + "  "), (2, "~" + ROWS_TEXT[:31]), (7, ROWS_TEXT[:32])],
                     [(5, "~" + ROWS_TEXT[:31]), (1, "~HELLO")], [(1, "~HELLO"), (5, "~" + ROWS_TEXT[:31])],
                     [(9, "~" + ROWS_TEXT[:31]), (3, "~" + ROWS_TEXT[:31]), (14, "~OK")],
                     # ... an italic row (italic preamble) that fills the screen, then a row elsewhere that opens with a mid-row code
                     [(5, "/" + ROWS_TEXT[:32]), (1, "~HELLO")], [(1, "~HELLO"), (5, "/" + ROWS_TEXT[:32])],
                     [(5, "/" + ROWS_TEXT[:32]), (9, "/" + ROWS_TEXT[:32]), (1, "~X")]):
            cases.append((mode, True, [rows]))
            cases.append((mode, False, [rows], False, True))
        # other codes that take a cell between two words (flash on, underline, a colour): 16 + 1 + 16 = 33 columns, 16 + 1 + 15 = 32
        for o in OTHER_MIDROW:
            cases.append((mode, True, [[(15, ROWS_TEXT[:16] + o + "_" + ROWS_TEXT[:16])]]))
            cases.append((mode, True, [[(15, ROWS_TEXT[:16] + o + "_" + ROWS_TEXT[:15])]]))
            cases.append((mode, True, [[(2, "top"), (15, ROWS_TEXT[:16] + o + "_" + ROWS_TEXT[:16])]], False, True))
        # two pieces of text addressed to the same row at different indents are two lines, whichever is sent first
        for gap, (a, b_) in itertools.product([1, 2, 3], [(20, 20), (4, 30), (30, 4), (33, 4), (4, 28)]):
            cases.append((mode, True, [[(5, ROWS_TEXT[:a]), (5, "\x01" * gap + ROWS_TEXT[:b_])]]))
            cases.append((mode, True, [[(5, "\x01" * gap + ROWS_TEXT[:b_]), (5, ROWS_TEXT[:a])]]))
        # every structured case once more with doubled control codes
        cases.append((mode, True, [[(1, ROWS_TEXT[:33]), (5, ROWS_TEXT[:5])]], False, True))
        cases.append((mode, False, [[(14, ROWS_TEXT[:32])], [(15, ROWS_TEXT[:33])]], False, True))
    # an over-long line in a stream that ALSO has a caption shown for a single frame: the line-length error, naming the
    # line, is what the statement promises - whatever else is wrong with the stream
    for dbl_, long_first in itertools.product([False, True], repeat=2):
        def both(dbl_=dbl_, long_first=long_first):
            long_row, short_row = ROWS_TEXT[:34], "OK"
            flash = [C.ctrl("ENM"), C.ctrl("RCL"), C.pac(15)] + row_words(long_row if long_first else short_row) + [C.ctrl("EOC"), C.ctrl("EDM")]
            steady = [C.ctrl("ENM"), C.ctrl("RCL"), C.pac(15)] + row_words(short_row if long_first else long_row) + [C.ctrl("EOC")]
            doc = C.scc_document([(C.timecode(30), flash), (C.timecode(150), steady), (C.timecode(300), [C.ctrl("EDM")])])
            if dbl_:
                doc = doubled(doc)
            try:
                shared.read(doc)
            except CaptionLineLengthError as e:
                return f"{long_row} - Length 34" in str(e), {"raised": str(e)[:300]}
            except Exception as e:
                return False, {"raised_instead_of_the_line_length_error": repr(e)[:300]}
            return False, {"returned_silently": long_row}
        b.guard(("long_and_flash", dbl_, long_first), both, sample={"case": "over-long line and a one-frame caption in one stream", "doubled": dbl_, "long_line_in_the_flash_caption": long_first})
    # rows built word by word: braces (extended characters, sent as a stand-in and its replacement) in an over-long row -
    # the message names the row as it is; two identical special characters with a null padding word between them are two
    # characters; a row that repeats the text of the row above and goes on after a mid-row code
    def custom(name, rows_words, long_texts, dbl_=False):
        for mode in ("pop", "roll", "paint"):
            def run_custom(mode=mode):
                if mode == "pop":
                    ws = [C.ctrl("ENM"), C.ctrl("RCL")] + sum(([C.pac(r)] + w for r, w in rows_words), []) + [C.ctrl("EDM"), C.ctrl("EOC")]
                    lines = [(C.timecode(30), ws), (C.timecode(30 + len(ws) + 60), [C.ctrl("EDM")])]
                elif mode == "paint":
                    ws = [C.ctrl("RDC")] + sum(([C.pac(r)] + w for r, w in rows_words), [])
                    lines = [(C.timecode(30), ws), (C.timecode(30 + len(ws) + 60), [C.ctrl("RDC")])]
                else:
                    lines, t = [], 30
                    for r, w in rows_words:
                        lines.append((C.timecode(t), [C.ctrl("RU2"), C.ctrl("CR"), C.pac(15)] + w))
                        t += len(w) + 40
                    lines.append((C.timecode(t), [C.ctrl("CR")]))
                doc = C.scc_document(lines)
                if dbl_:
                    doc = doubled(doc)
                try:
                    cs = shared.read(doc)
                except CaptionLineLengthError as e:
                    return bool(long_texts) and all(f"{t_} - Length {len(t_)}" in str(e) for t_ in long_texts), {"raised": str(e)[:300], "long_rows": long_texts}
                except Exception as e:
                    return False, {"raised_instead_of_the_line_length_error": repr(e)[:300]}
                too = [ln for cap in cs.get_captions("en-US") for ln in cap.get_text().split("\n") if len(ln) > 32]
                return not too and not long_texts, {"returned_silently": too or long_texts}
            b.guard(("custom", name, mode, dbl_), run_custom, sample={"case": name, "mode": mode, "doubled": dbl_})
    brace = lambda ch: C.text_words("(" if ch == "{" else ")")[:1] + [C.extended(ch)]          # (stand-in, then the extended code that replaces it)
    x30, x31 = C.text_words("x" * 30), C.text_words("x" * 31)
    custom("braces_in_a_long_row", [(15, C.text_words("ab") + brace("{") + x30 + brace("}"))], ["ab{" + "x" * 30 + "}"])
    custom("braces_in_a_row_that_fits", [(15, C.text_words("ab") + brace("{") + C.text_words("x" * 28) + brace("}"))], [])
    custom("long_row_next_to_a_row_with_braces", [(13, C.text_words("cd") + brace("}") + brace("{")), (15, C.text_words("y" * 34))], ["y" * 34])
    note = C.special("\u266a")
    custom("two_notes_with_a_null_between", [(15, [note, "8080", note] + C.text_words("a" * 31))], ["\u266a\u266a" + "a" * 31])
    custom("two_notes_with_a_null_between_that_fit", [(15, [note, "8080", note] + C.text_words("a" * 30))], [])
    custom("two_notes_with_a_null_between_doubled", [(15, [note, note, "8080", note, note] + C.text_words("a" * 31))], ["\u266a\u266a" + "a" * 31])
    # an extended character replaces the character before it whatever kind that one is - here a special character (a
    # music note sent as the stand-in): 30 + 1 + 1 = 32 columns, and 33 with one letter more
    custom("extended_replaces_a_special_stand_in_that_fits", [(15, x30 + [note, C.extended("}")] + C.text_words("z"))], [])
    custom("extended_replaces_a_special_stand_in_long", [(15, x31 + [note, C.extended("}")] + C.text_words("z"))], ["x" * 31 + "}z"])
    # italic text that ends in a blank, a mid-row code that closes the italics, more text: ONE row of 15 + 1 + 17 = 33 columns
    # (the blank before the closing code is in the middle of the row), and of 32 with one letter less
    custom("blank_before_a_closing_mid_row_code", [(15, [C.midrow(True)] + C.text_words("A" * 15 + " ") + [C.midrow(False)] + C.text_words("B" * 17))],
           ["A" * 15 + " " + "B" * 17])
    custom("blank_before_a_closing_mid_row_code_that_fits", [(15, [C.midrow(True)] + C.text_words("A" * 15 + " ") + [C.midrow(False)] + C.text_words("B" * 16))], [])
    # captions that share a start time without being neighbours in the stream (the timecode of the first line comes again
    # after a later one), in every order of the long one; and the same streams read under another language label
    for order in itertools.permutations(["long", "other", "short"]):
        for lang_ in ("en-US", "de-DE"):
            def shared_start(order=order, lang_=lang_):
                rows_ = {"long": (30, ROWS_TEXT[:33]), "other": (150, "SECOND"), "short": (30, "OK")}
                lines_ = [(C.timecode(rows_[k][0]), [C.ctrl("RDC"), C.pac({"long": 3, "other": 8, "short": 13}[k])] + C.text_words(rows_[k][1])) for k in order]
                doc = C.scc_document(lines_ + [(C.timecode(400), [C.ctrl("RDC")])])
                try:
                    shared.read(doc, lang=lang_)
                except CaptionLineLengthError as e:
                    return f"{ROWS_TEXT[:33]} - Length 33" in str(e), {"raised": str(e)[:300]}
                except Exception as e:
                    return False, {"raised_instead_of_the_line_length_error": repr(e)[:300]}
                return False, {"returned_silently": ROWS_TEXT[:33], "order": order, "lang": lang_}
            b.guard(("shared_start", order, lang_), shared_start, sample={"transmission_order": order, "lang": lang_, "timecodes": "the first line's timecode comes again"})
    for mode in ("pop", "paint"):
        # the styled row repeats the row above up to the mid-row code (5 + 1 + 27 = 33 columns), in both orders of transmission
        for rows in ([(14, "la la"), (15, "la la~_" + "x" * 27)], [(15, "la la~_" + "x" * 27), (14, "la la")],
                     [(14, "la la"), (15, "la la~_" + "x" * 26)]):
            cases.append((mode, True, [rows]))
    for mode, term, sets, *rest in cases:
        cr = bool(rest and rest[0])
        dbl = bool(len(rest) > 1 and rest[1])
        texts = [t for rows in sets for _, t in rows if t]
        # (a mid-row code's cell may or may not be reproduced: such rows are chosen well above / below 32 either
        # way, and are not looked up by their exact text in the message)
        longs = [t for t in texts if cells(t) > 32]
        named_exactly = [t.lstrip("/\x01").replace("^", "").rstrip(" ") for t in longs if "~" not in t and not any(o in t for o in OTHER_MIDROW)]

        named_exactly = [t for t in named_exactly if "\b" not in t]

        def one(mode=mode, sets=sets, term=term, cr=cr, dbl=dbl, texts=texts, longs=longs, named_exactly=named_exactly):
            doc = stream(mode, sets, term, cr)
            if dbl:
                doc = doubled(doc)
            lang_ = ["en-US", "de-DE", "fr"][len(doc) % 3]          # (the language label the captions are filed under is no part of it)
            try:
                cs = shared.read(doc, lang=lang_)
            except CaptionLineLengthError as e:
                msg = str(e)
                named = all(f"{t} - Length {len(t)}" in msg for t in named_exactly)
                return bool(longs) and named, {"raised": msg[:300], "long_rows": longs}
            except Exception as e:
                if not texts:
                    return True, None          # nothing to caption: the no-captions error is fine
                raise
            lines = [ln for cap in cs.get_captions(lang_) for ln in cap.get_text().split("\n")]
            too = [ln for ln in lines if len(ln) > 32]
            return not too and not longs, {"returned_silently": too or longs, "lang": lang_}
        b.guard((mode, term, tuple(tuple(r) for rows in sets for r in rows), len(sets), cr, dbl), one,
                sample={"mode": mode, "terminated": term, "carriage_returns": cr, "doubled_control_codes": dbl, "row_lengths": [[len(t) for _, t in rows] for rows in sets]},
                nontrivial=bool(texts))


def run(ctx):
    def setup(interp):
        heap.install(interp)
    ctx.prove("scc.SCCReader.read[line-length scan]", region_accumulation, functions=[SCCReader.read],
              setup_interp=setup, crosscheck=False)
    # which pieces of text make up one LINE is decided by the position tracker: a preamble on the same row 1-3 columns
    # to the right is a tab offset (same line), any other address starts another line (contract shared with C05)
    import props.C05 as C05
    from pycaption.scc.state_machines import _PositioningTracker
    import props.C15_text as TX
    TX.prove_text_nodes(ctx)          # (the lines that are measured are what the nodes say)
    ctx.prove("scc._PositioningTracker.update_positioning", C05.tracker_transition, functions=[_PositioningTracker.update_positioning])
    ctx.bounded("streams", "SCC streams in pop-on / roll-up / paint-on mode, explicitly terminated or not, rows of "
                "0-40 characters; three rows on non-adjacent screen rows (captions sharing a start time) in every "
                "order of long and short; two consecutive captions over all length pairs; seeded random: raises the "
                "line-length error naming every over-long row iff some row exceeds 32, else every returned line <= 32",
                lambda b: bounded(ctx, b))
    ctx.trust("region contract: the statements computing a caption's key and its over-long lines are abstracted by "
              "uninterpreted KEY / TL (their effect is checked by the bounded part); defaultdict(list) modelled as an "
              "array key -> sequence with [] / extend / assignment")
    ctx.assume("the message-building loop after the scan (msg non-empty iff some list non-empty) is bounded-checked only")
