"""C08 - any chain of conversions preserves the cue timeline and text."""
import itertools
import random

from pycaption import (CaptionConverter, CaptionSet, CaptionList, Caption, CaptionNode, DFXPReader, DFXPWriter, MicroDVDReader, MicroDVDWriter,
                       SAMIReader, SAMIWriter, SRTReader, SRTWriter, WebVTTReader, WebVTTWriter)

T, BR = CaptionNode.create_text, CaptionNode.create_break
US = 10 ** 6
FORMATS = {"srt": (SRTWriter, SRTReader), "webvtt": (WebVTTWriter, WebVTTReader), "dfxp": (DFXPWriter, DFXPReader),
           "sami": (SAMIWriter, SAMIReader), "microdvd": (MicroDVDWriter, MicroDVDReader)}


# ------------------------------------------------------------------------------------ lemmas over the C01 / C02 contracts

def resolution_lemmas(c):
    """Composition of the proved time contracts.  C02: a millisecond writer prints floor(t/1000) ms, the
    MicroDVD writer frame floor(t*25/10**6); C01: the readers return ms*1000 and frame*40000 us.  Hence
    one hop maps t to trunc_f(t), a second hop through the same format changes nothing, and mixed chains
    settle after one pass (idempotence of the second pass)."""
    t = c.int("t", 0, 24 * 3600 * US - 1)
    ms = lambda x: (x // 1000) * 1000
    fr = lambda x: ((x * 25) // US) * 40000
    c.ensure("ms_hop_truncates_to_the_millisecond", c.conj(ms(t) <= t, t < ms(t) + 1000))
    c.ensure("frame_hop_truncates_to_the_frame", c.conj(fr(t) <= t, t < fr(t) + 40000))
    c.ensure("ms_hop_is_idempotent", ms(ms(t)) == ms(t))
    c.ensure("frame_hop_is_idempotent", fr(fr(t)) == fr(t))
    c.ensure("frame_then_ms_keeps_the_frame_time", ms(fr(t)) == fr(t))
    c.ensure("ms_then_frame_is_the_frame_of_t", fr(ms(t)) == fr(t))
    c.ensure("second_pass_of_a_mixed_chain_changes_nothing", c.conj(fr(ms(fr(ms(t)))) == fr(ms(t)), ms(fr(ms(fr(t)))) == ms(fr(t))))
    f = c.int("frame", 0, 10 ** 8)
    c.ensure("frame_number_round_trips", (f * 40000 * 25) // US == f)


# ------------------------------------------------------------------------------------ bounded

def norm(s):
    return " ".join(s.replace(" ", " ").split())


def gen_set(rng):
    texts = ["Hello there", "two  words", "R&D <dept>", "it's \"q\"", "-->", "a & b", "Ünï çødé", "1", "x",
             "write &lt; for less", "&amp;lt; twice", "&apos; &quot; &nbsp;", "&#60;b&#62;",
             "Press <b> to go back, <i> for info", "a <c and c> d", "<v Bob> said", "<00:01.000> later",
             "{sighs} I know.", "{applause}", "{y:i}{c:$0000ff} not a code", "[music] {1}{2}", "- Yes. - No."]
    from props import samples
    texts = texts + [" ".join(t.split()) for t in samples.rich_lines(rng, 8, pipe_ok=False)]
    # (language codes one of which is a prefix of the other, in both orders)
    langs = rng.choice([["en-US"], ["fr-FR"], ["en-US", "fr-FR"], ["fr-FR", "en-US"], ["en-US", "en"], ["en", "en-US"]])
    caps = {}
    for l in langs:
        lst, t = [], rng.choice([0, 999, 40000, 1234567, 3598 * US + 500000, 3600 * US - 40000])
        for j in range(rng.choice([1, 2, 3])):
            dur = rng.choice([40000, 1000000, 2500000, 8040000 - 1234567 if j == 0 else 3000000])
            dur = max(dur, 80000)
            s, e = t, t + dur
            nodes = [T(rng.choice(texts))]
            for _ in range(rng.choice([0, 1, 2])):
                nodes += [BR(), T(rng.choice(texts))]
            lst.append(Caption(s, e, nodes))
            t = e + rng.choice([0, 80000, 1000000, 3999999])
        caps[l] = CaptionList(lst)
    return CaptionSet(caps)


def view(cs, res):
    """per language: [(start, end, [lines])] at resolution res ('ms' or 'frame'); end None = not conveyed"""
    out = {}
    for l in cs.get_languages():
        lst = []
        for c_ in cs.get_captions(l):
            q = (lambda x: int(x) // 1000) if res == "ms" else (lambda x: int(x) * 25 // US)
            lst.append((q(c_.start), q(c_.end), [norm(x) for x in c_.get_text().split("\n") if norm(x)]))
        out[l] = lst
    return out


def coarsest(chain):
    return "frame" if "microdvd" in chain else "ms"


_OBJECTS = {}


def run_chain(cs, chain):
    """one writer and one reader object per format for the whole run (what a conversion step returns depends on
    its input only, also when the objects have converted other documents before)"""
    cur = cs
    _STEPS[0] += 1
    for f in chain:
        W, R = FORMATS[f]
        if f not in _OBJECTS:
            _OBJECTS[f] = (W(), R())
        w, r = _OBJECTS[f]
        if _STEPS[0] % 3 == 0:
            # the public converter object (one for the whole run) does the same as calling writer and reader directly
            doc = _CONVERTER.read(cur, _PassThrough()).write(w)
            cur = _CONVERTER.read(doc, r).captions
        else:
            cur = r.read(w.write(cur))
    return cur


class _PassThrough:
    """a 'reader' that hands an existing caption set to the converter"""

    def read(self, content):
        return content


_STEPS = [0]
_CONVERTER = CaptionConverter()


def compare(orig, got, chain, single_lang_only):
    res = coarsest(chain)
    a, b_ = view(orig, res), view(got, res)
    # (a language without cues has nothing to keep; SAMI has no way to write one)
    a = {l: v for l, v in a.items() if v}
    b_ = {l: v for l, v in b_.items() if v}
    langs = list(a)
    if not langs:
        return not b_, {"languages": list(b_), "expected": []}
    if single_lang_only:
        # SRT / WebVTT / MicroDVD carry one language (WebVTT writes the first one; SRT / MicroDVD concatenate):
        # compare the first language only when such a format is on the chain
        la = langs[0]
        if not b_:
            return False, {"cues_read_back": 0, "expected": len(a[la])}
        ga = list(b_)[0]
        a, b_ = {"x": a[la]}, {"x": b_[ga][:len(a[la])]}
    else:
        if sorted(b_) != sorted(langs):       # (the order of languages is C14's business)
            return False, {"languages": got.get_languages(), "expected": langs}
    for l in a:
        if len(a[l]) != len(b_[l]):
            return False, {"language": l, "cues": len(b_[l]), "expected": len(a[l])}
        for j, ((s, e, tx), (s2, e2, tx2)) in enumerate(zip(a[l], b_[l])):
            last = j == len(a[l]) - 1
            if tx != tx2:
                return False, {"language": l, "cue": j, "text": tx2, "expected": tx}
            if s != s2:
                return False, {"language": l, "cue": j, "start": s2, "expected": s, "resolution": res}
            if "sami" in chain:
                if not last:
                    nxt = a[l][j + 1][0]
                    if e2 not in (e, nxt) and not (res == "frame" and abs(e2 - e) <= 0):
                        return False, {"language": l, "cue": j, "end": e2, "expected": (e, nxt), "resolution": res}
            elif e != e2:
                return False, {"language": l, "cue": j, "end": e2, "expected": e, "resolution": res}
    return True, None


def bounded(ctx, b):
    rng = random.Random(ctx.seed)
    crafted = [
        # cue boundaries on frames whose float time lands just below the integer (201, 203, 803)
        CaptionSet({"en-US": CaptionList([Caption(4000000, 8040000, [T("frame 201")]), Caption(8120000, 9000000, [T("frame 203")]),
                                          Caption(32120000, 33000000, [T("frame 803")])])}),
        # every "difficult" text once, deterministically (arrow, references, tag look-alikes, braces)
        CaptionSet({"en-US": CaptionList([Caption((2 * j + 1) * US, (2 * j + 2) * US, [T(t)]) for j, t in enumerate(
            ["Press A --> B to continue", "-->", "a --> b --> c", "write &lt; for less", "&amp;lt; twice", "R&D <dept>", "<v Bob> said",
             "{sighs} I know.", "it's \"q\"", "&#XE9; &#1114112;", "x < y > z & w"])])}),
        # characters a filter for "unprintable" characters would wrongly take away: zero-width joiner / non-joiner, soft hyphen,
        # left-to-right mark, word joiner (emoji sequences, Persian, bidirectional text)
        CaptionSet({"en-US": CaptionList([Caption((2 * j + 1) * US, (2 * j + 2) * US, [T(t)]) for j, t in enumerate(
            ["family \U0001f468\u200d\U0001f469\u200d\U0001f467 emoji", "\u0645\u06cc\u200c\u062e\u0648\u0627\u0647\u0645", "co\u00adoperate", "abc \u200e(x)\u200f def", "no\u2060break"])])}),
        # cue text whose lines begin with words the formats use as keywords (WebVTT comment blocks start with NOTE, regions with REGION)
        CaptionSet({"en-US": CaptionList([Caption(US, 2 * US, [T("Please"), BR(), T("NOTE the time"), BR(), T("and the place.")]),
                                          Caption(3 * US, 4 * US, [T("NOTE that the doors close at nine.")]), Caption(5 * US, 6 * US, [T("STYLE"), BR(), T("REGION two")]),
                                          Caption(7 * US, 8 * US, [T("WEBVTT is a format")])])}),
        # every pair of metacharacters next to each other, inside a sentence (";>" , "&;", "<;", ...)
        CaptionSet({"en-US": CaptionList([Caption((2 * j + 1) * US, (2 * j + 2) * US, [T(f"He winked {x}{y} and left {y}{x}{y}")])
                                          for j, (x, y) in enumerate(itertools.product("&<>;#'-", repeat=2))])}),
        # a language without cues next to the one that has them (listed after it, and before it)
        CaptionSet({"en-US": CaptionList([Caption(1000000, 2000000, [T("one")]), Caption(3000000, 4000000, [T("two")])]), "de-DE": CaptionList()}),
        CaptionSet({"de-DE": CaptionList(), "en-US": CaptionList([Caption(1000000, 2000000, [T("one")]), Caption(3000000, 4000000, [T("two")])])}),
        # consecutive breaks / an empty line inside a cue
        CaptionSet({"en-US": CaptionList([Caption(1000000, 2000000, [T("a"), BR(), BR(), T("b")]), Caption(3000000, 4000000, [T("c"), BR(), T(""), BR(), T("d")]),
                                          Caption(5000000, 6000000, [T("last")])])}),
        # a second language whose cues start before the first language's
        CaptionSet({"en-US": CaptionList([Caption(2000000, 3000000, [T("en one")]), Caption(5000000, 6000000, [T("en two")]), Caption(8000000, 9000000, [T("en three")])]),
                    "fr-FR": CaptionList([Caption(1000000, 1500000, [T("fr un")]), Caption(4000000, 4500000, [T("fr deux")]), Caption(10000000, 11000000, [T("fr trois")])])}),
        # ... with cue times that coincide with the first language's
        CaptionSet({"en-US": CaptionList([Caption(5000000, 7000000, [T("en one")]), Caption(10000000, 12000000, [T("en two")]), Caption(15000000, 17000000, [T("en three")])]),
                    "fr-FR": CaptionList([Caption(1000000, 3000000, [T("fr un")]), Caption(5000000, 7000000, [T("fr deux")]), Caption(10000000, 12000000, [T("fr trois")])])}),
        # ... and contiguous cues (each ends where the next begins), the earlier language listed second
        CaptionSet({"en-US": CaptionList([Caption(2000000, 5000000, [T("en one")]), Caption(5000000, 8000000, [T("en two")]), Caption(8000000, 9000000, [T("en three")])]),
                    "fr-FR": CaptionList([Caption(1000000, 4000000, [T("fr un")]), Caption(4000000, 10000000, [T("fr deux")]), Caption(10000000, 11000000, [T("fr trois")])])}),
    ]
    sets = crafted + [gen_set(rng) for _ in range(12 if not ctx.thorough else 150)]
    names = list(FORMATS)
    chains = [(a,) for a in names] + list(itertools.product(names, repeat=2))
    longer = [tuple(rng.choice(names) for _ in range(rng.choice([3, 4, 5]))) for _ in range(10 if not ctx.thorough else 120)]
    for si, cs in enumerate(sets):
        for chain in chains + longer:
            single = any(f in ("srt", "webvtt", "microdvd") for f in chain)     # these formats carry one, unlabelled language
            populated = [l for l in cs.get_languages() if cs.get_captions(l)]
            if single and len(cs.get_languages()) > 1 and (len(populated) > 1 or cs.get_languages()[0] not in populated
                                                           or any(f in ("srt", "microdvd") for f in chain)):
                # (SRT / MicroDVD write every language into one file; WebVTT writes the first one: a set whose first
                # language is the only one with cues is a single-language set for it)
                continue          # multi-language sets only along chains of formats that carry languages (DFXP, SAMI)

            def one(cs=cs, chain=chain, single=single):
                first = run_chain(cs, chain)
                ok, d = compare(cs, first, chain, single)
                if not ok:
                    return False, dict(d, chain=chain, which_pass=1)
                second = run_chain(first, chain)
                ok, d = compare(first, second, chain, single)
                if not ok:
                    return False, dict(d, chain=chain, which_pass=2)
                # the second pass changes nothing at all at the chain's resolution
                return view(first, coarsest(chain)) == view(second, coarsest(chain)) or "sami" in chain, \
                    {"chain": chain, "second_pass_changed": True}
            b.guard((si, chain), one, sample={"chain": chain, "set": view(cs, "ms")})


def run(ctx):
    ctx.prove("lemmas.time_resolution", resolution_lemmas, functions=[], crosscheck=False)
    # no loss of text on the WebVTT hop: every text node of a caption lies in one of the cue groups written for it, also when
    # its nodes carry different layouts (loop invariant shared with C03 / C12)
    import props.C03_lines as LN
    LN.prove_cue_lines(ctx)
    ctx.bounded("chains", "caption sets with sorted, non-overlapping cues below 24 h (1-2 languages, 1-3 cues of 1-3 lines, "
                "texts with markup characters, times on and off millisecond / frame boundaries incl. 8.040 s) through every "
                "single format, all 5x5 ordered pairs and seeded chains of length 3-5, two passes: same cues and "
                "whitespace-normalised text per language, times equal at the coarsest resolution on the chain (SAMI: starts "
                "and non-final ends), second pass changes nothing", lambda b: bounded(ctx, b))
    ctx.trust("the lemmas compose the time contracts proved in C01 (readers) and C02 (writers); they re-read no code: if one of "
              "those contracts had to be weakened the composition would no longer follow")
    ctx.assume("text and cue structure along chains inherit the limits of C03 / C04 (bounded through the real parsers); "
               "formats that carry a single language are compared on the first language")
