"""SCCReader._translate_line, one timecoded line at a time (shared by C05, C06, C16): which words are handed on, with which
look-ahead, and what else the line may touch.

P[n] over line shapes (concrete text: the statements are executed on the real strings) x reader states
(`last_command` set or empty, `double_starter` on or off); `_translate_word` is replaced by a recording stub
(its own contract: C06 `_translate_word`, C05 doubling tables).

  * the timecode of the line is handed to the time translator, exactly once, before any word;
  * exactly the four-character words are handed on, in order, one call each (one frame per code word is then
    `_translate_word`'s contract);
  * the look-ahead of a word is the word that follows it - past its own redundant copy when the code is doubled -
    and nothing after the last word;
  * frame: a line keeps no state of its own - `last_command`, `double_starter` and every other attribute of the
    reader are what the word handlers left them (a doubled code may straddle two lines).
"""
from pycaption.scc import SCCReader, _SccTimeTranslator
from pyvc.verify import args_by_name as N

LINES = {
    "single": ("00:00:01:00", ["9420", "9470", "c1c2", "91ae", "43c4", "942f"]),
    "doubled": ("00:00:01;00", ["9420", "9420", "9470", "9470", "c1c2", "91ae", "91ae", "ae80", "942f", "942f"]),
    "first_copy_ends_the_line": ("01:00:01:00", ["94ae", "94ae", "9420", "9420", "c1c2", "9137"]),
    "second_copy_starts_the_line": ("01:00:01:08", ["9137", "43c4", "942f", "942f"]),
    "one_word": ("00:00:02:00", ["942c"]),
    "text_word_twice": ("00:00:03:00", ["9420", "c1c1", "c1c1", "942f"]),
}


def expected_calls(words):
    out = []
    for i, w in enumerate(words):
        rest = words[i + 1:]
        if rest and rest[0] == w:
            rest = rest[1:]
        out.append((w, rest[0] if rest else None))
    return out


def translate_line(c):
    which = c.pick("line", list(LINES))
    stamp, words = LINES[which]
    sep = c.pick("separator", ["\t", " "])
    upper = c.pick("upper_case_hex", [False, True])
    last = c.pick("last_command", ["", "9137", "9420"])
    starter = c.pick("double_starter", [False, True])
    text = stamp + sep + " ".join(w.upper() if upper else w for w in words)
    tt = c.new(_SccTimeTranslator, _time="00:00:00;00", _frames=7, offset=0)
    rd = c.new(SCCReader, time_translator=tt, last_command=last, double_starter=starter, buffer_dict="buffers", caption_stash="stash",
               simulate_roll_up=False, roll_rows="rows", roll_rows_expected=0, time=0)
    calls, stamps = [], []

    def h_word(interp, fn, args, kw):
        x = N(fn, args, kw)
        calls.append((x["word"], (x["next_command"].strip() or None) if isinstance(x["next_command"], str) else None))
        stamps.append(interp.getattr(tt, "_time"))
        return None
    c.interp.contracts["pycaption.scc:SCCReader._translate_word"] = h_word
    before = {k: c.interp.getattr(rd, k) for k in ("last_command", "double_starter", "buffer_dict", "caption_stash", "roll_rows", "time")}
    c.call(SCCReader._translate_line, rd, text, compare=False)
    c.ensure("timecode_handed_to_the_time_translator_before_the_first_word", all(s_ == stamp for s_ in stamps) and c.interp.getattr(tt, "_time") == stamp)
    c.ensure("exactly_the_code_words_in_order", [w for w, _ in calls] == words)
    c.ensure("look_ahead_is_the_following_word_past_a_redundant_copy", calls == expected_calls(words))
    c.ensure("the_line_itself_counts_no_frame", c.interp.getattr(tt, "_frames") == 0)        # (start_at resets; one per code word is _translate_word's)
    after = {k: c.interp.getattr(rd, k) for k in before}
    c.ensure("a_line_keeps_no_state_of_its_own", all(after[k] is before[k] or after[k] == before[k] for k in before))


def blank_line(c):
    text = c.pick("line", ["", "   ", "\t"])
    tt = c.new(_SccTimeTranslator, _time="00:00:09;00", _frames=3, offset=0)
    rd = c.new(SCCReader, time_translator=tt, last_command="9420", double_starter=True)
    calls = []
    c.interp.contracts["pycaption.scc:SCCReader._translate_word"] = lambda interp, fn, args, kw: calls.append(args)
    c.call(SCCReader._translate_line, rd, text, compare=False)
    c.ensure("a_blank_line_is_ignored", calls == [] and c.interp.getattr(tt, "_time") == "00:00:09;00" and c.interp.getattr(tt, "_frames") == 3
             and c.interp.getattr(rd, "last_command") == "9420" and c.interp.getattr(rd, "double_starter") is True)


def prove_line(ctx):
    ctx.prove("scc.SCCReader._translate_line", translate_line, functions=[SCCReader._translate_line], crosscheck=False)
    ctx.prove("scc.SCCReader._translate_line/blank", blank_line, functions=[SCCReader._translate_line], crosscheck=False)


# ------------------------------------------------------------------------------------ SCCReader.read, up to the line loop

def read_head(c):
    """SCCReader.read before the checks of its tail (those are the region contract of C06 / C15), on a reader that has
    read another document before (stale stash, doubling state, options, time translator).  Observed at the moment the
    FIRST line is handed to `_translate_line` - wherever read() or its helpers do the work: nothing of the earlier read
    is left (new stash, new buffers, doubling state cleared), the options of THIS call are in force - the offset in
    microseconds, whatever its sign or fraction.  Every line after the header line is handed on exactly once, in order,
    whatever the line terminator; the implicit buffers are flushed after the last line.  (`_translate_line` and
    `_flush_implicit_buffers` are recording stubs, so the stash stays empty and the call ends in the no-captions error.)"""
    from pyvc.verify import Raised
    from pycaption.exceptions import CaptionReadNoCaptions
    eol = c.pick("line_terminator", ["\n", "\r\n", "\r"])
    body = c.pick("lines", [["00:00:01:00\t9420 9470 c1c2 942f", "", "00:00:03:00\t942c"], ["00:00:01;00\t9420"], []])
    kind = c.pick("offset", ["zero", "int", "negative int", "fraction"])
    offset = {"zero": 0, "int": c.int("offset_s", 1, 10 ** 5), "negative int": 0 - c.int("offset_s", 1, 10 ** 5),
              "fraction": c.ratio(c.int("offset_ms", -10 ** 8, 10 ** 8), 1000)}[kind] if c.symbolic else {"zero": 0, "int": 3, "negative int": -2, "fraction": 0.5}[kind]
    roll = c.pick("simulate_roll_up", [False, True])
    content = eol.join(["Scenarist_SCC V1.0", ""] + body)
    stale_tt = c.new(_SccTimeTranslator, _time="09:09:09;09", _frames=99, offset=12345)
    rd = c.new(SCCReader, time_translator=stale_tt, caption_stash="stale stash", buffer_dict="stale buffers", pop_ons_queue="stale queue",
               last_command="9137", double_starter=True, simulate_roll_up="stale", roll_rows=["stale"], roll_rows_expected=3, time=777)
    log = []
    G = c.interp.getattr

    def h_line(interp, fn, a, kw):
        tt = G(rd, "time_translator")
        log.append(("line", N(fn, a, kw)["line"], G(tt, "offset"), G(rd, "simulate_roll_up"), tt is stale_tt, G(rd, "caption_stash"), G(rd, "buffer_dict"),
                    G(rd, "last_command"), G(rd, "double_starter"), G(rd, "pop_ons_queue"), G(rd, "roll_rows"), G(rd, "time")))
    q = "pycaption.scc:SCCReader."
    c.interp.contracts.update({q + "_translate_line": h_line,
                               q + "_flush_implicit_buffers": lambda interp, fn, a, kw: log.append(("flush", N(fn, a, kw)["old_key"]))})
    r = c.call(SCCReader.read, rd, content, "xx", roll, offset, raises=(CaptionReadNoCaptions,), compare=False)
    c.ensure("an_empty_stash_is_the_no_captions_error", isinstance(r, Raised))
    lines = [e_ for e_ in log if e_[0] == "line"]
    c.ensure("every_line_after_the_header_once_in_order", [e_[1] for e_ in lines] == ([""] + body if body else []))      # (a terminator after the last line starts no further line)
    last_line = max([i for i, e_ in enumerate(log) if e_[0] == "line"] + [-1])
    first_line = min([i for i, e_ in enumerate(log) if e_[0] == "line"] + [len(log)])
    # (setting up the buffers announces the active one to the observer once: that is before the first line)
    c.ensure("buffers_flushed_once_after_the_last_line", log[-1:] == [("flush", "pop")] and all(e_[0] == "line" for e_ in log[first_line:last_line + 1])
             and (not lines or [e_[0] for e_ in log[last_line + 1:]] == ["flush"]))
    want = offset * 1000000
    now_tt = G(rd, "time_translator")
    c.ensure("nothing_of_the_earlier_read_is_left_when_the_first_line_is_translated",
             now_tt is not stale_tt and all(e_[4] is False and e_[5] != "stale stash" and e_[6] != "stale buffers" and e_[7] == "" and e_[8] is False
                                            and e_[9] != "stale queue" and len(e_[9]) == 0 and e_[10] == [] and e_[11] == 0 for e_ in lines))
    c.ensure("roll_up_option_of_this_call_in_force", G(rd, "simulate_roll_up") is roll and all(e_[3] is roll for e_ in lines))
    off = G(now_tt, "offset")
    c.ensure("offset_in_microseconds_whatever_its_sign_or_fraction", c.exact(off) == c.exact(want) if c.symbolic else off == want)
    c.ensure("offset_in_force_from_the_first_line_on", all(e_[2] is off for e_ in lines))


def prove_read_head(ctx):
    ctx.prove("scc.SCCReader.read[head]", read_head, functions=[SCCReader.read, SCCReader._reset_state], crosscheck=False)
