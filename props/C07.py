"""C07 - DFXP output is well-formed XML and internally consistent."""
import itertools
import random

from pycaption import (CaptionSet, CaptionList, Caption, CaptionNode, DFXPWriter, DFXPReader, SAMIReader, SRTReader,
                       WebVTTReader, MicroDVDReader, SCCReader)
from pycaption.dfxp.extras import LegacyDFXPWriter, SinglePositioningDFXPWriter
from pycaption.geometry import (Alignment, HorizontalAlignmentEnum as HA, Layout, Padding, Point, Size, Stretch,
                                UnitEnum, VerticalAlignmentEnum as VA)
from props import samples
from props.C19 import runs_of
from refs import parsers

T, BR, ST = CaptionNode.create_text, CaptionNode.create_break, CaptionNode.create_style
NASTY = ["a\"b<&'c", "k&\"<", "e\"n&'<", "x]]>y", "&amp;", "<!--", "plain", "Ünï", "a_b", "#ff0000", "100%", "1c", "it's"]
# (no whitespace inside class names: style= is a list of id references in TTML, a name with a blank cannot be referenced)
WRITER_OPTIONS = [(DFXPWriter, {}), (DFXPWriter, {"write_inline_positioning": True}), (DFXPWriter, {"relativize": False, "fit_to_screen": False}),
                  (DFXPWriter, {"video_width": 640, "video_height": 360}), (LegacyDFXPWriter, {}), (SinglePositioningDFXPWriter, {})]


def check_document(doc, cs, W, force):
    try:
        d = parsers.parse_dfxp(doc)
    except parsers.FormatError as e:
        return False, {"not_conformant": str(e)}
    root = d["root"]
    if root.tag != "{%s}tt" % parsers.TTML:
        return False, {"root": root.tag}
    langs = cs.get_languages()
    if W is LegacyDFXPWriter:
        want_langs = [force if (force in langs or not langs) else langs[-1]] if force else langs
    else:
        want_langs = [force] if force in langs else langs
    if d["langs"] != want_langs:
        return False, {"divs": d["langs"], "expected_languages": want_langs}
    for l in want_langs:
        spans = [(c_.start, c_.end) for c_ in cs.get_captions(l)]
        n_exp = len(spans) if W is DFXPWriter else len(runs_of(spans))
        if len(d["cues"][l]) != n_exp:
            return False, {"language": l, "p_elements": len(d["cues"][l]), "expected": n_exp}
    problems = parsers.dfxp_reference_check(root)
    if problems:
        return False, {"reference_problems": problems}
    return True, None


def api_sets(rng, n):
    la = Layout(origin=Point(Size(10, UnitEnum.PERCENT), Size(10, UnitEnum.PERCENT)), alignment=Alignment(HA.LEFT, VA.TOP))
    lb = Layout(origin=Point(Size(20, UnitEnum.PERCENT), Size(70, UnitEnum.PERCENT)), padding=Padding(*[Size(1, UnitEnum.PERCENT)] * 4))
    lc = Layout(alignment=Alignment(None, VA.TOP))                      # (an alignment of one component only)
    ld = Layout(origin=Point(Size(5, UnitEnum.PERCENT), Size(5, UnitEnum.PERCENT)), alignment=Alignment(HA.RIGHT, None))
    out = []
    for i in range(n):
        langs = rng.sample(["en-US", "fr", rng.choice(NASTY), "de"], rng.choice([1, 2, 3]))
        styles = {}
        for k in rng.sample(NASTY + ["p", "it", "bottom", "r0", "default"], rng.choice([0, 1, 3])):
            styles[k] = {rng.choice(["color", "font-family", "font-size", "text-align", "italics", "bold"]): rng.choice(NASTY + [True])
                         for _ in range(rng.choice([1, 2]))}
        caps = {}
        for l in langs:
            lst = []
            t = 0
            for j in range(rng.choice([0, 1, 2, 3])):
                nodes = [T(rng.choice(NASTY))]
                if rng.random() < 0.5:
                    key = rng.choice(["italics", "class", "font-family", "color", "text-align"])
                    content = {key: True if key == "italics" else rng.choice(NASTY)}
                    lay = rng.choice([None, la, lb, lc, ld])
                    nodes = [ST(True, content, lay), T(rng.choice(NASTY), lay), ST(False, content, lay), BR(), T("z")]
                same = rng.random() < 0.3 and lst
                s, e = (lst[-1].start, lst[-1].end) if same else (t, t + 10 ** 6)
                ckey = rng.choice(["class", "font-family", "color", "italics"])
                cstyle = {} if rng.random() < 0.5 else {ckey: True if ckey == "italics" else rng.choice(list(styles) + NASTY)}
                lst.append(Caption(s, e, nodes, style=cstyle, layout_info=rng.choice([None, la, lb, lc, ld])))
                t += 2 * 10 ** 6
            caps[l] = CaptionList(lst, layout_info=rng.choice([None, la]))
        if all(len(v) == 0 for v in caps.values()):
            caps[langs[0]] = CaptionList([Caption(0, 1, [T("x")])])
        out.append(CaptionSet(caps, styles=styles, layout_info=rng.choice([None, lb])))
    return out


def bounded(ctx, b):
    rng = random.Random(ctx.seed)
    readers = {"srt": SRTReader, "webvtt": WebVTTReader, "microdvd": MicroDVDReader, "dfxp": DFXPReader, "sami": SAMIReader, "scc": SCCReader}
    sets = []
    for fmt, docs in samples.all_docs().items():
        for i, dd in enumerate(docs):
            sets.append((f"{fmt}{i}", readers[fmt]().read(dd)))
    sets += [(k, v) for k, v in samples.api_sets().items() if k not in ("unbalanced", "absolute_units")]
    sets += [(f"api{i}", s) for i, s in enumerate(api_sets(rng, 60 if not ctx.thorough else 800))]
    # deterministic inputs of the two recorded findings (so they are exercised on every run)
    sets.append(("style_named_like_a_region", CaptionSet({"en": CaptionList([Caption(0, 10 ** 6, [T("x")], style={"class": "bottom"})])},
                                                         styles={"bottom": {"color": "red"}, "r0": {"color": "blue"}})))
    sets.append(("p_style_without_writable_properties", CaptionSet(
        {"en": CaptionList([Caption(0, 10 ** 6, [T("x")], style={"class": "k"}), Caption(10 ** 6, 2 * 10 ** 6, [T("y")])])},
        styles={"p": {"bold": True, "underline": True}, "k": {"color": "red"}, "empty": {}})))
    # a class that has no definition but is spelled like a region id: no style= may point at a region
    from pycaption.geometry import Layout, Point, Size, UnitEnum
    lay = Layout(origin=Point(Size(10, UnitEnum.PERCENT), Size(70, UnitEnum.PERCENT)))
    sets.append(("undefined_class_named_like_a_region", CaptionSet({"en": CaptionList([
        Caption(0, 10 ** 6, [T("x")], style={"class": "bottom"}),
        Caption(10 ** 6, 2 * 10 ** 6, [CaptionNode.create_style(True, {"class": "r0"}, layout_info=lay), T("y", layout_info=lay),
                                      CaptionNode.create_style(False, {"class": "r0"}, layout_info=lay)], layout_info=lay)])},
        styles={"basic": {"color": "red"}})))
    # identical time spans that are NOT adjacent stay separate paragraphs (only runs are merged)
    sets.append(("equal_spans_not_adjacent", CaptionSet({"en": CaptionList([
        Caption(10 ** 6, 3 * 10 ** 6, [T("a")]), Caption(3 * 10 ** 6, 4 * 10 ** 6, [T("b")]), Caption(10 ** 6, 3 * 10 ** 6, [T("c")]),
        Caption(10 ** 6, 3 * 10 ** 6, [T("d")]), Caption(4 * 10 ** 6, 6 * 10 ** 6, [T("e")])])})))
    # no language at all: a head and an empty body - and no region nothing refers to
    sets.append(("no_languages", CaptionSet({})))
    sets.append(("empty_last_language", CaptionSet({"en": CaptionList([Caption(0, 10 ** 6, [T("x")])]), "xx": CaptionList()})))
    # captions with nothing to see are captions: one p each
    sets.append(("blank_captions", CaptionSet({"en": CaptionList([
        Caption(0, 10 ** 6, [T("\u00a0")]), Caption(10 ** 6, 2 * 10 ** 6, [T("  ")]), Caption(2 * 10 ** 6, 3 * 10 ** 6, [BR()]),
        Caption(3 * 10 ** 6, 4 * 10 ** 6, [T(""), BR(), T("")]), Caption(4 * 10 ** 6, 5 * 10 ** 6, [T("x")])])})))
    # caption styles that name a region of their own (as a converter that keeps foreign attributes would leave them)
    sets.append(("styles_with_a_region_key", CaptionSet({"en": CaptionList([
        Caption(0, 10 ** 6, [T("x")], style={"color": "yellow", "region": "top"}),
        Caption(10 ** 6, 2 * 10 ** 6, [T("y")], style={"region": "r9", "class": "k"})])}, styles={"k": {"color": "red"}})))
    # several style references on one element, some of them without a definition: what is written refers to definitions only
    multi = ('<tt xmlns="http://www.w3.org/ns/ttml" xmlns:tts="http://www.w3.org/ns/ttml#styling" xml:lang="en"><head><styling>'
             '<style xml:id="base" tts:color="white"/><style xml:id="emph" tts:fontStyle="italic"/></styling></head><body><div>'
             '<p begin="1s" end="2s" style="base missing">one <span style="emph missing">two</span> <span style="gone emph base">three</span></p>'
             '<p begin="3s" end="4s" style="missing">four</p></div></body></tt>')
    sets.append(("several_style_references", DFXPReader().read(multi)))
    # styles chained to one another, in both orders of their ids, where the style referred to has nothing a DFXP writer
    # can express (bold only) or nothing at all: a <style> may name only a <style> that is written
    for a_, b_ in (("hl", "strong"), ("strong", "hl"), ("a", "z"), ("z", "a")):
        for props_ in ("tts:fontWeight=\"bold\"", "", "tts:fontStyle=\"italic\""):
            chained = ('<tt xmlns="http://www.w3.org/ns/ttml" xmlns:tts="http://www.w3.org/ns/ttml#styling" xml:lang="en"><head><styling>'
                       f'<style xml:id="{b_}" {props_}/><style xml:id="{a_}" style="{b_}" tts:color="red"/></styling></head><body><div>'
                       f'<p begin="1s" end="2s" style="{a_}">one <span style="{b_}">two</span></p></div></body></tt>')
            sets.append((f"chained_styles_{a_}_{b_}_{props_[4:13]}", DFXPReader().read(chained)))
    sets.append(("classes_through_the_api", CaptionSet({"en": CaptionList([
        Caption(0, 10 ** 6, [ST(True, {"classes": ["k", "nope"], "class": "k"}), T("x"), ST(False, {"classes": ["k", "nope"], "class": "k"})],
                style={"classes": ["nope", "k"], "class": "nope"})])}, styles={"k": {"color": "red"}})))
    # a style node whose dictionary names a region itself (the key the legacy writer honours), with and without a layout
    lr = Layout(origin=Point(Size(10, UnitEnum.PERCENT), Size(10, UnitEnum.PERCENT)))
    sets.append(("style_nodes_with_a_region_key", CaptionSet({"en": CaptionList([
        Caption(0, 10 ** 6, [ST(True, {"italics": True, "region": "bottom"}), T("x"), ST(False, {"italics": True, "region": "bottom"})], layout_info=lr),
        Caption(10 ** 6, 2 * 10 ** 6, [ST(True, {"italics": True, "region": "r0"}, lr), T("y", lr), ST(False, {"italics": True, "region": "r0"}, lr)], layout_info=lr),
        Caption(2 * 10 ** 6, 3 * 10 ** 6, [ST(True, {"bold": True, "region": "bottom"}, lr), T("z", lr), ST(False, {"bold": True, "region": "bottom"}, lr)])],
        layout_info=lr)})))
    # text that looks like the markup the writer produces itself (region="r0"), next to a layout nothing refers to once a
    # language is forced; captions a fraction of a millisecond apart (they are not concurrent)
    lq = Layout(origin=Point(Size(30, UnitEnum.PERCENT), Size(30, UnitEnum.PERCENT)))
    sets.append(("text_that_quotes_region_attributes", CaptionSet({
        "en": CaptionList([Caption(0, 10 ** 6, [T('say region="r0" and region="r1" and xml:id="r0"')]), Caption(10 ** 6, 2 * 10 ** 6, [T('<span region="bottom">'), BR(), T("x", lq)])]),
        "fr": CaptionList([Caption(0, 10 ** 6, [T("un")], layout_info=lq)], layout_info=lq)})))
    sets.append(("captions_a_fraction_of_a_millisecond_apart", CaptionSet({"en": CaptionList([
        Caption(10 ** 6, 3 * 10 ** 6, [T("a")]), Caption(10 ** 6 + 400, 3 * 10 ** 6 + 400, [T("b")]), Caption(86400 * 10 ** 6 + 10 ** 6, 86400 * 10 ** 6 + 3 * 10 ** 6, [T("c")])])})))
    lv = Layout(alignment=Alignment(None, VA.CENTER))
    lh = Layout(alignment=Alignment(HA.CENTER, None))
    sets.append(("one_component_alignments", CaptionSet({"en": CaptionList([
        Caption(0, 10 ** 6, [T("x", lv)], layout_info=lv), Caption(10 ** 6, 2 * 10 ** 6, [ST(True, {"italics": True}, lh), T("y", lh), ST(False, {"italics": True}, lh)], layout_info=lh)],
        layout_info=lv)}, layout_info=lh)))
    # one writer object per configuration for every set of the run: a document depends on the caption set and the
    # options only, not on what the writer has written before
    shared = [W(**opts) for W, opts in WRITER_OPTIONS]
    for name, cs in sets:
        for wi, (W, opts) in enumerate(WRITER_OPTIONS):
            last = (cs.get_languages() or ["en"])[-1]
            for force in ["", last, "zz", last.swapcase(), (cs.get_languages() or ["en"])[0]]:
                def one(W=W, opts=opts, force=force, cs=cs, wi=wi):
                    try:
                        doc = shared[wi].write(cs, force=force)
                    except Exception as e:
                        from pycaption.exceptions import RelativizationError
                        if isinstance(e, RelativizationError):
                            return True, None          # refusal (C13) is not this property's business
                        raise
                    ok, detail = check_document(doc, cs, W, force)
                    if not ok and "reference_problems" in detail:
                        # one failure per problem, so that a known finding never hides a different one
                        for k, prob in enumerate(detail["reference_problems"]):
                            b.case((name, W.__name__, str(opts), force, "problem", k), False,
                                   {"writer": W.__name__, "options": opts, "force": force, "problem": prob, "p_elements": doc.count("<p "), "doc": doc[:1200]},
                                   sample={"set": name, "writer": W.__name__, "options": opts, "force": force, "problem": prob})
                        return True, None
                    if not ok:
                        detail.update({"writer": W.__name__, "options": opts, "force": force, "doc": doc[:1500]})
                    return ok, detail
                b.guard((name, W.__name__, str(opts), force), one,
                        sample={"set": name, "writer": W.__name__, "options": opts, "force": force})


def styling_tag(c):
    """DFXPWriter._recreate_styling_tag / LegacyDFXPWriter._recreate_styling_tag (A: stub DOM): one style of the set is
    written into a head that already holds zero or one style.  Afterwards the head holds every style it held, unchanged, and
    the new one AT MOST once - exactly when it has something a DFXP style can say (a writable property, or a reference that
    resolves); a `style=` reference on it names a style that IS in the head - never one that is not (yet) written, so no
    reference dangles whatever the order in which the styles are written."""
    from pycaption.dfxp.base import DFXPWriter
    from pycaption.dfxp.extras import LegacyDFXPWriter
    from refs.stubdom import StubSoup, StubTag
    W = c.pick("writer", [DFXPWriter, LegacyDFXPWriter])
    prior = c.pick("head_holds", [(), ("s0",)])
    ref = c.pick("class", [None, "s0", "later", "mine"])
    writable = c.pick("writable_properties", [{}, {"color": "red"}, {"italics": True, "font-family": "Arial"}])
    other = c.pick("other_properties", [{}, {"bold": True, "underline": True}])
    content = dict(writable, **other)
    if ref:
        content["class"] = ref
        content["classes"] = [ref]
    soup = StubSoup()
    styling = soup.find("styling")
    for i_ in prior:
        styling.append(StubTag("style", {"xml:id": i_, "tts:color": "white"}))
    before = [(t.attrs.get("xml:id"), dict(t.attrs)) for t in styling.children]
    w = c.new(W, open_span=False, p_style=False)
    from pyvc.sym import Inapplicable
    from pyvc.verify import Raised
    r = c.call(W._recreate_styling_tag, w, "mine", dict(content), soup, compare=False, raises=(AttributeError, KeyError, TypeError))
    if isinstance(r, Raised):
        # a private helper called outside the state its caller now prepares for it: the contract no longer fits (undecided);
        # a crash on real documents is the bounded part's to report
        raise Inapplicable(f"_recreate_styling_tag does not run on a head prepared as before: {r!r}"[:200])
    now = [t for t in styling.children if isinstance(t, StubTag)]
    mine = [t for t in now if t.attrs.get("xml:id") == "mine"]
    resolves = ref is not None and ref in prior
    c.ensure("the_document_is_returned", r is soup)
    c.ensure("earlier_styles_unchanged", [(t.attrs.get("xml:id"), dict(t.attrs)) for t in now if t.attrs.get("xml:id") != "mine"] == before)
    c.ensure("written_at_most_once_and_exactly_when_it_says_something", len(mine) == (1 if (writable or resolves) else 0))
    for t in mine:
        c.ensure("a_reference_names_a_style_that_is_in_the_head", ("style" not in t.attrs) or (t.attrs["style"] in [x.attrs.get("xml:id") for x in now if x is not t]))
        c.ensure("a_reference_that_resolves_is_kept", ("style" in t.attrs) == resolves)


def run(ctx):
    import props.C07_spans as SP
    SP.prove_span_balance(ctx)
    import props.C07_span_tag as ST_
    ST_.prove_span_tag(ctx)
    import props.C07_write as WS
    WS.prove_write_skeleton(ctx)
    WS.prove_single_positioning_write(ctx)
    WS.prove_legacy_write_skeleton(ctx)
    from pycaption.dfxp.base import DFXPWriter as _DW
    from pycaption.dfxp.extras import LegacyDFXPWriter as _LW
    ctx.prove("dfxp._recreate_styling_tag", styling_tag, functions=[_DW._recreate_styling_tag, _LW._recreate_styling_tag], crosscheck=False)
    import props.C07_regions as RG
    RG.prove_regions(ctx)             # (region= names the region of the element's own nearest layout; the clean-up keeps what was handed out)
    import props.C12 as L12
    L12.prove_alignment(ctx)          # (an alignment attribute that is written has a value: a None value is a bare attribute name)
    ctx.bounded("documents", "caption sets read from sample documents of six formats and API-built sets (texts, style values, "
                "class names and language codes with quotes, &, <, ]]>; styles named like region ids; spans with and "
                "without markup; identical timespans; layouts at three levels) x three DFXP writers x options x force: "
                "strict XML 1.0 (expat), tt in the TTML namespace, one div per written language, one p per caption (per "
                "run for legacy / single-position), ids unique, style= / region= resolve to one definition, every region "
                "referenced", lambda b: bounded(ctx, b))
    ctx.trust("A: bs4 tree building and prettify with the writers' formatter (attribute values escaped, text verbatim); "
              "expat (xml.etree) as the strict XML 1.0 parser - lxml additionally enforces NCName on xml:id, which the "
              "statement does not ask for")
    ctx.assume("region / style bookkeeping (RegionCreator) is bounded-checked only; the hand-written span markup is proved balanced")
