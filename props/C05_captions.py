"""CaptionCreator.create_and_store (SCC reader): how a buffer of instruction nodes becomes captions,
proved for EVERY instruction list with a loop invariant (shared by C05 and C11).

Given the list `_format_italics` returns (its contract, proved in C11_italics: italics closed,
alternating, never open across a repositioning), every caption created
  * has the start and end passed to the call (the parts of one screen share their times), and
  * has balanced style nodes: STYLE start / end alternate and the last one is an end.
A new caption begins exactly at each repositioning node; captions are fresh objects (symbolic
allocation), their node lists are heap lists written through by `caption.nodes.append`."""
import ast

import z3

from pycaption.base import CaptionNode
from pycaption.scc import specialized_collections as SC
from pycaption.scc.specialized_collections import CaptionCreator, PreCaption, _InstructionNode
from pyvc import heap, sym
from pyvc.heap import SymList, SymRef, declare, loop_rule, SEQ, INT, heap_array, as_seq, NONE_REF
from pyvc.sym import cur, SNum
import props.C11_italics as IT

D = z3.Function("STYLE_DEPTH", SEQ, INT)        # 0 closed, 1 open, 2 = start / end do not alternate
BAD = 2


def create_and_store(c):
    heap.install(c.interp)
    saved, saved_kinds = dict(heap.SCHEMAS), dict(heap.CUSTOM_KINDS)
    p = cur()
    try:
        declare(_InstructionNode, _type="int!", text="text", position="id")
        declare(CaptionNode, type_="int!", start="obool!", content="id", layout_info="id", position="id")
        declare(PreCaption, start="num", end="num", nodes="list:CaptionNode", style="id", layout_info="id", _alloc=True)
        declare(CaptionCreator, _still_editing="list:PreCaption", _collection="id")
        p.ghost["symbolic_heap"] = True
        IT.base_axioms(p)
        p.assume(D(z3.Empty(SEQ)) == 0)
        insts = SymList(z3.Const("instructions", SEQ), _InstructionNode)
        n = z3.Length(insts.t)
        p.assume(IT.SEG(insts.t) == IT.Q0)                    # contract of _format_italics (node_buffer.__iter__)
        TYc, STc = heap_array(p, CaptionNode, "type_"), heap_array(p, CaptionNode, "start")
        start, end = z3.Real("start"), z3.Real("end")
        me = SymRef(CaptionCreator, z3.Int("creator"))
        K = z3.Int("K")

        def dsnoc(s, x):
            st = z3.If(TYc[x] != CaptionNode.STYLE, D(s),
                       z3.If(STc[x] == 1, z3.If(D(s) == 0, 1, BAD), z3.If(D(s) == 1, 0, BAD)))
            return D(z3.Concat(s, z3.Unit(x))) == z3.If(D(s) == BAD, BAD, st)

        def inv(S):
            IT.instantiate(S, insts)
            S.p.assume(IT.absorbing(insts.t, S.i))
            S.p.assume(IT.absorbing(insts.t, S.i + 1))
            for s_, x_ in S.p.ghost.get("appends", []):
                S.p.assume(dsnoc(s_, x_))
            SE = z3.Select(S.field(CaptionCreator, "_still_editing"), me.ref)
            m = z3.Length(SE)
            cap = S.local("caption")
            cur_ref = cap.ref if isinstance(cap, SymRef) else z3.IntVal(NONE_REF)
            PS, PE, PN = S.field(PreCaption, "start"), S.field(PreCaption, "end"), S.field(PreCaption, "nodes")
            pre = IT.prefix(insts.t, S.i)
            validK = z3.And(K >= 0, K < m)
            return [("current_caption_is_the_last_one", z3.And(m >= 1, SE[m - 1] == cur_ref, cur_ref >= 0, cur_ref < S.alloc_ptr)),
                    ("every_caption_has_the_times_of_the_call", z3.Implies(validK, z3.And(PS[SE[K]] == start, PE[SE[K]] == end))),
                    ("captions_are_distinct_objects", z3.Implies(z3.And(validK, K < m - 1), z3.And(SE[K] < cur_ref, SE[K] >= 0))),
                    ("finished_captions_are_balanced", z3.Implies(z3.And(validK, K < m - 1), D(PN[SE[K]]) == 0)),
                    ("open_style_iff_italics_open", z3.Implies(IT.SEG(pre) != IT.BAD, D(PN[cur_ref]) == z3.If(IT.SEG(pre) == IT.Q1, 1, 0)))]
        q = "pycaption.scc.specialized_collections:CaptionCreator.create_and_store"
        c.interp.loop_hooks[(q, 1)] = loop_rule(
            "instructions", inv, locals_={"caption": ("ref", PreCaption), "layout_info": ("skip", None), "instruction": ("skip", None)},
            fields=[(PreCaption, f) for f in ("start", "end", "nodes", "style", "layout_info")] +
                   [(CaptionNode, f) for f in ("content", "layout_info", "position")] + [(CaptionCreator, "_still_editing")])
        c.interp.contracts["pycaption.scc.specialized_collections:_get_layout_from_tuple"] = \
            lambda interp, fn, a, kw: heap.SymId(cur().fresh_int("layout"))
        loc = c.run_region(CaptionCreator.create_and_store,
                           first=lambda st: isinstance(st, ast.Assign) and isinstance(st.value, ast.Call) and getattr(st.value.func, "id", "") == "PreCaption",
                           last=lambda st: isinstance(st, ast.For),
                           locals_={"self": me, "node_buffer": insts, "start": SNum(start, "float"), "end": SNum(end, "float")})
        IT.finish(p, insts)
        for s_, x_ in p.ghost.get("appends", []):
            p.assume(dsnoc(s_, x_))
        SE = z3.Select(heap_array(p, CaptionCreator, "_still_editing"), me.ref)
        m = z3.Length(SE)
        PS, PE, PN = heap_array(p, PreCaption, "start"), heap_array(p, PreCaption, "end"), heap_array(p, PreCaption, "nodes")
        validK = z3.And(K >= 0, K < m)
        c.ensure("at_least_one_caption", m >= 1)
        c.ensure("every_caption_has_the_times_of_the_call", z3.Implies(validK, z3.And(PS[SE[K]] == start, PE[SE[K]] == end)))
        c.ensure("every_caption_has_balanced_style_nodes", z3.Implies(validK, D(PN[SE[K]]) == 0))
    finally:
        heap.SCHEMAS.clear()
        heap.SCHEMAS.update(saved)
        heap.CUSTOM_KINDS.clear()
        heap.CUSTOM_KINDS.update(saved_kinds)


def has_break_before(c):
    """InstructionNodeCreator.has_break_before (decides whether a tab offset repositions the caption or
    belongs to a continuation row): True exactly when, walking back from the end of the buffer, a line
    break is met before any text - style and repositioning nodes in between do not count (an italic
    preamble on a continuation row stores BREAK, ITALICS ON).  Any buffer length (reversed loop)."""
    heap.install(c.interp)
    saved = dict(heap.SCHEMAS)
    p = cur()
    try:
        declare(_InstructionNode, _type="int!", text="text", position="id")
        nodes = SymList(z3.Const("collection", SEQ), _InstructionNode)
        n = z3.Length(nodes.t)
        TY = heap_array(p, _InstructionNode, "_type")
        TEXT, BREAK = _InstructionNode.TEXT, _InstructionNode.BREAK
        J = z3.Int("any_index")
        p.assume(z3.And(0 <= J, J < n))
        other = lambda k: z3.And(TY[nodes.t[k]] != TEXT, TY[nodes.t[k]] != BREAK)

        def inv(S):
            # the last S.i nodes are neither text nor break
            return [("nodes_walked_so_far_are_neither_text_nor_break", z3.Implies(J >= n - S.i, other(J)))]
        c.interp.loop_hooks[("pycaption.scc.specialized_collections:InstructionNodeCreator.has_break_before", 1)] = \
            loop_rule("walk_back", inv)
        r = c.call(SC.InstructionNodeCreator.has_break_before, nodes, compare=False)
        i = p.ghost.get("loop_index", {}).get("walk_back")
        res = sym.zbool(r)
        if i is None:
            # no walk happened on this path: only right for the empty buffer (same obligation names, so that code
            # which answers without walking back fails the obligations that were discharged before)
            for nm in ("nodes_after_the_stop_are_neither_text_nor_break", "stopped_at_a_break_means_true", "stopped_at_text_means_false",
                       "stops_only_at_text_or_break", "no_text_and_no_break_means_false"):
                c.ensure(nm, z3.And(n == 0, z3.Not(res)))
        else:
            k = n - 1 - i                                # the node the walk stopped at (-1: walked through)
            c.ensure("nodes_after_the_stop_are_neither_text_nor_break", z3.Implies(J > k, other(J)))
            c.ensure("stopped_at_a_break_means_true", z3.Implies(z3.And(k >= 0, TY[nodes.t[k]] == BREAK), res))
            c.ensure("stopped_at_text_means_false", z3.Implies(z3.And(k >= 0, TY[nodes.t[k]] == TEXT), z3.Not(res)))
            c.ensure("stops_only_at_text_or_break", z3.Implies(k >= 0, z3.Not(other(k))))
            c.ensure("no_text_and_no_break_means_false", z3.Implies(k < 0, z3.Not(res)))
    finally:
        heap.SCHEMAS.clear()
        heap.SCHEMAS.update(saved)


def prove_captions(ctx):
    ctx.prove("scc.InstructionNodeCreator.has_break_before", has_break_before,
              functions=[SC.InstructionNodeCreator.has_break_before], crosscheck=False)
    ctx.prove("scc.CaptionCreator.create_and_store", create_and_store, functions=[CaptionCreator.create_and_store],
              crosscheck=False)
    ctx.assume("create_and_store: the buffer iterates over what _format_italics returns (its proved contract is assumed "
               "at the call: italics closed, alternating, never open across a repositioning); "
               "_get_layout_from_tuple is under contract (proved in C05); the final hand-over "
               "self._collection.extend(self._still_editing) is outside the region (TimingCorrectingCaptionList.extend, C06)")
