"""DFXPWriter._recreate_span, one style node at a time (shared by C07, C11, C12): the tag text it appends.

P[n]: every combination of  opening / closing node  x  node with / without a layout  x  style attributes
(none / italic / italic + text-align + class)  x  write_inline_positioning  x  a span already open or not.
`_recreate_style` and `RegionCreator.get_positioning_info` are replaced by recording stubs (their own contracts:
C11 ground obligations, C12 `_convert_layout_to_attributes`); the text is concrete, so the obligations are over
the exact string the real statements build:

  * opening node -> one `<span ...>` whose attributes are exactly: the style attributes, `region="<id>"` iff the
    node has a layout (the id the region creator gives for THIS node), and - with inline positioning - the region's
    attributes that are not style attributes already; no attribute name twice (strict XML); a span that was open
    is closed first; a node with nothing to say opens nothing;
  * closing node -> `</span>` iff a span is open; the region creator is not consulted (it marks regions as used).
"""
import re

from pycaption.base import CaptionNode
from pycaption.dfxp.base import DFXPWriter

STYLE_VARIANTS = {
    "none": {},
    "italic": {"tts:fontStyle": "italic"},
    "italic+align+class": {"style": "quote", "tts:textAlign": "right", "tts:fontStyle": "italic"},
}
REGION_ATTRS = {"tts:origin": "10% 20%", "tts:extent": "30% 40%", "tts:textAlign": "left", "tts:displayAlign": "after"}


class _Regions:
    def __init__(self):
        self.calls = []

    def get_positioning_info(self, lang, caption_set, caption=None, caption_node=None):
        self.calls.append(caption_node)
        return "r7", dict(REGION_ATTRS)


def span_tag(c):
    opening = c.pick("opening_node", [True, False])
    has_layout = c.pick("node_has_a_layout", [True, False])
    variant = c.pick("style_attributes", list(STYLE_VARIANTS))
    inline = c.pick("write_inline_positioning", [False, True])
    was_open = c.pick("a_span_is_open", [False, True])
    attrs = STYLE_VARIANTS[variant]
    regions = _Regions()
    w = c.new(DFXPWriter, open_span=was_open, write_inline_positioning=inline, region_creator=regions, p_style=False)
    node = CaptionNode.create_style(opening, {"marker": variant}, layout_info="the node's layout" if has_layout else None)
    c.interp.contracts["pycaption.dfxp.base:_recreate_style"] = lambda interp, fn, a, kw: dict(attrs)
    before = "some text "
    r = c.call(DFXPWriter._recreate_span, w, before, node, "dfxp soup", "caption set", "caption", "en", compare=False)
    now_open = c.interp.getattr(w, "open_span")
    if not opening:
        c.ensure("closing_node_closes_an_open_span_and_nothing_else",
                 r == (before.rstrip() + "</span> " if was_open else before) and now_open is False)
        c.ensure("closing_node_leaves_the_region_creator_alone", regions.calls == [])
        return
    speaks = bool(attrs) or has_layout
    if not speaks:
        c.ensure("a_node_with_nothing_to_say_opens_no_span", r == before and now_open == was_open and regions.calls == [])
        return
    m = re.fullmatch(re.escape(before.rstrip() + "</span> " if was_open else before) + r"<span((?: [\w:]+=\"[^\"<>]*\")+)>", r)
    c.ensure("one_span_tag_is_appended_after_closing_an_open_one", m is not None)
    if m is None:
        return
    pairs = re.findall(r" ([\w:]+)=\"([^\"]*)\"", m.group(1))
    names = [k for k, _ in pairs]
    got = dict(pairs)
    want = dict(attrs)
    if has_layout:
        want["region"] = "r7"
        if inline:
            for k, v in REGION_ATTRS.items():
                want.setdefault(k, v)
    c.ensure("no_attribute_twice", len(names) == len(set(names)))
    c.ensure("attributes_are_the_style_the_region_reference_and_the_inline_positioning", got == want)
    c.ensure("region_looked_up_for_this_node_exactly_when_it_has_a_layout", regions.calls == ([node] if has_layout else []))
    c.ensure("a_span_is_open_afterwards", now_open is True)


def prove_span_tag(ctx):
    ctx.prove("dfxp.DFXPWriter._recreate_span/tag", span_tag, functions=[DFXPWriter._recreate_span], crosscheck=False)
