"""The read accessors of CaptionSet are pure (shared by C09 and C14): asking for something - also for a language or a
style that is not there - returns what is stored (or the documented default) and changes nothing: the same languages
in the same order, the same list objects, the same styles.  P[n] over sets of zero to three languages x the name asked
for (present / absent); the state after the call is compared component by component with the state before."""
from pycaption.base import Caption, CaptionList, CaptionNode, CaptionSet


def accessors(c):
    n = c.pick("languages", [0, 1, 3])
    langs = ["en-US", "fr", "de-DE"][:n]
    lists = {l: CaptionList([Caption(k * 10, k * 10 + 5, [CaptionNode.create_text(f"{l}{k}")]) for k in range(i)], layout_info=f"layout {l}")
             for i, l in enumerate(langs)}          # (the first language has no captions)
    styles = {"k": {"color": "red"}, "a": {}}
    cs = c.new(CaptionSet, _captions=dict(lists), _styles=dict(styles), layout_info="set layout")
    asked = c.pick("asked_for", ["present", "absent"])
    lang = (langs[-1] if langs else "en-US") if asked == "present" else "zz"
    sel = "k" if asked == "present" else "nope"
    which = c.pick("accessor", ["get_captions", "get_layout_info", "get_style", "get_styles", "get_languages", "is_empty"])
    has = lang in lists
    if which == "get_captions":
        r = c.call(CaptionSet.get_captions, cs, lang, compare=False)
        c.ensure("the_stored_list_or_an_empty_one", (r is lists[lang]) if has else (len(r) == 0))
    elif which == "get_layout_info":
        r = c.call(CaptionSet.get_layout_info, cs, lang, compare=False)
        c.ensure("the_layout_of_a_language_with_captions_else_none", r == (f"layout {lang}" if has and len(lists[lang]) else None))
    elif which == "get_style":
        r = c.call(CaptionSet.get_style, cs, sel, compare=False)
        c.ensure("the_stored_rules_or_none", (r is styles["k"]) if sel == "k" else (r == {}))
    elif which == "get_styles":
        r = c.call(CaptionSet.get_styles, cs, compare=False)
        c.ensure("every_style_sorted_by_name", list(r) == [("a", {}), ("k", {"color": "red"})])
    elif which == "get_languages":
        r = c.call(CaptionSet.get_languages, cs, compare=False)
        c.ensure("the_languages_in_their_order", list(r) == langs)
    else:
        r = c.call(CaptionSet.is_empty, cs, compare="truth")
        c.ensure("empty_iff_no_language_has_a_caption", bool(r) == (not any(len(v) for v in lists.values())))
    now = c.interp.getattr(cs, "_captions")
    c.ensure("asking_changes_nothing", list(now.keys()) == langs and all(now[l] is lists[l] for l in langs)
             and all(len(now[l]) == i and now[l].layout_info == f"layout {l}" for i, l in enumerate(langs))
             and c.interp.getattr(cs, "_styles") == styles and list(c.interp.getattr(cs, "_styles")) == list(styles)
             and c.interp.getattr(cs, "layout_info") == "set layout")


def prove_accessors(ctx):
    ctx.prove("base.CaptionSet[read accessors]", accessors,
              functions=[CaptionSet.get_captions, CaptionSet.get_layout_info, CaptionSet.get_style, CaptionSet.get_styles,
                         CaptionSet.get_languages, CaptionSet.is_empty], crosscheck=False)
