"""C20 - format detection is total, consistent and recognises pycaption's own output."""
import itertools
import random

import pycaption
from pycaption import (detect_format, CaptionSet, CaptionList, Caption, CaptionNode, DFXPReader, DFXPWriter,
                       MicroDVDReader, MicroDVDWriter, SAMIReader, SAMIWriter, SCCReader, SCCWriter, SRTReader,
                       SRTWriter, WebVTTReader, WebVTTWriter)
from pycaption.exceptions import CaptionReadNoCaptions
from pyvc import astr
from pyvc.verify import Raised

DOCUMENTED_ORDER = [DFXPReader, MicroDVDReader, WebVTTReader, SAMIReader, SRTReader, SCCReader]

ALPHA = "01\n{}->W<tE:/"        # (markers of every format, plus what a namespace prefix or a closing tag is made of)
POOL = None


def pool():
    """candidate strings for concretising a model of the observations"""
    global POOL
    if POOL is None:
        frags = ["", "1", "12", "a", "\n", "1\n", "1\n-->", "1\n00:00:01,000 --> 00:00:02,000\nx\n", "{1}{2}x",
                 "{0}{0}25", "WEBVTT", "WEBVTT\n\n", "<sami>", "<SAMI></SAMI>", "</tt>", "<tt></tt>",
                 "Scenarist_SCC V1.0", "Scenarist_SCC V1.0\n\n00:00:00:00\t9420", "x\n-->", "-->", "1\nx", "12\n-->\n",
                 "\n1\n-->", " ", "\n\n", "a\nb", "1\n\n",
                 "\u00b2", "\u00b2\n-->", "\u2460\n-->"]         # (digits for str.isdigit() that int() rejects)
        POOL = list(dict.fromkeys(frags + [a + b for a in frags for b in frags]))
    return POOL


def setup(interp):
    astr.install(interp)


def detect_total(c):
    """for EVERY non-empty string: no exception, and the result is the first class in the documented
    order whose own detect() accepts the string, else None"""
    s = c.text("caps", pool())
    if c.symbolic:
        from pyvc.sym import cur
        cur().assume(s.length().t >= 1)
    else:
        c.assume(len(s) >= 1)
    r = c.call(detect_format, s)
    expected = None
    for R in DOCUMENTED_ORDER:
        d = c.call(R.detect, R(), s, compare="truth")
        if c.truth(d):
            expected = R
            break
    c.ensure("first_accepting_reader_in_documented_order", r is expected)


def detect_each_total(R):
    def contract(c):
        s = c.text("caps", pool())
        if c.symbolic:
            from pyvc.sym import cur
            cur().assume(s.length().t >= 1)
        else:
            c.assume(len(s) >= 1)
        d = c.call(R.detect, R(), s, compare="truth")
        c.ensure("returns_a_truth_value_without_raising", True)
    return contract


def detect_empty(c):
    r = c.call(detect_format, "", raises=(CaptionReadNoCaptions,))
    c.ensure("empty_string_raises_the_documented_error", isinstance(r, Raised))


def order_is_documented(g):
    g.check("SUPPORTED_READERS is DFXP, MicroDVD, WebVTT, SAMI, SRT, SCC",
            list(pycaption.SUPPORTED_READERS) == DOCUMENTED_ORDER, {"order": [r.__name__ for r in pycaption.SUPPORTED_READERS]})


def detection_has_no_memory(g):
    """frame: detect_format and the detect methods (with what they can reach, by name) keep no module-level or
    class-level state - no global statement, no mutated module / class container, no memoising decorator -, so
    the answer for a string cannot depend on the strings detected before"""
    import importlib
    from pyvc import frames
    mods = ["pycaption", "pycaption.base", "pycaption.srt", "pycaption.webvtt", "pycaption.microdvd", "pycaption.sami",
            "pycaption.dfxp.base", "pycaption.scc"]
    trees = {m: frames.module_ast_of(importlib.import_module(m)) for m in mods}
    entries = [(None, "detect_format")] + [(R.__name__, "detect") for R in DOCUMENTED_ORDER]
    scoped, dropped = frames.reachable_trees(trees, entries)
    g.check("scope: detect_format is reachable", any(
        isinstance(st, __import__("ast").FunctionDef) and st.name == "detect_format" and not isinstance(st.body[0], __import__("ast").Pass)
        for st in scoped["pycaption"].body), None)
    for m in mods:
        frames.no_global_mutation(scoped[m], g, m)


# ------------------------------------------------------------------------------------ bounded part

def reference_detect(s):
    for R in DOCUMENTED_ORDER:
        if R().detect(s):
            return R
    return None


T = lambda s: CaptionNode.create_text(s)


def sample_sets(rng):
    texts = ["hello", "two words", "Ünï çødé", "a & b", "x < y", "1", "12", "{1}{2}", "plain; text.", "it's \"quoted\"",
             "x" * 33, "see www.example.org/captions/files/season1/episode12 now", "Donaudampfschifffahrtsgesellschaftskapitaen",
             # text that talks about formats without containing a marker (markers are WEBVTT in capitals, --> , <sami, </tt>,
             # the Scenarist header as first line, {n}{n} at the start of a line), and character references that are not valid
             "export the subtitles as webvtt or srt", "Webvtt, Scenarist_SCC v1.0 and sami", "tt is not /tt", "In hex that is &#XE9; or &#xe9;",
             "&#1114112; &#99999999999; &#xD800; are invalid", "a -> b, not an arrow"]
    out = []
    for i in range(14):            # (3 cues x 14 sets walk through all the texts)
        caps = []
        # integer microseconds, and the fractional times the SCC reader and adjust_caption_timing produce
        t = (10 ** 6 if i % 3 else 1001000 * 10 / 30 * 3) if i % 5 != 4 else (0 if i == 4 else 999)       # (also a first cue at time zero)
        for j in range(rng.choice([1, 2, 3])):
            nodes = [T(texts[(i * 3 + j) % len(texts)])]
            if rng.random() < 0.5:
                nodes += [CaptionNode.create_break(), T(rng.choice(texts))]
            if i % 4 == 1 and j == 0:
                # a blank row inside the cue, then a row of digits (what a cue number looks like)
                nodes += [CaptionNode.create_break(), T(" "), CaptionNode.create_break(), T("2024")]
            caps.append(Caption(t, t + 2 * 10 ** 6 + (1 / 3 if i % 3 == 0 else 0), nodes))
            t += 5 * 10 ** 6
        out.append(CaptionSet({"en-US": CaptionList(caps)}))
    # sets as the readers return them (conversions: every reader's result through every writer)
    from props import samples
    readers = {"srt": SRTReader, "webvtt": WebVTTReader, "dfxp": DFXPReader, "sami": SAMIReader, "microdvd": MicroDVDReader, "scc": SCCReader}
    for fmt, docs in samples.all_docs().items():
        out.append(readers[fmt]().read(docs[0]))
    return out


def bounded(ctx, b):
    rng = random.Random(ctx.seed)
    L = 4 if not ctx.thorough else 5
    for n in range(1, L + 1):
        for tup in itertools.product(ALPHA, repeat=n):
            s = "".join(tup)

            def one(s=s):
                got = detect_format(s)
                want = reference_detect(s)
                return got is want, {"string": s, "got": repr(got), "expected": repr(want)}
            b.guard(s, one, nontrivial=("\n" in s or "{" in s or "W" in s), sample=s if n == 3 and s[0] == "1" else None)
    pairs = [(SRTWriter, SRTReader), (WebVTTWriter, WebVTTReader), (DFXPWriter, DFXPReader), (SAMIWriter, SAMIReader),
             (MicroDVDWriter, MicroDVDReader), (SCCWriter, SCCReader)]
    for cs in sample_sets(rng):
        for Wr, Rd in pairs:
            try:
                doc = Wr(video_width=640, video_height=360).write(cs) if Wr in (WebVTTWriter, DFXPWriter, SAMIWriter) else Wr().write(cs)
            except pycaption.exceptions.RelativizationError:
                continue            # the writer refuses (rightly) to convert a layout: no document to detect

            def one(doc=doc, Rd=Rd):
                got = detect_format(doc)
                if got is not Rd:
                    return False, {"writer_output_detected_as": repr(got), "expected": Rd.__name__, "doc": doc[:200]}
                back = Rd().read(doc)
                n = sum(len(back.get_captions(l)) for l in back.get_languages())
                return n >= 1, {"reader_read_no_captions": doc[:200]}
            b.guard((Wr.__name__, doc), one, sample={"writer": Wr.__name__, "doc": doc[:120]})
            # truncations of a valid document at every byte: never an exception other than none
            step = 1 if len(doc) < 400 else max(1, len(doc) // 300)
            for cut in range(1, len(doc), step):
                pre = doc[:cut]

                def two(pre=pre):
                    got = detect_format(pre)
                    return got is reference_detect(pre), {"prefix": pre[-60:], "got": repr(got)}
                b.guard(("trunc", Wr.__name__, pre), two, nontrivial=False)


def bounded_sequences(ctx, b):
    """the answer for a string does not depend on what was detected before: every ordered pair (document of
    one format, string accepted by more than one reader or by none) in one process"""
    from props import samples
    # first lines that str.isdigit() accepts but int() may not: detection never raises
    for s in ["\u00b2\n00:00:01,000 --> 00:00:02,000\nx\n", "1\u00b9\n-->", "\u2460\n-->", "\u0663\n00:00:01,000 --> 00:00:02,000\nx", "9" * 5000 + "\n-->",
              "\u00b2", "\u2460\n", "\u00bd\n-->", "\u0967\n-->\n"]:
        def dig(s=s):
            got = detect_format(s)
            return got is reference_detect(s), {"string": s[:40], "got": repr(got)}
        b.guard(("digits", s[:20], len(s)), dig, sample=s[:40])
    # strings made of characters that strip / splitlines / isspace treat specially (a byte order mark, line and
    # paragraph separators, control characters): detection never raises
    for ch in ["\ufeff", "\u2028", "\u2029", "\x85", "\x0b", "\x0c", "\x1c", "\x1d", "\x1e", "\x00", "\r", "\t", " ", "\u00a0", "\u200b", "\u3000"]:
        for s in [ch, ch + ch, ch + "\n", "\n" + ch, ch + "WEBVTT", ch + "1\n00:00:01,000 --> 00:00:02,000\nx\n", ch + "{1}{2}x", "{1}{2}" + ch]:
            def odd(s=s):
                got = detect_format(s)
                return got is reference_detect(s), {"string": s[:40], "got": repr(got)}
            b.guard(("odd", s), odd, sample=repr(s[:40]))
    firsts = [docs[0] for docs in samples.all_docs().values()] + ["no format at all"]
    seconds = ["1\n-->WEBVTT", "WEBVTT\n\n1\n00:01.000 --> 00:02.000\nx", "1\n00:00:01,000 --> 00:00:02,000\nsee WEBVTT\n",
               "Scenarist_SCC V1.0\n\n00:00:01:00\t9420 </tt>", "{1}{2}</tt>", "{1}{2}<sami>", "<sami>\n1\n-->", "{1}{2}WEBVTT", "{1}{2}x\n1\n-->",
               "Scenarist_SCC V1.0 <SAMI>", "Scenarist_SCC V1.0\n1\n-->", "<SAMI></tt>", "nothing", "1\n-->"]
    for a in firsts:
        for s in seconds:
            def one(a=a, s=s):
                detect_format(a)
                got = detect_format(s)
                want = reference_detect(s)
                return got is want, {"detected_before": a[:60], "string": s, "got": repr(got), "expected": repr(want)}
            b.guard(("seq", a[:40], s), one, sample={"detected_before": a[:60], "string": s})


def bounded_long_documents(ctx, b):
    """long documents (hundreds of cues, far beyond 64 KiB for the XML formats): the marker that decides may stand at
    the very end (DFXP's closing tag) or only at the start"""
    pairs = [(SRTWriter, SRTReader), (WebVTTWriter, WebVTTReader), (DFXPWriter, DFXPReader), (SAMIWriter, SAMIReader),
             (MicroDVDWriter, MicroDVDReader), (SCCWriter, SCCReader)]
    from pycaption.dfxp.extras import LegacyDFXPWriter, SinglePositioningDFXPWriter
    pairs += [(LegacyDFXPWriter, DFXPReader), (SinglePositioningDFXPWriter, DFXPReader)]
    for n_cues in (700, 2500 if ctx.thorough else 1200):
        cs = CaptionSet({"en-US": CaptionList([Caption((3 * j + 1) * 10 ** 6, (3 * j + 3) * 10 ** 6, [T(f"caption number {j} of a long programme")])
                                               for j in range(n_cues)])})
        for Wr, Rd in pairs:
            def one(Wr=Wr, Rd=Rd, cs=cs, n_cues=n_cues):
                doc = Wr().write(cs)
                got = detect_format(doc)
                if got is not Rd:
                    return False, {"writer": Wr.__name__, "characters": len(doc), "detected_as": repr(got), "expected": Rd.__name__}
                back = Rd().read(doc)
                return sum(len(back.get_captions(l)) for l in back.get_languages()) == n_cues, {"writer": Wr.__name__, "cues_read": sum(len(back.get_captions(l)) for l in back.get_languages())}
            b.guard(("long", Wr.__name__, n_cues), one, sample={"writer": Wr.__name__, "cues": n_cues})


def bounded_first_frame(ctx, b):
    """a cue that starts and ends within the first 40 ms (one MicroDVD frame), alone and followed by another cue"""
    pairs = [(SRTWriter, SRTReader), (WebVTTWriter, WebVTTReader), (DFXPWriter, DFXPReader), (SAMIWriter, SAMIReader),
             (MicroDVDWriter, MicroDVDReader)]
    for spans in ([(0, 30000)], [(0, 30000), (10 ** 6, 2 * 10 ** 6)], [(1000, 39000), (50000, 90000)]):
        cs = CaptionSet({"en-US": CaptionList([Caption(s_, e_, [T("hello")]) for s_, e_ in spans])})
        for Wr, Rd in pairs:
            def one(Wr=Wr, Rd=Rd, cs=cs):
                doc = Wr().write(cs)
                got = detect_format(doc)
                if got is not Rd:
                    return False, {"writer_output_detected_as": repr(got), "doc": doc[:200]}
                back = Rd().read(doc)
                return sum(len(back.get_captions(l)) for l in back.get_languages()) >= 1, {"doc": doc[:200]}
            b.guard(("first_frame", Wr.__name__, tuple(spans)), one,
                    sample={"writer": Wr.__name__, "spans": spans, "cue_within_the_first_microdvd_frame": Wr is MicroDVDWriter})


def bounded_writer_options(ctx, b):
    """documents written with the language options set to a code the set does not have (DFXP force=, WebVTT lang= is
    excluded: it selects nothing by its contract): still the writer's format, and its reader reads the captions"""
    from pycaption.dfxp.extras import SinglePositioningDFXPWriter, LegacyDFXPWriter
    cs = CaptionSet({"en-US": CaptionList([Caption((2 * j + 1) * 10 ** 6, (2 * j + 2) * 10 ** 6, [T(f"cue {j}")]) for j in range(3)])})
    for Wr in (DFXPWriter, SinglePositioningDFXPWriter, LegacyDFXPWriter):
        for force in ("en", "fr", "EN-us", "en-US"):
            def one(Wr=Wr, force=force):
                doc = Wr().write(cs, force=force)
                got = detect_format(doc)
                if got is not DFXPReader:
                    return False, {"detected_as": repr(got)}
                try:
                    back = DFXPReader().read(doc)
                except Exception as e:
                    return False, {"writer": Wr.__name__, "force": force, "its_reader_raises": repr(e)[:200], "doc": doc[-300:]}
                n = sum(len(back.get_captions(l)) for l in back.get_languages())
                return n == 3, {"writer": Wr.__name__, "force": force, "cues_read": n}
            b.guard(("force", Wr.__name__, force), one, sample={"writer": Wr.__name__, "force": force})


def bounded_early_cues(ctx, b):
    """cues that start sooner after time zero than their own text takes to transmit (SCC sends a caption ahead of its
    start time): the document is still one its reader reads"""
    pairs = [(SRTWriter, SRTReader), (WebVTTWriter, WebVTTReader), (DFXPWriter, DFXPReader), (SAMIWriter, SAMIReader),
             (MicroDVDWriter, MicroDVDReader), (SCCWriter, SCCReader)]
    long_text = "forty characters of text in this caption"
    for spans in ([(0, 300000), (400000, 3 * 10 ** 6)], [(100000, 900000), (10 ** 6, 2 * 10 ** 6), (2100000, 4 * 10 ** 6)], [(500000, 4 * 10 ** 6)]):
        cs = CaptionSet({"en-US": CaptionList([Caption(s_, e_, [T(long_text), CaptionNode.create_break(), T(long_text[:30])]) for s_, e_ in spans])})
        for Wr, Rd in pairs:
            def one(Wr=Wr, Rd=Rd, cs=cs, spans=spans):
                doc = Wr().write(cs)
                got = detect_format(doc)
                if got is not Rd:
                    return False, {"writer_output_detected_as": repr(got), "doc": doc[:200]}
                try:
                    back = Rd().read(doc)
                except Exception as e:
                    return False, {"writer": Wr.__name__, "its_reader_raises": repr(e)[:200], "doc": doc[:300]}
                n = sum(len(back.get_captions(l)) for l in back.get_languages())
                return n == len(spans), {"writer": Wr.__name__, "cues_read": n, "cues_written": len(spans), "doc": doc[:300]}
            b.guard(("early", Wr.__name__, tuple(spans)), one, sample={"writer": Wr.__name__, "spans": spans})


def bounded_blank_first_cue(ctx, b):
    """a caption set whose FIRST cue holds nothing but white space (a blank, a tab, a no-break space, nothing) and is
    followed by a cue with text: the document starts with a cue that has no text of its own; it is still the writer's
    format, and the reader of that format reads it (the cue with text is there)"""
    pairs = [(SRTWriter, SRTReader), (WebVTTWriter, WebVTTReader), (DFXPWriter, DFXPReader), (SAMIWriter, SAMIReader),
             (MicroDVDWriter, MicroDVDReader), (SCCWriter, SCCReader)]
    for first in (" ", "\u00a0", "  \t", ""):
        for start in (10 ** 6, 0):
            cs = CaptionSet({"en-US": CaptionList([Caption(start, 2 * 10 ** 6, [T(first)]), Caption(3 * 10 ** 6, 4 * 10 ** 6, [T("hello there")])])})
            for Wr, Rd in pairs:
                def one(Wr=Wr, Rd=Rd, cs=cs):
                    doc = Wr().write(cs)
                    got = detect_format(doc)
                    if got is not Rd:
                        return False, {"writer_output_detected_as": repr(got), "expected": Rd.__name__, "doc": doc[:200]}
                    try:
                        back = Rd().read(doc)
                    except Exception as e:
                        return False, {"writer": Wr.__name__, "its_reader_raises": repr(e)[:200], "doc": doc[:300]}
                    texts = [c_.get_text() for l in back.get_languages() for c_ in back.get_captions(l)]
                    return any("hello there" in t_.replace("\n", " ") for t_ in texts), {"writer": Wr.__name__, "texts_read": texts, "doc": doc[:300]}
                b.guard(("blank-first", Wr.__name__, first, start), one, sample={"writer": Wr.__name__, "first_cue_text": first, "first_cue_start": start})


def run(ctx):
    P = ctx.prove
    ctx.ground("SUPPORTED_READERS/order", order_is_documented)
    ctx.bounded("long_documents", "the output of the eight writers for 700 and 1200 (thorough: 2500) cues: detected as the writer's "
                "format and read back with every cue", lambda b: bounded_long_documents(ctx, b))
    ctx.bounded("first_frame", "caption sets whose first cue lies within the first 40 ms, through the five text writers: "
                "detected as the writer's format and read back", lambda b: bounded_first_frame(ctx, b))
    ctx.bounded("writer_options", "the three DFXP writers with force= set to a code the set does not have (a prefix, another "
                "language, another letter case) and to the one it has: detected as DFXP and read back with every cue",
                lambda b: bounded_writer_options(ctx, b))
    ctx.bounded("early_cues", "caption sets of one to three long two-row cues that start within their own SCC transmission time "
                "of zero, through the six writers: detected as the writer's format, read back by that reader with every cue",
                lambda b: bounded_early_cues(ctx, b))
    ctx.bounded("blank_first_cue", "caption sets whose first cue holds white space only (blank, tab, no-break space, empty) "
                "followed by a cue with text, first cue at 1 s and at 0, through the six writers: detected as the writer's "
                "format and read by that reader", lambda b: bounded_blank_first_cue(ctx, b))
    ctx.frame("detection_has_no_memory", detection_has_no_memory)
    ctx.bounded("sequences", "every ordered pair (a document of each format or of none detected first, then one of 14 strings "
                "that several readers or none accept): the second answer is the first accepting reader of the documented "
                "order whatever was detected before", lambda b: bounded_sequences(ctx, b))
    for R in DOCUMENTED_ORDER:
        P(f"{R.__name__}.detect/total", detect_each_total(R), functions=[R.detect], setup_interp=setup)
    P("detect_format/non_empty", detect_total, functions=[detect_format], setup_interp=setup)
    P("detect_format/empty", detect_empty, functions=[detect_format], setup_interp=setup)
    ctx.bounded("strings", "every string up to length 4 (thorough: 5) over the alphabet 0 1 newline { } - > W < t E: "
                "detect_format returns the first accepting reader of the documented order and never raises; every "
                "writer's output on sample caption sets is detected as its own format and read back; truncations of "
                "those documents at every byte", lambda b: bounded(ctx, b))
    ctx.trust("abstract strings: a str is known only through uninterpreted observations (len, lower, substring tests, "
              "splitlines count and lines, isdigit, equality with a literal, re.match); A: splitlines() of a non-empty "
              "string has between 1 and len(s) elements")
    ctx.assume("the abstraction is sound for 'never raises' and for the dispatch order; models are concretised from a "
               "pool of candidate strings before a violation is reported")
