"""C05 - SCC pop-on decoding reproduces the CEA-608 screen: text, rows, italics, position."""
import itertools
import random
from fractions import Fraction

import z3

from pycaption import SCCReader, CaptionNode
from pycaption.geometry import HorizontalAlignmentEnum as HA, VerticalAlignmentEnum as VA, UnitEnum
from pycaption.scc import constants as K, _is_pac_command
from pycaption.scc.specialized_collections import (_get_layout_from_tuple, InstructionNodeCreator, _InstructionNode)
from pycaption.scc.state_machines import _PositioningTracker, DefaultProvidingPositionTracker
from pyvc.sym import SInt
from refs import cea608 as C

U = Fraction(1, 2 ** 53)


# ------------------------------------------------------------------------------------ ground: tables

def tables(g):
    def key_parity(code):
        return all(C.has_odd_parity(int(code[i:i + 2], 16)) for i in range(0, len(code), 2))
    for code, ch in K.CHARACTERS.items():
        b = int(code, 16)
        exp = "" if (b & 0x7F) == 0 else C.BASIC.get(b & 0x7F)
        g.check(f"basic {code} -> {ch!r}", key_parity(code) and exp == ch, {"cea608": exp})
    missing = [f"{C.odd_parity(b):02x}" for b in range(0x20, 0x80) if f"{C.odd_parity(b):02x}" not in K.CHARACTERS]
    g.check("every basic code 20-7f is in the table", not missing, {"missing": missing})
    for code, ch in K.SPECIAL_CHARS.items():
        b1, b2 = int(code[:2], 16) & 0x7F, int(code[2:], 16) & 0x7F
        g.check(f"special {code} -> {ch!r}", key_parity(code) and b1 == 0x11 and C.SPECIAL.get(b2) == ch, {"cea608": C.SPECIAL.get(b2)})
    g.check("all 16 special characters present", len(K.SPECIAL_CHARS) == 16, {"n": len(K.SPECIAL_CHARS)})
    for code, ch in K.EXTENDED_CHARS.items():
        b1, b2 = int(code[:2], 16) & 0x7F, int(code[2:], 16) & 0x7F
        ref = (C.EXT_12 if b1 == 0x12 else C.EXT_13 if b1 == 0x13 else {}).get(b2)
        ascii_look_alike = {"│": "|"}          # the box-drawing vertical line is given as the ASCII bar
        g.check(f"extended {code} -> {ch!r}", key_parity(code) and (ref == ch or ascii_look_alike.get(ref) == ch), {"cea608": ref})
    # preamble address codes: all 15 rows x 8 indents (and the underline variants) -> (row, column)
    seen = set()
    for hi, lows in K.PAC_BYTES_TO_POSITIONING_MAP.items():
        for lo, pos in lows.items():
            if not key_parity(hi + lo):
                continue        # stray even-parity entries can never occur in a well-formed stream
            dec = C.pac_decode(int(hi, 16) & 0x7F, int(lo, 16) & 0x7F)
            ok = dec is not None and (dec[0], dec[1]) == tuple(pos)
            g.check(f"PAC {hi}{lo} -> {pos}", ok, {"cea608": dec})
            seen.add(tuple(pos))
    want = {(r, col) for r in range(1, 16) for col in range(0, 32, 4)}
    g.check("all 15 x 8 PAC addresses are decodable", want <= seen, {"missing": sorted(want - seen)[:10]})
    for row in range(1, 16):
        for col in range(0, 32, 4):
            for ul in (False, True):
                w = C.pac(row, col, underline=ul)
                g.check(f"PAC word {w} (row {row} col {col})", _is_pac_command(w) and tuple(K.PAC_BYTES_TO_POSITIONING_MAP[w[:2]][w[2:]]) == (row, col), {})
        w = C.pac(row, italics=True)
        g.check(f"italics PAC {w} (row {row})", _is_pac_command(w) and tuple(K.PAC_BYTES_TO_POSITIONING_MAP[w[:2]][w[2:]]) == (row, 0)
                and w in K.ITALICS_COMMANDS, {})
    # italics classification of EVERY style-setting word of the standard: the 16 mid-row codes and the
    # 15 x 32 preamble address codes (underlined variants included): italic iff the attribute bits say so
    from pycaption.scc.specialized_collections import InstructionNodeCreator as _INC
    for b2 in range(0x20, 0x30):
        w = C.word(0x11, b2)
        want = (b2 & 0x0E) == 0x0E
        got = _INC.get_style_for_command(w) == "italic"
        g.check(f"mid-row {w} italic={want}", got == want and (w in K.MID_ROW_CODES), {"classified_as": _INC.get_style_for_command(w)})
    for row, (hi, base) in C.PAC_ROW.items():
        for off in range(0x20):
            w = C.word(hi, base + off)
            want = (off & 0x1E) == 0x0E
            got = _INC.get_style_for_command(w) == "italic"
            g.check(f"PAC {w} (row {row}) italic={want}", got == want, {"classified_as": _INC.get_style_for_command(w)})
    g.check("tab offsets", K.PAC_TAB_OFFSET_COMMANDS == {C.ctrl("TO1"): 1, C.ctrl("TO2"): 2, C.ctrl("TO3"): 3}, {"table": K.PAC_TAB_OFFSET_COMMANDS})
    g.check("mid-row italics codes", C.midrow(True) in K.ITALICS_COMMANDS and C.midrow(False) in K.STYLE_SETTING_COMMANDS
            and C.midrow(False) not in K.ITALICS_COMMANDS, {})


def doubling(g):
    """SCCReader._handle_double_command over the whole tables (complete evaluation): from every state in
    which `word` is not already pending, the first transmission is processed and the second, identical one
    is skipped and clears the pending word; PAC TO PAC TO counts once each."""
    doubled = [w for w in K.COMMANDS if w != "94a1"] + [C.pac(r, col) for r in range(1, 16) for col in (0, 4, 28)] + list(K.SPECIAL_CHARS)
    doubled = list(dict.fromkeys(doubled))
    only_with_starter = list(K.EXTENDED_CHARS) + ["94a1"]
    states = ["", "c1c2", C.ctrl("EOC"), C.pac(3, 8), C.pac(3, 8) + " " + C.ctrl("TO1")]
    for w in doubled + only_with_starter:
        for last in states:
            for starter in (True, False):
                if last == w or (_is_pac_command(w) and w in last) or w in K.PAC_TAB_OFFSET_COMMANDS:
                    continue
                r = SCCReader()
                r.last_command, r.double_starter = last, starter
                first = r._handle_double_command(w)
                starter_now = r.double_starter
                second = r._handle_double_command(w)
                counted_once = (w in doubled) or starter_now
                ok = first is False and (second is True if counted_once else second is False)
                if counted_once:
                    ok = ok and r.last_command == ""
                g.check(f"double {w} from last={last!r} starter={starter}", ok, {"first": first, "second": second, "last_after": r.last_command})
    for p_, to in itertools.product([C.pac(r, col) for r in (1, 8, 15) for col in (0, 12)], [C.ctrl("TO1"), C.ctrl("TO2"), C.ctrl("TO3")]):
        r = SCCReader()
        res = [r._handle_double_command(x) for x in (p_, to, p_, to)]
        g.check(f"PAC TO PAC TO {p_} {to}", res == [False, False, True, True] and r.last_command == "", {"skips": res, "last": r.last_command})


def character_words(g):
    """P-ground, complete over the three tables: what `_translate_characters`, `_translate_special_char` and
    `_translate_extended_char` hand to the ACTIVE buffer - for every pair of basic-character bytes both characters, in order,
    in one call (a pair with an unknown byte: nothing); for every special code its one character; for every extended code
    first the replacement of the stand-in (`handle_backspace` with that code), then its one character - each exactly once,
    and nothing is handed to another buffer."""
    from pycaption.scc import SCCReader

    class Rec:
        def __init__(self, log, name):
            self.log, self.name = log, name
        def add_chars(self, *chars):
            self.log.append((self.name, "add", chars))
        def handle_backspace(self, word):
            self.log.append((self.name, "bs", word))

    def run(method, word, mode):
        rd = SCCReader()
        rd._reset_state() if hasattr(rd, "_reset_state") else None
        log = []
        for key in list(rd.buffer_dict.keys()):
            dict.__setitem__(rd.buffer_dict, key, Rec(log, key))
        rd.buffer_dict.active_key = mode
        getattr(rd, method)(word)
        return log
    modes = ["pop", "paint", "roll"]
    bad = []
    keys = list(K.CHARACTERS)
    for i, b1 in enumerate(keys):
        for b2 in keys:
            mode = modes[(i + len(b2) + int(b2, 16)) % 3]
            log = run("_translate_characters", b1 + b2, mode)
            if log != [(mode, "add", (K.CHARACTERS[b1], K.CHARACTERS[b2]))]:
                bad.append((b1 + b2, log))
    g.check(f"every pair of basic bytes ({len(keys)} x {len(keys)}): both characters, in order, once, to the active buffer", not bad, {"first": bad[:3]})
    unknown = [b for b in ("00", "7f", "ff", "1f") if b not in K.CHARACTERS]
    bad = [(u, k) for u in unknown for k in keys[:8] for w in (u + k, k + u) if run("_translate_characters", w, "pop")]
    g.check("a pair with an unknown byte hands on nothing", not bad, {"first": bad[:3]})
    for mode in modes:
        bad = [(w, run("_translate_special_char", w, mode)) for w, ch in K.SPECIAL_CHARS.items()
               if run("_translate_special_char", w, mode) != [(mode, "add", (ch,))]]
        g.check(f"every special code hands on its one character once ({mode})", not bad, {"first": bad[:3]})
        bad = [(w, run("_translate_extended_char", w, mode)) for w, ch in K.EXTENDED_CHARS.items()
               if run("_translate_extended_char", w, mode) != [(mode, "bs", w), (mode, "add", (ch,))]]
        g.check(f"every extended code replaces the stand-in, then hands on its one character ({mode})", not bad, {"first": bad[:3]})


def backspace(g):
    """an extended character replaces the stand-in before it (unless that one is itself extended);
    94a1 deletes one character"""
    for word in list(K.EXTENDED_CHARS) + ["94a1"]:
        for prev in ["AB", "A", "Á", "AÁ", ""]:
            nc = InstructionNodeCreator(position_tracker=DefaultProvidingPositionTracker())
            if prev:
                nc.add_chars(prev)
            nc.handle_backspace(word)
            got = nc._collection[-1].text if nc._collection else ""
            last_ext = bool(prev) and prev[-1] in K.EXTENDED_CHARS.values()
            exp = prev[:-1] if prev and (word == "94a1" or not last_ext) else prev
            g.check(f"backspace {word} after {prev!r}", got == exp, {"text": got, "expected": exp})


# ------------------------------------------------------------------------------------ proofs

def layout_from_tuple(c):
    """(row, col) -> x = 10 + 80*col/32 %, y = 5 + 90*(row-1)/15 %, aligned LEFT / TOP"""
    row, col = c.int("row", 1, 15), c.int("col", 0, 31)
    L = c.call(_get_layout_from_tuple, (row, col), compare=False)
    x, y = c.exact(L.origin.x.value), c.exact(L.origin.y.value)
    ex, ey = 10 + c.ratio(80 * col, 32), 5 + c.ratio(90 * (row - 1), 15)
    tol = 4 * U * 100
    c.ensure("x_linear_in_the_32_columns", c.conj(x - ex <= tol, ex - x <= tol, L.origin.x.unit == UnitEnum.PERCENT))
    c.ensure("y_linear_in_the_15_rows", c.conj(y - ey <= tol, ey - y <= tol, L.origin.y.unit == UnitEnum.PERCENT))
    c.ensure("left_top", L.alignment.horizontal == HA.LEFT and L.alignment.vertical == VA.TOP)
    c.ensure("nothing_else", L.extent is None and L.padding is None)
    r2 = c.call(_get_layout_from_tuple, None)
    c.ensure("no_position_no_layout", r2 is None)


def tracker_transition(c):
    """_PositioningTracker.update_positioning as a transition function over (positions, break_required,
    repositioning_required, last_column): next row -> pending line break; tab offset -> adjusts the
    position without repositioning; same position -> nothing; anything else -> repositioning"""
    row, col = c.int("row", 1, 15), c.int("col", 0, 31)
    nrow, ncol = c.int("new_row", 1, 15), c.int("new_col", 0, 31)
    brk = c.pick("break_pending", [False, True])
    lastcol = c.int("last_col", 0, 31)
    t = c.new(_PositioningTracker, _positions=[(row, col)], _break_required=brk, _repositioning_required=False,
              _last_column=lastcol if brk else None)
    c.call(_PositioningTracker.update_positioning, t, (nrow, ncol))
    ecol = lastcol if brk else col          # the column of the pending row counts once a break is pending
    is_next_row = nrow == row + 1
    is_tab = c.conj(nrow == row, ncol >= ecol + 1, ncol <= ecol + 3)
    same = c.conj(nrow == row, ncol == col)
    if c.truth(is_next_row):
        c.ensure("next_row_is_a_line_break", t._break_required is True and len(t._positions) == 2 and
                 c.truth(c.conj(t._positions[1][0] == nrow, t._positions[0][0] == row)) and t._repositioning_required is False)
        c.ensure("pending_column_remembered", c.truth(t._last_column == ncol))
    elif brk and c.truth(is_tab):
        c.ensure("tab_offset_after_a_break_is_ignored", t._positions == [(row, col)] or
                 c.truth(c.conj(t._positions[0][0] == row, t._positions[0][1] == col)) and t._repositioning_required is False)
    elif c.truth(same):
        c.ensure("same_position_changes_nothing", len(t._positions) == 1 and t._repositioning_required is False and t._break_required is brk)
    else:
        c.ensure("position_replaced", len(t._positions) == 1 and c.truth(c.conj(t._positions[0][0] == nrow, t._positions[0][1] == ncol)))
        c.ensure("repositioning_unless_tab_offset", c.iff(t._repositioning_required is True, c.neg(is_tab)))


def tracker_accessors(c):
    """the rest of the tracker's interface, for every state: the two questions answer the two flags and change nothing; each
    acknowledgement clears its own flag and nothing else (a repositioning acknowledged must not swallow a pending line
    break, nor the other way round); the current position is the FIRST of the stored positions (the row a caption
    started on, not the row a pending break leads to); without any position the plain tracker refuses with the syntax
    error and the default-providing one answers its default - the last position given anywhere, (14, 0) at first."""
    from pycaption.exceptions import CaptionReadSyntaxError
    from pycaption.scc.state_machines import DefaultProvidingPositionTracker as DT
    cls = c.pick("tracker", [_PositioningTracker, DT])
    row, col, row2 = c.int("row", 1, 15), c.int("col", 0, 31), c.int("row2", 1, 15)
    brk, rep = c.pick("break_pending", [False, True]), c.pick("repositioning_pending", [False, True])
    shape = c.pick("positions", ["none", "one", "two"])
    positions = {"none": [None], "one": [(row, col)], "two": [(row, col), (row2, col)]}[shape]
    drow, dcol = c.int("default_row", 1, 15), c.int("default_col", 0, 31)
    extra = {"default": (drow, dcol)} if cls is DT else {}
    t = c.new(cls, _positions=list(positions), _break_required=brk, _repositioning_required=rep, _last_column=None, **extra)
    op = c.pick("operation", ["is_repositioning_required", "is_linebreak_required", "acknowledge_position_changed",
                              "acknowledge_linebreak_consumed", "get_current_position"])

    def unchanged(*fields):
        want = {"_positions": positions, "_break_required": brk, "_repositioning_required": rep}
        return all(len(t._positions) == len(positions) and all(a is b or c.truth(c.conj(a[0] == b[0], a[1] == b[1])) for a, b in zip(t._positions, positions))
                   if f == "_positions" else getattr(t, f) is want[f] for f in fields)
    if op == "get_current_position" and shape == "none" and cls is _PositioningTracker:
        from pyvc.verify import Raised
        raised = c.call(cls.get_current_position, t, raises=(CaptionReadSyntaxError,))
        c.ensure("no_position_is_the_syntax_error", isinstance(raised, Raised))
        return
    r = c.call(getattr(cls, op), t)
    if op == "is_repositioning_required":
        c.ensure("answers_the_repositioning_flag", r is rep)
        c.ensure("a_question_changes_nothing", unchanged("_positions", "_break_required", "_repositioning_required"))
    elif op == "is_linebreak_required":
        c.ensure("answers_the_line_break_flag", r is brk)
        c.ensure("a_question_changes_nothing", unchanged("_positions", "_break_required", "_repositioning_required"))
    elif op == "acknowledge_position_changed":
        c.ensure("clears_the_repositioning_flag", t._repositioning_required is False)
        c.ensure("and_nothing_else", unchanged("_positions", "_break_required"))
    elif op == "acknowledge_linebreak_consumed":
        c.ensure("clears_the_line_break_flag", t._break_required is False)
        c.ensure("and_nothing_else", unchanged("_positions", "_repositioning_required"))
    else:
        if shape == "none":
            c.ensure("default_when_no_position_was_given", c.truth(c.conj(r[0] == drow, r[1] == dcol)))
        else:
            c.ensure("the_first_stored_position", c.truth(c.conj(r[0] == row, r[1] == col)))
        c.ensure("a_question_changes_nothing", unchanged("_positions", "_break_required", "_repositioning_required"))


def default_tracker_update(c):
    """DefaultProvidingPositionTracker.update_positioning: a position given becomes the default, None leaves it; the
    transition itself is the plain tracker's (used by contract: called once with the same argument)"""
    from pycaption.scc.state_machines import DefaultProvidingPositionTracker as DT
    from pyvc.verify import args_by_name
    given = c.pick("a_position_is_given", [True, False])
    nrow, ncol = c.int("new_row", 1, 15), c.int("new_col", 0, 31)
    drow, dcol = c.int("default_row", 1, 15), c.int("default_col", 0, 31)
    has = c.pick("a_position_was_given_before", [False, True])
    t = c.new(DT, _positions=[(c.int("row", 1, 15), c.int("col", 0, 31))] if has else [None], _break_required=False,
              _repositioning_required=False, _last_column=None, default=(drow, dcol))
    arg = (nrow, ncol) if given else None
    log = []
    c.interp.contracts["pycaption.scc.state_machines:_PositioningTracker.update_positioning"] = \
        lambda interp, fn, a, kw: log.append((args_by_name(fn, a, kw)["self"], args_by_name(fn, a, kw)["positioning"]))
    from pyvc.verify import require_callees
    require_callees(c.interp.contracts)
    c.call(DT.update_positioning, t, arg, compare=False)
    c.ensure("transition_is_the_plain_trackers_once_with_the_same_argument", len(log) == 1 and log[0][0] is t and log[0][1] is arg)
    if given:
        c.ensure("a_given_position_becomes_the_default", c.truth(c.conj(t.default[0] == nrow, t.default[1] == ncol)))
    else:
        c.ensure("none_leaves_the_default", c.truth(c.conj(t.default[0] == drow, t.default[1] == dcol)))


# ------------------------------------------------------------------------------------ bounded part

ROWCOLS = [(r, col) for r in (1, 2, 8, 14, 15) for col in (0, 4, 28)]


def gen_rows(rng, nrows):
    """rows in ascending screen order: (row, col, tab, [segments]) with segments of basic text, special,
    extended, italic switches and backspaces"""
    rows = sorted(rng.sample(range(1, 16), nrows))
    out = []
    for r in rows:
        col = rng.choice([0, 4, 8, 16])
        to = rng.choice([0, 0, 1, 2, 3])
        segs = []
        for _ in range(rng.choice([1, 2, 3])):
            kind = rng.choice(["text", "text", "special", "extended", "ital_on", "ital_off", "bs"])
            if kind == "text":
                segs.append(("text", rng.choice(["AB", "Hi", "ok go", "x", "THE END", "it's", "a.b", ".", "!", ", so", "?"])))
            elif kind == "special":
                segs.append(("special", rng.choice(["♪", "®", "½", "è"])))
            elif kind == "extended":
                segs.append(("extended", rng.choice([("A", "Á"), ("E", "É"), ("u", "ü"), ("!", "¡")])))
            elif kind == "bs":
                # a backspace right after at least two characters of the same row (it never empties a row
                # and never acts across rows - neither is modelled by pycaption)
                segs.append(("text", rng.choice(["abc", "THE", "ok"])))
                segs.append(("bs", None))
            else:
                segs.append((kind, None))
        if not any(s[0] in ("text", "special", "extended") for s in segs):
            segs.append(("text", "Z"))
        # the row must fit the 32 columns of the screen (a decoder overwrites the last cell of a row that does not;
        # pycaption does not model that): an upper bound of the cells the segments occupy decides the indent
        cells = sum(len(v) if k == "text" else 2 if k == "extended" else 1 for k, v in segs if k != "bs")
        if col + to + cells > 31:
            col = 0 if to + cells > 23 else rng.choice([0, 4, 8])
        out.append((r, col, to, rng.random() < 0.2, segs))
    return out


def encode_rows(rows, dbl):
    ws = []

    def ctl(w, unit=None):
        ws.append(w)
        if dbl and unit is None:
            ws.append(w)
    for r, col, to, ital_pac, segs in rows:
        ul = (r + len(segs)) % 2 == 1          # underlined variants of the italic codes on every other row
        p = C.pac(r, 0, italics=True, underline=ul) if ital_pac else C.pac(r, col)
        if to:
            # (also after an italic preamble: the tab offset moves the cursor, the row stays italic)
            t = C.ctrl(f"TO{to}")
            ws.extend([p, t, p, t] if dbl else [p, t])
        else:
            ctl(p)
        for kind, val in segs:
            if kind == "text":
                ws.extend(C.text_words(val))
            elif kind == "special":
                ctl(C.special(val))
            elif kind == "extended":
                ws.extend(C.text_words(val[0]))
                ctl(val[1] if len(val[1]) == 4 else C.extended(val[1]))
            elif kind == "extended_after_special":
                # the stand-in cell was written with a special-character code (e.g. a-circumflex before A-circumflex)
                ctl(C.special(val[0]))
                ctl(val[1] if len(val[1]) == 4 else C.extended(val[1]))
            elif kind == "bs":
                ctl(C.ctrl("BS"))
            elif kind == "ital_on":
                ctl(C.midrow(True, underline=ul))
            else:
                ctl(C.midrow(False))
    return ws


def norm(s):
    # visible characters of a row: the blank cell a mid-row code occupies is deliberately not always
    # reproduced by pycaption (no space before punctuation, tests/test_scc.py::test_mid_row_codes_*), so
    # rows are compared on their non-blank characters
    return "".join(s.split())


def words(s):
    """the words of a row: blank cells separate words (how many, and blanks at either end, is not compared). A blank
    before . ! ? , is not compared either: pycaption deliberately leaves the cell of a mid-row code out there
    (tests/test_scc.py::test_mid_row_codes_*)"""
    import re
    # (also before an extended character whose stand-in is one of them: the inverted exclamation mark)
    return re.sub(r" +([.!?,¡])", r"\1", " ".join(s.split()))


def expected_from_reference(shown):
    """reference screen -> list of captions: consecutive rows = lines of one caption"""
    caps = []
    for sh in shown:
        rows = sorted(sh["rows"])
        groups = []
        for r in rows:
            if groups and groups[-1][-1] == r - 1:
                groups[-1].append(r)
            else:
                groups.append([r])
        for grp in groups:
            lines, ital, wlines = [], [], []
            for r in grp:
                cells = sh["rows"][r]
                lines.append(norm(C.row_text(cells)))
                wlines.append(words(C.row_text(cells)))
                ital.append([(ch, it) for _, (ch, it) in sorted(cells.items()) if not ch.isspace()])
            first = sh["rows"][grp[0]]
            caps.append({"lines": lines, "pos": (grp[0], min(first)), "italic": ital, "on": sh["on"], "off": sh["off"], "words": wlines})
    return caps


def italic_flags(nodes):
    """[(char, italic)] per line from caption nodes"""
    lines, cur_, on = [[]], None, False
    for n in nodes:
        if n.type_ == CaptionNode.BREAK:
            lines.append([])
        elif n.type_ == CaptionNode.STYLE:
            if n.content.get("italics"):
                on = bool(n.start)
        else:
            lines[-1] += [(ch, on) for ch in n.content if not ch.isspace()]
    return lines


def balanced(nodes):
    depth = 0
    for n in nodes:
        if n.type_ == CaptionNode.STYLE:
            depth += 1 if n.start else -1
            if depth not in (0, 1):
                return False
    return depth == 0


def bounded(ctx, b):
    rng = random.Random(ctx.seed)
    n = 400 if not ctx.thorough else 8000
    # every PAC address and every table code on its own
    singles = [[(r, col, 0, False, [("text", "AB")])] for r in range(1, 16) for col in range(0, 32, 4)]
    singles += [[(15, 0, to, False, [("text", "AB")])] for to in (1, 2, 3)]
    singles += [[(15, 0, 0, False, [("special", ch)])] for ch in C.SPECIAL.values() if ch != " "]
    singles += [[(15, 0, 0, False, [("text", "ab"), ("extended", ("a", code))])] for code in K.EXTENDED_CHARS]
    singles += [[(15, 0, 0, False, [("text", "AB"), ("extended_after_special", (sp, code)), ("text", "CD")])]
                for sp in ("â", "è", "®") for code in list(K.EXTENDED_CHARS)[:6]]
    # rows that fill the 32 columns of the screen exactly (alone, and as the first / last of two rows)
    full = "A ROW OF EXACTLY THIRTY-TWO CHAR"
    assert len(full) == 32
    singles += [[(15, 0, 0, False, [("text", full)])], [(14, 0, 0, False, [("text", full)]), (15, 0, 0, False, [("text", "ok")])],
                [(1, 0, 0, False, [("text", "ok")]), (2, 0, 0, False, [("text", full)])], [(15, 0, 1, False, [("text", full[:31])])],
                [(15, 28, 0, False, [("text", "abcd")])], [(15, 28, 3, False, [("text", "a")])]]
    # an italic preamble followed by a tab offset, on the first and on a continuation row
    singles += [[(r1, 0, to1, i1, [("text", "one")]), (r1 + 1, c2, to2, i2, [("text", "two")])]
                for r1 in (1, 14) for to1 in (0, 2) for i1 in (False, True) for c2 in (0, 4) for to2 in (0, 1, 3) for i2 in (False, True)]
    # a row whose text up to a mid-row code repeats an earlier row of the caption; a mid-row code before punctuation
    singles += [[(14, 0, 0, False, [("text", "AB")]), (15, 0, 0, False, [("text", "AB"), (kind, None), ("text", "CD")])] for kind in ("ital_on", "ital_off")]
    singles += [[(13, 0, 0, False, [("text", "AB")]), (14, 0, 0, False, [("text", "CD")]), (15, 0, 0, False, [("text", "AB"), ("ital_on", None), ("text", "AB")])]]
    singles += [[(15, 0, 0, False, [("text", "AB"), (kind, None), ("text", p_)])] for kind in ("ital_on", "ital_off") for p_ in (".", "!", "?", ",", ". so", "CD")]
    programs = [(rows, dbl, True) for rows in singles for dbl in (False, True)]
    for _ in range(n):
        # (a quarter of the streams end right after the End Of Caption: the screen is never erased)
        programs.append((gen_rows(rng, rng.choice([1, 1, 2, 3])), rng.choice([False, True]), rng.random() < 0.75))
    for rows, dbl, erased in programs:
        def one(rows=rows, dbl=dbl, erased=erased):
            ctl = lambda w: [w, w] if dbl else [w]
            ws = ctl(C.ctrl("ENM")) + ctl(C.ctrl("RCL")) + encode_rows(rows, dbl) + ctl(C.ctrl("EDM")) + ctl(C.ctrl("EOC"))
            doc = C.scc_document([(C.timecode(30), ws)] + ([(C.timecode(30 + len(ws) + 60), ctl(C.ctrl("EDM")))] if erased else []))
            exp = expected_from_reference(C.decode_words(ws + ctl(C.ctrl("EDM"))))
            caps = _SHARED_READER.read(doc).get_captions("en-US")
            got = []
            for cp in caps:
                lines = [norm(x) for x in cp.get_text().split("\n")]
                pos = None
                for nd in cp.nodes:
                    if nd.type_ == CaptionNode.TEXT and nd.position:
                        pos = tuple(nd.position)
                        break
                got.append({"lines": lines, "pos": pos, "words": [words(x) for x in cp.get_text().split("\n")], "italic": italic_flags(cp.nodes), "balanced": balanced(cp.nodes),
                            "times": (cp.start, cp.end), "layout": (cp.layout_info.origin.x.value, cp.layout_info.origin.y.value) if cp.layout_info else None})
            detail = {"words": " ".join(ws), "got": [(g_["lines"], g_["pos"]) for g_ in got], "expected": [(e["lines"], e["pos"]) for e in exp]}
            if [g_["lines"] for g_ in got] != [e["lines"] for e in exp]:
                return False, dict(detail, what="text / rows")
            if [g_["pos"] for g_ in got] != [e["pos"] for e in exp]:
                return False, dict(detail, what="position")
            if [g_["words"] for g_ in got] != [e["words"] for e in exp]:
                return False, dict(detail, what="word separation (a mid-row code occupies a cell)", got_words=[g_["words"] for g_ in got], expected_words=[e["words"] for e in exp])
            for g_, e in zip(got, exp):
                ex, ey = 10 + 80 * e["pos"][1] / 32, 5 + 90 * (e["pos"][0] - 1) / 15
                if g_["layout"] is None or abs(g_["layout"][0] - ex) > 1e-9 or abs(g_["layout"][1] - ey) > 1e-9:
                    return False, dict(detail, what="layout", layout=g_["layout"], expected_layout=(ex, ey))
                if not g_["balanced"]:
                    return False, dict(detail, what="unbalanced italics")
                if g_["italic"] != e["italic"]:
                    return False, dict(detail, what="italic coverage", got_italic=g_["italic"], expected_italic=e["italic"])
            if len({g_["times"] for g_ in got}) > 1:
                return False, dict(detail, what="parts of one screen have different times")
            # a doubled code counts once: the same program sent with single and with doubled codes reads character for
            # character the same (blanks included) - also when a timecode line ends between the two copies of a code
            texts = [cp.get_text() for cp in caps]
            single = encode_rows(rows, False)
            if any(a == b_ and int(a[:2], 16) & 0x7F < 0x20 for a, b_ in zip(single, single[1:])):
                return True, None        # (the same code twice in a row by authorship: its single-coded form IS a doubled code)
            ctl2 = lambda w: [w] if dbl else [w, w]
            ws2 = ctl2(C.ctrl("ENM")) + ctl2(C.ctrl("RCL")) + encode_rows(rows, not dbl) + ctl2(C.ctrl("EDM")) + ctl2(C.ctrl("EOC"))
            doc2 = C.scc_document([(C.timecode(30), ws2)] + ([(C.timecode(30 + len(ws2) + 60), ctl2(C.ctrl("EDM")))] if erased else []))
            texts2 = [cp.get_text() for cp in _SHARED_READER.read(doc2).get_captions("en-US")]
            if texts2 != texts:
                return False, dict(detail, what="single-coded and doubled-coded forms of one program read differently", this_form=texts, other_form=texts2, other_words=" ".join(ws2))
            wsd = ws if dbl else ws2
            for cut in [k for k in range(2, len(wsd) - 1) if wsd[k] == wsd[k - 1] and int(wsd[k][:2], 16) & 0x7F < 0x20][:: max(1, len(wsd) // 12)]:
                doc3 = C.scc_document([(C.timecode(30), wsd[:cut]), (C.timecode(30 + cut), wsd[cut:])] +
                                      ([(C.timecode(30 + len(wsd) + 60), [C.ctrl("EDM")] * 2)] if erased else []))
                # (whether punctuation follows a mid-row code is looked up within the timecode line: the blank before
                # . ! ? , is not compared here either)
                texts3 = [cp.get_text() for cp in _SHARED_READER.read(doc3).get_captions("en-US")]
                if [[words(x) for x in t_.split("\n")] for t_ in texts3] != [[words(x) for x in t_.split("\n")] for t_ in texts]:
                    return False, dict(detail, what="a timecode line that ends between the two copies of a doubled code changes the text", one_line=texts, two_lines=texts3, split_after_word=cut)
            return True, None
        b.guard(("prog", tuple(map(str, rows)), dbl, erased), one, sample={"rows": [(r, col, to) for r, col, to, _, _ in rows], "doubled": dbl, "erased_at_the_end": erased})


def bounded_consecutive_captions(ctx, b):
    """two pop-on captions in a row: each is positioned at its own first row"""
    for r1, r2 in [(10, 15), (14, 15), (3, 4), (15, 14), (7, 7)]:
        def one(r1=r1, r2=r2):
            doc = C.scc_document([
                (C.timecode(30), [C.ctrl("ENM"), C.ctrl("RCL"), C.pac(r1)] + C.text_words("first") + [C.ctrl("EDM"), C.ctrl("EOC")]),
                (C.timecode(150), [C.ctrl("ENM"), C.ctrl("RCL"), C.pac(r2)] + C.text_words("second") + [C.ctrl("EDM"), C.ctrl("EOC")]),
                (C.timecode(300), [C.ctrl("EDM")])])
            caps = _SHARED_READER.read(doc).get_captions("en-US")
            got = [(cp.get_text(), [n.type_ for n in cp.nodes], round(cp.layout_info.origin.y.value, 6)) for cp in caps]
            exp = [("first", [CaptionNode.TEXT], round(5 + 90 * (r1 - 1) / 15, 6)), ("second", [CaptionNode.TEXT], round(5 + 90 * (r2 - 1) / 15, 6))]
            return got == exp, {"got": got, "expected": exp}
        b.guard(("consecutive", r1, r2), one, sample={"first_caption_row": r1, "second_caption_row": r2,
                                                      "second_caption_one_row_below_previous": r2 == r1 + 1})


def bounded_caption_sequences(ctx, b):
    """what a caption shows does not depend on the caption before it: italic / plain captions in every order of two
    and three (a caption that ends in italics followed by one that starts in italics, by a plain one, ...), each
    opened by an italic preamble, a plain preamble + mid-row code, or a plain preamble"""
    kinds = {"italic_pac": lambda r: [C.pac(r, 0, italics=True)], "midrow": lambda r: [C.pac(r), C.midrow(True)], "plain": lambda r: [C.pac(r)]}
    for n in (2, 3):
        for seq in itertools.product(kinds, repeat=n):
            def one(seq=seq):
                lines, t = [], 30
                for i, kd in enumerate(seq):
                    row = 3 + 4 * i                # (rows far apart: never one row below the previous caption)
                    lines.append((C.timecode(t), [C.ctrl("ENM"), C.ctrl("RCL")] + kinds[kd](row) + C.text_words(f"cap{i}") + [C.ctrl("EDM"), C.ctrl("EOC")]))
                    t += 120
                lines.append((C.timecode(t), [C.ctrl("EDM")]))
                caps = _SHARED_READER.read(C.scc_document(lines)).get_captions("en-US")
                got = [(norm(cp.get_text()), all(it for ln in italic_flags(cp.nodes) for _, it in ln), balanced(cp.nodes)) for cp in caps]
                exp = [(f"cap{i}", kd != "plain", True) for i, kd in enumerate(seq)]
                return got == exp, {"captions (text, all italic, balanced)": got, "expected": exp}
            b.guard(("sequence", seq), one, sample={"captions": seq})
    # blanks sent as text at the start of a row are characters of the row (no mid-row code involved): kept exactly
    for rows in ([(14, " ab"), (15, "cd")], [(13, "  x y"), (14, " z"), (15, "w")], [(14, "ab"), (15, " cd")], [(1, " a"), (2, " b")],
                 [(7, "   indented"), (8, "flush")]):
        def lead(rows=rows):
            ws = [C.ctrl("ENM"), C.ctrl("RCL")]
            for r, text in rows:
                ws += [C.pac(r)] + C.text_words(text)
            doc = C.scc_document([(C.timecode(30), ws + [C.ctrl("EDM"), C.ctrl("EOC")]), (C.timecode(200), [C.ctrl("EDM")])])
            caps = _SHARED_READER.read(doc).get_captions("en-US")
            # (Caption.get_text() strips the whole text: read the nodes)
            got = [[x.rstrip() for x in "".join("\n" if nd.type_ == CaptionNode.BREAK else nd.content for nd in cp.nodes
                                                if nd.type_ in (CaptionNode.BREAK, CaptionNode.TEXT)).split("\n")] for cp in caps]
            return got == [[t for _, t in rows]], {"lines": got, "expected": [[t for _, t in rows]]}
        b.guard(("leading_blanks", tuple(rows)), lead, sample={"rows": rows})


def run(ctx):
    P = ctx.prove
    ctx.ground("tables", tables)
    ctx.bounded("caption_sequences", "every order of two and three pop-on captions that are italic by preamble, italic by mid-row "
                "code or plain: each caption's text is italic exactly as sent and balanced, whatever came before; rows that begin "
                "with blanks sent as text keep them", lambda b: bounded_caption_sequences(ctx, b))
    ctx.bounded("consecutive_captions", "two pop-on captions in a row at rows (10,15) (14,15) (3,4) (15,14) (7,7): text, "
                "no stray break node, vertical position of each caption's own row", lambda b: bounded_consecutive_captions(ctx, b))
    ctx.ground("doubling", doubling)
    ctx.ground("backspace", backspace)
    ctx.ground("character_words", character_words)
    P("scc._get_layout_from_tuple", layout_from_tuple, functions=[_get_layout_from_tuple])
    P("scc._PositioningTracker.update_positioning", tracker_transition, functions=[_PositioningTracker.update_positioning])
    from pycaption.scc.state_machines import DefaultProvidingPositionTracker as _DT
    P("scc._PositioningTracker[accessors]", tracker_accessors,
      functions=[_PositioningTracker.is_repositioning_required, _PositioningTracker.is_linebreak_required, _PositioningTracker.acknowledge_position_changed,
                 _PositioningTracker.acknowledge_linebreak_consumed, _PositioningTracker.get_current_position, _DT.get_current_position])
    P("scc.DefaultProvidingPositionTracker.update_positioning", default_tracker_update, functions=[_DT.update_positioning], crosscheck=False)
    import props.C11_italics as IT
    IT.prove_passes(ctx)
    import props.C05_captions as CP
    CP.prove_captions(ctx)
    import props.C06_line as LI
    LI.prove_line(ctx)            # (a doubled code counts once also when a timecode line ends between its two copies)
    ctx.bounded("programs", "pop-on programs against a reference CEA-608 decoder: every PAC address (15x8), tab offset and "
                "table code on its own, single and doubled (PAC TO doubled as a unit), and seeded programs of 1-3 rows in "
                "ascending screen order with basic / special / extended characters, italic PACs, mid-row codes and "
                "backspaces: same rows and words, position and layout of the first row, balanced "
                "italics covering the same characters, equal times for the parts of one screen",
                lambda b: bounded(ctx, b))
    ctx.trust("P-ground: complete evaluation over pycaption's code tables against the CEA-608 tables in refs/cea608.py "
              "(my reading of CTA-608-E); the doubled-code lemmas are evaluated on the real function for every table "
              "word x representative decoder states")
    ctx.assume("whole-stream equivalence with a CEA-608 decoder is bounded only; rows are compared word by word (blank cells "
               "separate words; how many there are, and the blank before . ! ? , that pycaption deliberately leaves out "
               "after a mid-row code, are not compared)")


# one reader object for every stream of the run: what a read returns must depend on the stream only,
# also right after a read that raised (reader reuse)
_SHARED_READER = SCCReader()
