"""Deterministic sample documents and caption sets shared by the bounded parts of several properties
(no randomness without an explicit seed; nothing here depends on hash order)."""
import random

from pycaption import Caption, CaptionList, CaptionNode, CaptionSet
from pycaption.geometry import (Alignment, HorizontalAlignmentEnum as HA, Layout, Padding, Point, Size, Stretch,
                                UnitEnum, VerticalAlignmentEnum as VA)
from refs import cea608 as C

T = CaptionNode.create_text
BR = CaptionNode.create_break
ST = CaptionNode.create_style
PCT = UnitEnum.PERCENT

SRT_DOCS = [
    "1\n00:00:01,000 --> 00:00:02,500\nHello there\n\n2\n00:00:03,000 --> 00:00:04,000\nGeneral Kenobi\nsecond line\n",
    "1\n00:00:09,209 --> 00:00:12,312\n( clock ticking )\n\n2\n01:00:14,848 --> 01:00:17,000\nMAN:\nWhen we think\n\n3\n25:00:00,000 --> 25:00:01,000\nlate\n",
]
VTT_DOCS = [
    "WEBVTT\n\n00:01.000 --> 00:02.500 align:left position:10%\nHello <i>there</i>\n\n00:00:03.000 --> 00:00:04.000\n<v Bob>Hi &amp; bye\nsecond\n",
    "WEBVTT\n\nNOTE a comment\n\nid1\n00:09.209 --> 00:12.312\n( clock ticking )\n\n01:00:14.848 --> 01:00:17.000 line:5%\nMAN:\nWhen &lt;we&gt; think\n",
]
MDVD_DOCS = [
    "{25}{62}Hello there\n{75}{100}General Kenobi|second line\n",
    "{0}{0}23.976\n{2997}{5994}first\n{6000}{6100}second|two\n",
]
DFXP_DOCS = [
    '''<?xml version="1.0" encoding="utf-8"?>
<tt xml:lang="en" xmlns="http://www.w3.org/ns/ttml" xmlns:tts="http://www.w3.org/ns/ttml#styling">
 <head>
  <styling>
   <style xml:id="p" tts:color="#ffeedd" tts:fontFamily="Arial" tts:fontSize="10pt" tts:textAlign="center"/>
   <style xml:id="it" tts:fontStyle="italic"/>
  </styling>
  <layout>
   <region xml:id="top" tts:origin="10% 10%" tts:extent="80% 20%" tts:displayAlign="before"/>
   <region xml:id="low" tts:origin="10% 70%" tts:padding="1% 2% 3% 4%" tts:textAlign="right"/>
  </layout>
 </head>
 <body>
  <div xml:lang="en-US" region="low">
   <p begin="00:00:09.209" end="00:00:12.312" style="p">( clock ticking )</p>
   <p begin="00:00:14.848" end="00:00:17.000" region="top">MAN:<br/>When <span style="it">we</span> think</p>
   <p begin="00:00:17.000" dur="2s">of &amp; about &lt;E&gt;</p>
  </div>
  <div xml:lang="fr">
   <p begin="1s" end="2.5s">Bonjour <span tts:fontStyle="italic" region="top">le monde</span></p>
  </div>
 </body>
</tt>''',
    '''<tt xmlns="http://www.w3.org/ns/ttml"><body><div><p begin="0:00:01" end="0:00:02">plain</p><p begin="3s" end="4s">two<br/>lines</p></div></body></tt>''',
]
SAMI_DOCS = [
    '''<SAMI><HEAD><TITLE>t</TITLE><STYLE TYPE="text/css"><!--
P { margin-left: 1pt; margin-right: 1pt; text-align: center; font-size: 10pt; font-family: Arial; color: #ffeedd; }
.ENCC {Name: English; lang: en-US; SAMI_Type: CC;}
.FRCC {Name: French; lang: fr-FR; SAMI_Type: CC;}
.DECC {Name: German; lang: de-DE;}
--></STYLE></HEAD><BODY>
<SYNC start="9209"><P class="ENCC">( clock ticking )</P><P class="FRCC">( tic tac )</P></SYNC>
<SYNC start="12312"><P class="ENCC">&nbsp;</P></SYNC>
<SYNC start="14848"><P class="ENCC">MAN:<br/>When <i>we</i> think</P><P class="DECC">Wenn wir</P></SYNC>
<SYNC start="17000"><P class="ENCC"><span style="text-align:right;">of &amp; about</span></P><P class="FRCC">encore</P></SYNC>
</BODY></SAMI>''',
    '''<SAMI><HEAD><STYLE TYPE="text/css"><!-- .ENCC {Name: English; lang: en-US;} --></STYLE></HEAD><BODY>
<SYNC start="1000"><P class="ENCC">one</P></SYNC><SYNC start="2000"><P class="ENCC">two<br>lines</P></SYNC></BODY></SAMI>''',
]


def scc_docs():
    a = C.scc_document([
        (C.timecode(30, False), [C.ctrl("ENM"), C.ctrl("RCL"), C.pac(14, 4)] + C.text_words("Hello") + [C.pac(15)] +
         C.text_words("there") + [C.ctrl("EDM"), C.ctrl("EOC")]),
        (C.timecode(150, False), [C.ctrl("ENM"), C.ctrl("RCL"), C.pac(1, 0, italics=True)] + C.text_words("TOP") +
         [C.pac(15, 8)] + C.text_words("low") + [C.ctrl("EDM"), C.ctrl("EOC")]),
        (C.timecode(300, False), [C.ctrl("EDM")]),
    ])
    b = C.scc_document([
        (C.timecode(60), [C.ctrl("RU2"), C.ctrl("CR"), C.pac(15)] + C.text_words("rolling one")),
        (C.timecode(150), [C.ctrl("RU2"), C.ctrl("CR"), C.pac(15)] + C.text_words("rolling two")),
        (C.timecode(240), [C.ctrl("CR")]),
    ])
    c = C.scc_document([
        (C.timecode(30), [C.ctrl("ENM"), C.ctrl("RCL"), C.pac(15, 4)] + C.text_words("Second file, first line.") +
         [C.ctrl("EDM"), C.ctrl("EOC")]),
        (C.timecode(200), [C.ctrl("EDM")]),
    ])
    # italics that stay on across two repositionings, and an italic row followed by a preamble for a row on which
    # nothing is written (what a reader hands to the writers may carry layouts that only a closing style node uses)
    d = C.scc_document([
        (C.timecode(30), [C.ctrl("ENM"), C.ctrl("RCL"), C.pac(1, 0, italics=True)] + C.text_words("GHGH") + [C.pac(5, 0, italics=True)] +
         C.text_words("HGBA") + [C.pac(9, 0, italics=True)] + C.text_words("last") + [C.ctrl("EDM"), C.ctrl("EOC")]),
        (C.timecode(200), [C.ctrl("ENM"), C.ctrl("RCL"), C.pac(1), C.midrow(True)] + C.text_words("AB") + [C.pac(3)] +
         [C.ctrl("EDM"), C.ctrl("EOC")]),
        (C.timecode(400), [C.ctrl("EDM")]),
    ])
    return [a, b, c, d]


DOCS = {"srt": SRT_DOCS, "webvtt": VTT_DOCS, "microdvd": MDVD_DOCS, "dfxp": DFXP_DOCS, "sami": SAMI_DOCS}


def all_docs():
    d = dict(DOCS)
    d["scc"] = scc_docs()
    return d


def sz(v, u=PCT):
    return Size(v, u)


def api_sets():
    """API-built caption sets: styles, classes, layouts at three levels, unbalanced style nodes,
    fractional times, identical spans, several languages"""
    la = Layout(origin=Point(sz(10), sz(10)), extent=Stretch(sz(40), sz(20)), alignment=Alignment(HA.LEFT, VA.TOP))
    lb = Layout(origin=Point(sz(20), sz(70)), padding=Padding(sz(1), sz(2), sz(3), sz(4)))
    lpx = Layout(origin=Point(sz(64, UnitEnum.PIXEL), sz(36, UnitEnum.PIXEL)))
    sets = {}
    sets["plain"] = CaptionSet({"en-US": CaptionList([
        Caption(1000000, 2500000, [T("Hello there")]),
        Caption(3000000, 4000000, [T("General Kenobi"), BR(), T("second line")])])})
    sets["styled"] = CaptionSet({"en-US": CaptionList([
        Caption(1000000, 2000000, [T("a "), ST(True, {"italics": True}), T("b"), ST(False, {"italics": True}), T(" c")],
                style={"class": "k1", "font-family": "Arial"}),
        Caption(2000000, 3000000, [ST(True, {"bold": True, "underline": True}), T("bu"), ST(False, {"bold": True, "underline": True})],
                style={"classes": ["k1", "k2"]})], layout_info=lb),
        "fr": CaptionList([Caption(500000, 1500000, [T("bonjour")], layout_info=la)])},
        styles={"k1": {"italics": True, "color": "red"}, "k2": {"italics": False, "bold": True}, "p": {"font-size": "10pt"}},
        layout_info=Layout(alignment=Alignment(HA.CENTER, VA.BOTTOM)))
    sets["layouts"] = CaptionSet({"en": CaptionList([
        Caption(0, 1000000, [ST(True, {}, la), T("x", la), ST(False, {}, la), BR(lb), T("y", lb)], layout_info=lb),
        Caption(1000000, 2000000, [T("z")], layout_info=la)], layout_info=la)})
    sets["unbalanced"] = CaptionSet({"en": CaptionList([
        Caption(0, 1000000, [ST(True, {"italics": True}), T("open")]),
        Caption(1000000, 2000000, [T("close"), ST(False, {"italics": True})])])})
    sets["fractional_identical"] = CaptionSet({"en-US": CaptionList([
        Caption(1000999.9999999999, 3003000.0, [T("one")]), Caption(1000999.9999999999, 3003000.0, [T("two")]),
        Caption(3003000.0, 4004000.0000000005, [T("three")])])})
    sets["absolute_units"] = CaptionSet({"en": CaptionList([Caption(0, 1000000, [T("px", lpx)], layout_info=lpx)], layout_info=lpx)})
    sets["three_languages"] = CaptionSet({l: CaptionList([Caption(i * 10 ** 6, (i + 1) * 10 ** 6, [T(f"{l} {i}")]) for i in range(k)])
                                          for l, k in (("en-US", 3), ("de-DE", 1), ("fr-FR", 2))})
    return sets


def dump_layout(l):
    return None if l is None else repr(l) + "|" + repr(l.webvtt_positioning)


def dump(cs):
    """canonical structural dump of a caption set (order-preserving, no hashes / ids)"""
    return {
        "languages": cs.get_languages(),
        "styles": sorted((k, sorted((a, repr(b)) for a, b in v.items())) for k, v in cs.get_styles()),
        "layout": dump_layout(cs.layout_info),
        "captions": {l: {"layout": dump_layout(getattr(cs.get_captions(l), "layout_info", None)),
                         "list": [(c.start, c.end, sorted((a, repr(b)) for a, b in c.style.items()), dump_layout(c.layout_info),
                                   [(n.type_, repr(n.content) if not isinstance(n.content, dict) else
                                     sorted((a, repr(b)) for a, b in n.content.items()), n.start, dump_layout(n.layout_info))
                                    for n in c.nodes]) for c in cs.get_captions(l)]}
                     for l in cs.get_languages()},
    }


# ---------------------------------------------------------------------------------------------
# a grammar of "difficult" caption text, shared by the text-fidelity checks (C03, C04, C08, C20)

WORDS = ["Hello", "world", "R&D", "AT&T", "x<y", "a>b", "1", "12", "2024", "it's", '"q"', "ok.", "émigré", "—", "100%", "a;b", "#1",
         "🎉", "𝄞", "野家", "Ünï", "ß", "…", "naïve", "Q&A", "e=mc²", "C:\\dir", "50/", "car", "climb", "über",
         # text that is not in Unicode normalisation form C (decomposed accents, singleton decompositions)
         "cafe\u0301", "man\u0303ana", "10\u212b", "5\u2126", "\uf900", "\ufb01n"]
METAS = ["&", "<", ">", "&amp;", "&lt;", "&gt;", "&quot;", "&apos;", "&nbsp;", "&#39;", "&#x27;", "&#60;", "&copy;", "&amp;lt;", "&amp;amp;",
         "&gt", "&;", "-->", "->", "--", "]]>", "<![CDATA[", "<!--", "{1}{2}", "{", "}", "\\N", "%s", "{0}", "WEBVTT", "<sami>"]
TAGS = ["<i>", "</i>", "<b>", "<u>", "<c.yellow>", "<v Bob>", "<v.a.b Bob>", "<00:01.000>", "<br>", "<br/>", "<p>", "</span>", "<span>",
        "<b-roll>", "<cat>", "<lang en>", "<ruby>", "<rt>", "<i/o>", "<3"]


def rich_line(rng, pipe_ok=True):
    """one line of caption text: 1-5 tokens drawn from words, metacharacter sequences and tag-looking strings,
    joined by single (sometimes double) spaces; no newline, no leading / trailing blank"""
    k = rng.choice([1, 1, 2, 3, 5])
    toks = []
    for _ in range(k):
        pool = rng.choice([WORDS, WORDS, METAS, TAGS])
        t = rng.choice(pool)
        if not pipe_ok and "|" in t:
            t = "bar"
        toks.append(t)
    out = toks[0]
    for t in toks[1:]:
        out += rng.choice([" ", " ", " ", "  "]) + t
    return out


def rich_lines(rng, n, pipe_ok=True):
    return [rich_line(rng, pipe_ok) for _ in range(n)]
