"""C12 - positioning survives DFXP round trips and maps faithfully to WebVTT settings."""
import itertools
import random
from fractions import Fraction

from pycaption import (CaptionSet, CaptionList, Caption, CaptionNode, DFXPWriter, DFXPReader, WebVTTWriter,
                       WebVTTReader)
from pycaption.dfxp import base as dfxp_base
from pycaption.geometry import (Size, Point, Stretch, Padding, Alignment, Layout, UnitEnum,
                                HorizontalAlignmentEnum as HA, VerticalAlignmentEnum as VA)
from pycaption.webvtt import WebVTTWriter as W
from pyvc.sym import Opaque, SStr, Lit
from props.C13 import WEBVTT_PARTS, _size_str, ref2
from props.C18 import mk_pct_size, mk_pct_point, mk_pct_stretch

U = Fraction(1, 2 ** 53)
PCT = UnitEnum.PERCENT
EXT_H = {HA.LEFT: "left", HA.CENTER: "center", HA.RIGHT: "right", HA.START: "start", HA.END: "end"}
EXT_V = {VA.TOP: "before", VA.CENTER: "center", VA.BOTTOM: "after"}


def mk_pct_padding(c, n):
    return c.new(Padding, before=mk_pct_size(c, n + ".b"), after=mk_pct_size(c, n + ".a"),
                 start=mk_pct_size(c, n + ".s"), end=mk_pct_size(c, n + ".e"))


def settings_tokens(r):
    """[(keyword, payload-or-text)] of a cue-settings string with opaque size tokens"""
    if isinstance(r, str):
        return [tuple(t.split(":", 1)) for t in r.split()]
    out, key = [], None
    for a in r.atoms:
        if isinstance(a, Lit):
            for tok in a.s.split():
                if tok.endswith(":"):
                    key = tok[:-1]
                else:
                    out.append(tuple(tok.split(":", 1)))
        else:
            out.append((key, a.payload))
            key = None
    return out


def webvtt_settings(c):
    """align (omitted when centred), position = x + left padding, line = y + top padding,
    size = width - horizontal paddings; percentages; for layouts that have an origin"""
    rel = c.pick("relativize", [True, False])
    fit = c.pick("fit", [False, True])
    # (relativize=False leaves a percentage layout as it is: the arithmetic must be the same; case-reduced)
    has_ext, has_pad = c.pick("extent?", [True, False]), c.pick("padding?", [True, False] if rel else [False])
    al = c.pick("alignment", ([None] + [(h, VA.TOP) for h in HA] + [(None, VA.BOTTOM)]) if rel else [None, (HA.RIGHT, VA.TOP)])
    origin = mk_pct_point(c, "o")
    ext = mk_pct_stretch(c, "e") if has_ext else None
    pad = mk_pct_padding(c, "p") if has_pad else None
    align = None if al is None else c.new(Alignment, horizontal=al[0], vertical=al[1])
    L = c.new(Layout, origin=origin, extent=ext, padding=pad, alignment=align, webvtt_positioning=None)
    w = c.new(W, relativize=rel, video_width=None, video_height=None, fit_to_screen=fit, global_layout=None)
    r = c.call(W._convert_positioning, w, L, compare=False)
    if c.symbolic:
        toks = settings_tokens(r)
    else:
        toks = [(k, Size.from_string(v) if k != "align" else v) for k, v in (t.split(":", 1) for t in r.split())]
    keys = [k for k, _ in toks]
    d = dict(toks)
    want_align = "start" if (al is None or al[0] is None) else EXT_H[al[0]]
    c.ensure("align_omitted_iff_centred", ("align" in d) == (want_align != "center"))
    if "align" in d:
        c.ensure("align_value", d["align"] == want_align)
    c.ensure("order_align_position_line_size", keys == [k for k in ("align", "position", "line", "size") if k in d])
    x, y = c.exact(origin.x.value), c.exact(origin.y.value)
    tol = lambda got, exp: c.conj(c.exact(got.value) - exp <= 4 * U * 400, exp - c.exact(got.value) <= 4 * U * 400,
                                  got.unit == PCT)
    ps = c.exact(pad.start.value) if has_pad else 0
    pe = c.exact(pad.end.value) if has_pad else 0
    pb = c.exact(pad.before.value) if has_pad else 0
    # a zero coordinate / width is falsy in the code only through Size.__bool__, which is always true
    c.ensure("position_is_left_edge_plus_left_padding", "position" in d and c.truth(tol(d["position"], x + ps)))
    c.ensure("line_is_top_edge_plus_top_padding", "line" in d and c.truth(tol(d["line"], y + pb)))
    if fit:
        fitted = c.call(Layout.fit_to_screen, L, compare=False).extent      # proved in C13
        c.ensure("a_fitted_layout_has_an_extent", fitted is not None)
        if fitted is not None:
            width = c.exact(fitted.horizontal.value)
            c.ensure("size_is_width_minus_horizontal_paddings", "size" in d and c.truth(tol(d["size"], width - ps - pe)))
    elif has_ext:
        width = c.exact(ext.horizontal.value)
        c.ensure("size_is_width_minus_horizontal_paddings", "size" in d and c.truth(tol(d["size"], width - ps - pe)))
    else:
        c.ensure("no_size_without_extent", "size" not in d)


def webvtt_verbatim(c):
    """cue settings read from a WebVTT file are written back verbatim"""
    s = c.pick("settings", ["align:left position:10%", "line:3", "size:50% align:end", "vertical:rl line:0"])
    L = c.new(Layout, origin=mk_pct_point(c, "o") if c.pick("o?", [True, False]) else None, extent=None, padding=None,
              alignment=None, webvtt_positioning=s)
    w = c.new(W, relativize=c.pick("rel", [True, False]), video_width=None, video_height=None,
              fit_to_screen=c.pick("fit", [True, False]), global_layout=None)
    r = c.call(W._convert_positioning, w, L)
    c.ensure("written_back_verbatim", r == " " + s)


def alignment_roundtrip(c):
    """internal alignment -> tts:textAlign / tts:displayAlign -> internal alignment is the identity;
    absent parts are not written (the reader then applies the DFXP defaults start / after)"""
    h = c.pick("h", [None] + list(HA))
    v = c.pick("v", [None] + list(VA))
    a = c.new(Alignment, horizontal=h, vertical=v)
    ext = c.call(dfxp_base._create_external_alignment, a)
    c.ensure("textAlign", ext.get("tts:textAlign") == (EXT_H[h] if h is not None else None))
    c.ensure("displayAlign", ext.get("tts:displayAlign") == (EXT_V[v] if v is not None else None))
    c.ensure("absent_parts_are_not_written", set(ext) == {k for k, on in (("tts:textAlign", h), ("tts:displayAlign", v)) if on is not None})
    back = c.call(dfxp_base._create_internal_alignment, ext.get("tts:textAlign"), ext.get("tts:displayAlign"))
    if h is None and v is None:
        c.ensure("nothing_in_nothing_out", back is None)
    else:
        c.ensure("roundtrip_identity", back is not None and back.horizontal == h and back.vertical == v)


def layout_attributes(c):
    """layout -> region attributes: origin / extent / padding present iff set, TTML padding order,
    alignment defaults start / after when absent"""
    shape = c.pick("shape", list(itertools.product([0, 1], repeat=4)) + [None])
    if shape is None:
        L = None
    else:
        L = c.new(Layout, origin=mk_pct_point(c, "o") if shape[0] else None,
                  extent=mk_pct_stretch(c, "e") if shape[1] else None,
                  padding=mk_pct_padding(c, "p") if shape[2] else None,
                  alignment=c.new(Alignment, horizontal=HA.RIGHT, vertical=VA.TOP) if shape[3] else None,
                  webvtt_positioning=None)
    r = c.call(dfxp_base._convert_layout_to_attributes, L, compare=False)
    falsy = L is None or not any(shape)
    if falsy:
        c.ensure("default_alignment_only", dict(r) == {"tts:textAlign": "start", "tts:displayAlign": "after"})
        return
    for key, on in (("tts:origin", shape[0]), ("tts:extent", shape[1]), ("tts:padding", shape[2])):
        c.ensure(key + "_present_iff_set", (key in r) == bool(on))
    c.ensure("alignment", (r.get("tts:textAlign"), r.get("tts:displayAlign")) ==
             (("right", "before") if shape[3] else ("start", "after")))
    if c.symbolic:
        def payloads(s):
            return [a.payload for a in SStr.lift(s).atoms if isinstance(a, Opaque)]
        if shape[0]:
            c.ensure("origin_is_x_then_y", payloads(r.get("tts:origin", "")) == [L.origin.x, L.origin.y])
        if shape[1]:
            c.ensure("extent_is_width_then_height", payloads(r.get("tts:extent", "")) == [L.extent.horizontal, L.extent.vertical])
        if shape[2]:
            p = L.padding
            c.ensure("padding_in_ttml_order_before_end_after_start", payloads(r.get("tts:padding", "")) == [p.before, p.end, p.after, p.start])
    else:
        if shape[2]:
            p = L.padding
            c.ensure("padding_in_ttml_order_before_end_after_start",
                     r.get("tts:padding") == " ".join(str(s) for s in (p.before, p.end, p.after, p.start)))


# ------------------------------------------------------------------------------------ bounded part

T = lambda s, l=None: CaptionNode.create_text(s, layout_info=l)
VALS = [0, 5, 10, 12.5, 20, 33.33, 50, 80, 70.1, 10.1, 0.1, 0.2, 29.9, 60, 75, 85]


def rand_layout(rng, need_origin=False):
    sz = lambda: Size(rng.choice(VALS), PCT)
    if not need_origin and rng.random() < 0.1:
        # a layout that is a padding and nothing else (or an extent and nothing else) is a layout
        return Layout(padding=Padding(sz(), sz(), sz(), sz())) if rng.random() < 0.7 else Layout(extent=Stretch(sz(), sz()))
    o = Point(sz(), sz()) if (need_origin or rng.random() < 0.6) else None
    e = Stretch(sz(), sz()) if rng.random() < 0.5 else None
    arity = rng.choice([0, 0, 1, 2, 3, 4])
    p = None
    if arity:
        s = [sz() for _ in range(4)]
        p = {1: Padding(s[0], s[0], s[0], s[0]), 2: Padding(s[0], s[0], s[1], s[1]),
             3: Padding(s[0], s[2], s[1], s[1]), 4: Padding(s[0], s[2], s[3], s[1])}[arity]
    al = rng.choice([None] + [Alignment(h, v) for h in list(HA) + [None] for v in list(VA) + [None] if h or v])
    L = Layout(origin=o, extent=e, padding=p, alignment=al)
    return L if L else None


def noisy(L):
    """the same layout up to float noise far below the two decimals that are written (30.3 vs 10.1 + 20.2): another
    object, not equal to the first, that must come back with the same printed values"""
    if L is None:
        return None
    ns = lambda z: Size(z.value + 1e-9, z.unit)
    return Layout(origin=Point(ns(L.origin.x), ns(L.origin.y)) if L.origin else None,
                  extent=Stretch(ns(L.extent.horizontal), ns(L.extent.vertical)) if L.extent else None,
                  padding=Padding(ns(L.padding.before), ns(L.padding.after), ns(L.padding.start), ns(L.padding.end))
                  if L.padding else None, alignment=L.alignment)


def with_defaults(L):
    """what a DFXP reader must see: absent alignment parts take start / after"""
    if L is None:
        return Layout(alignment=Alignment(HA.START, VA.BOTTOM))
    h = L.alignment.horizontal if L.alignment and L.alignment.horizontal else HA.START
    v = L.alignment.vertical if L.alignment and L.alignment.vertical else VA.BOTTOM
    return Layout(origin=L.origin, extent=L.extent, padding=L.padding, alignment=Alignment(h, v))


def r2(L):
    """a layout with every size rounded to the two decimals DFXP prints"""
    if L is None:
        return None
    rs = lambda z: Size(round(z.value, 2), z.unit)
    return Layout(origin=Point(rs(L.origin.x), rs(L.origin.y)) if L.origin else None,
                  extent=Stretch(rs(L.extent.horizontal), rs(L.extent.vertical)) if L.extent else None,
                  padding=Padding(rs(L.padding.before), rs(L.padding.after), rs(L.padding.start), rs(L.padding.end))
                  if L.padding else None, alignment=L.alignment)


def ref_fit(L):
    """fit-to-screen as C13 states it (written from the statement, not from the code): with an origin, a
    missing extent spans to the safe-area edges (90% right, 95% bottom) and an extent that would cross an
    edge is shrunk to end at it - each axis on its own; without an origin nothing changes"""
    if L is None or not L.origin:
        return L
    x, y = L.origin.x.value, L.origin.y.value
    if L.extent:
        w, h = L.extent.horizontal.value, L.extent.vertical.value
        w = 90 - x if x + w > 90 else w
        h = 95 - y if y + h > 95 else h
    else:
        w, h = 90 - x, 95 - y
    return Layout(origin=L.origin, extent=Stretch(Size(w, PCT), Size(h, PCT)), padding=L.padding, alignment=L.alignment)




_LONG_LIVED = {}


def long_lived(cls, **kw):
    """one object per class and option set for the whole run: what a conversion returns depends on its input and the
    options only, also when the object has converted other documents before"""
    key = (cls, tuple(sorted(kw.items())))
    if key not in _LONG_LIVED:
        _LONG_LIVED[key] = cls(**kw)
    return _LONG_LIVED[key]

def bounded_dfxp_roundtrip(ctx, b):
    rng = random.Random(ctx.seed)
    n = 150 if not ctx.thorough else 3000
    for i in range(n):
        # (every third set has a second language with layouts of its own, written after the first)
        langs = ["en", "fr"] if i % 3 == 2 else ["en"]
        per_lang, expect = {}, {}
        fit = rng.choice([False, False, True])
        for lang in langs:
            lang_l = rand_layout(rng) if rng.random() < 0.5 else None
            caps, exp = [], []
            for j in range(rng.choice([1, 2, 3])):
                cap_l = rand_layout(rng) if rng.random() < 0.5 else None
                if caps and caps[-1].layout_info is not None and rng.random() < 0.3:
                    cap_l = noisy(caps[-1].layout_info)
                nodes = []
                for k in range(rng.choice([1, 2])):
                    # a node-level layout is carried by a span: start-style, text, end-style nodes
                    node_l = rand_layout(rng) if rng.random() < 0.4 else None
                    if lang_l is not None and cap_l is not None and rng.random() < 0.25:
                        node_l = lang_l            # a span back in the language's own layout, inside a caption that has another one
                    if nodes:
                        nodes.append(CaptionNode.create_break(layout_info=cap_l))
                    # ... and a node without one may sit in a styled span that has no layout either: the span's text
                    # takes the caption's layout (else the language's)
                    italic = node_l is None and rng.random() < 0.4
                    if node_l:
                        nodes.append(CaptionNode.create_style(True, {}, layout_info=node_l))
                    if italic:
                        nodes.append(CaptionNode.create_style(True, {"italics": True}))
                    nodes.append(T(f"{lang}{j}{k}", node_l))
                    if italic:
                        nodes.append(CaptionNode.create_style(False, {"italics": True}))
                    if node_l:
                        nodes.append(CaptionNode.create_style(False, {}, layout_info=node_l))
                    exp.append((f"{lang}{j}{k}", node_l or cap_l or lang_l, "language" if not (node_l or cap_l) else "own", lang_l))
                caps.append(Caption(j * 10 ** 6, (j + 1) * 10 ** 6, nodes, layout_info=cap_l))
            per_lang[lang] = CaptionList(caps, layout_info=lang_l)
            expect[lang] = exp
        cs = CaptionSet(per_lang)

        def one(cs=cs, expect=expect, fit=fit, langs=langs):
            out = DFXPWriter(relativize=rng.choice([True, False]), fit_to_screen=fit).write(cs)
            # (the writer puts no positioning attributes on <p>: the reader option that honours them changes nothing)
            back = DFXPReader(read_invalid_positioning=rng.choice([False, True])).read(out)
            for lang in langs:
                got = [(nd.content, nd.layout_info) for cp in back.get_captions(lang) for nd in cp.nodes
                       if nd.type_ == CaptionNode.TEXT]
                if [t for t, _ in got] != [t for t, _, _, _ in expect[lang]]:
                    return False, {"language": lang, "texts": [t for t, _ in got], "expected": [t for t, _, _, _ in expect[lang]]}
                for (t, gl), (_, el, level, lang_l) in zip(got, expect[lang]):
                    if fit and el is not None:
                        is_lang_level = level == "language" and lang_l is not None
                        el = el if is_lang_level else ref_fit(el)      # div region: known finding of C13
                    want = r2(with_defaults(el))
                    if gl != want:
                        return False, {"language": lang, "text": t, "read": repr(gl), "expected": repr(want), "output": out[:1500]}
            return True, None
        b.guard(("dfxp", i), one, sample={"languages": langs, "captions": [len(per_lang[l]) for l in langs], "fit": fit})


def bounded_webvtt(ctx, b):
    rng = random.Random(ctx.seed + 7)
    n = 200 if not ctx.thorough else 4000
    z = lambda v: Size(v, PCT)
    crafted = [Layout(origin=Point(z(10), z(10)), extent=Stretch(z(70.1), z(30)), padding=Padding(z(0), z(0), z(0), z(10.1))),
               Layout(origin=Point(z(0.1), z(0.2)), extent=Stretch(z(40), z(30)), padding=Padding(z(0.1), z(0), z(0.2), z(0))),
               Layout(origin=Point(z(19.9), z(9.9)), extent=Stretch(z(30.1), z(30)), padding=Padding(z(0.1), z(0), z(0.1), z(0.1))),
               Layout(origin=Point(z(10), z(10)), extent=Stretch(z(100.1), z(30)), padding=Padding(z(0), z(0), z(0), z(0.1)))]
    for i in range(n + len(crafted)):
        L = crafted[i] if i < len(crafted) else rand_layout(rng, need_origin=True)
        level = rng.choice(["node", "caption", "language"])
        cap = Caption(10 ** 6, 2 * 10 ** 6, [T("x", L if level == "node" else None)], layout_info=L if level == "caption" else None)
        cs = CaptionSet({"en": CaptionList([cap], layout_info=L if level == "language" else None)})

        def one(L=L, cs=cs, i=i):
            # the same layout is written by writers with different options in both orders: the
            # settings must depend on the writer's own options only
            fits = [True, False] if i % 2 else [False, True]
            res = []
            for ft in fits:
                r = check_one(L, cs, ft)
                res.append(r)
            bad = [r for r in res if not r[0]]
            return (not bad), (bad[0][1] if bad else None)

        def check_one(L0, cs, ft, relativize=True, cue=0):
            out = long_lived(WebVTTWriter, fit_to_screen=ft, relativize=relativize).write(cs)
            line = [l for l in out.split("\n") if "-->" in l][cue]
            settings = line.split(" ", 3)[3] if line.count(" ") >= 3 else ""
            L = ref_fit(L0) if ft else L0
            x, y = Fraction(L.origin.x.value), Fraction(L.origin.y.value)
            p = L.padding
            exp = []
            h = L.alignment.horizontal if L.alignment else None
            a = EXT_H.get(h, "start")
            if a != "center":
                exp.append("align:" + a)
            exp.append("position:" + ref2(float(x + (Fraction(p.start.value) if p else 0))) + "%")
            exp.append("line:" + ref2(float(y + (Fraction(p.before.value) if p else 0))) + "%")
            if L.extent:
                wv = Fraction(L.extent.horizontal.value) - (Fraction(p.start.value) + Fraction(p.end.value) if p else 0)
                exp.append("size:" + ref2(float(wv)) + "%")
            return settings == " ".join(exp), {"settings": settings, "expected": " ".join(exp), "layout": repr(L0), "fit": ft}
        b.guard(("webvtt", i, level), one, sample={"layout": repr(L), "level": level})
        if i % 4 == 0:
            # one Layout object shared by several cues (language level, or the same object on every caption),
            # also with relativize=False: every cue carries the same settings
            shared = CaptionSet({"en": CaptionList([Caption((q + 1) * 10 ** 6, (q + 2) * 10 ** 6, [T(f"x{q}")],
                                                            layout_info=L if level != "language" else None) for q in range(3)],
                                                   layout_info=L if level == "language" else None)})

            def several(L=L, shared=shared):
                for rel in (True, False):
                    for q in range(3):
                        r = check_one(L, shared, False, relativize=rel, cue=q)
                        if not r[0]:
                            return False, dict(r[1], cue=q, relativize=rel)
                return True, None
            b.guard(("webvtt-shared", i, level), several, sample={"layout": repr(L), "level": level, "cues": 3})
    # nodes of one caption with different layouts -> separate cues with the same times
    la, lb = Layout(origin=Point(Size(10, PCT), Size(10, PCT))), Layout(origin=Point(Size(20, PCT), Size(70, PCT)))
    lc = Layout(origin=Point(Size(40, PCT), Size(40, PCT)), alignment=Alignment(HA.RIGHT, VA.TOP))
    # (a text node without a layout takes the caption's: next to a node with its own layout it is a different layout)
    seqs = [(sq, wb) for sq in itertools.product([la, lb], repeat=4) for wb in (True, False)] + \
           [(sq, wb) for sq in itertools.product([la, lb, None], repeat=3) for wb in (True, False) if None in sq]
    # layouts that differ only in what a WebVTT cue cannot say (the vertical alignment, the height of the extent) are
    # different layouts all the same: separate cues, with equal settings
    la2 = Layout(origin=Point(Size(10, PCT), Size(10, PCT)), alignment=Alignment(None, VA.BOTTOM))
    le1 = Layout(origin=Point(Size(10, PCT), Size(10, PCT)), extent=Stretch(Size(60, PCT), Size(20, PCT)))
    le2 = Layout(origin=Point(Size(10, PCT), Size(10, PCT)), extent=Stretch(Size(60, PCT), Size(35, PCT)))
    seqs += [(sq, wb) for pair in ([la, la2], [le1, le2]) for sq in itertools.product(pair, repeat=3) for wb in (True, False)]
    for seq, with_breaks in seqs:
        nodes = []
        for k, l in enumerate(seq):
            if nodes and (with_breaks or seq[k - 1] == l):
                # (without breaks: only inside a group, so that the groups' texts do not end in a line break)
                nodes.append(CaptionNode.create_break(layout_info=l))
            nodes.append(T(f"n{k}", l))
        cs = CaptionSet({"en": CaptionList([Caption(10 ** 6, 2 * 10 ** 6, nodes, layout_info=lc)])})

        def one(seq=seq, cs=cs):
            from refs import parsers
            cues = parsers.parse_webvtt(WebVTTWriter(fit_to_screen=False).write(cs))
            # expected groups: maximal runs of text nodes whose layout equals the previous text node's
            groups = []
            for k, l in enumerate(seq):
                if groups and groups[-1][1] == l:
                    groups[-1][0].append(f"n{k}")
                else:
                    groups.append(([f"n{k}"], l))
            ok = len(cues) == len(groups) and all(cu["start"] == 10 ** 6 and cu["end"] == 2 * 10 ** 6 for cu in cues) \
                and [[x for x in cu["lines"] if x] for cu in cues] == [g[0] for g in groups]
            # ... each positioned by its own layout (the caption's for nodes without one)
            want = []
            for _, l in groups:
                single = CaptionSet({"en": CaptionList([Caption(0, 10 ** 6, [T("x")], layout_info=l or lc)])})
                want.append(parsers.parse_webvtt(WebVTTWriter(fit_to_screen=False).write(single))[0]["settings"])
            ok = ok and [cu["settings"] for cu in cues] == want
            return ok, {"cues": [(cu["lines"], cu["settings"]) for cu in cues], "expected": [g[0] for g in groups], "expected_settings": want}
        b.guard(("groups", tuple(repr(x) for x in seq), with_breaks), one, sample={"layouts": [repr(x) for x in seq], "breaks_between_groups": with_breaks})
    # cue settings survive WebVTT -> WebVTT
    for s in ["align:left position:10%", "line:3", "size:50% align:end position:5%,line-left", "vertical:rl",
              # settings may be separated by several blanks or tabs: written back as they were read
              "align:right  position:25%  line:75%", "align:right\tposition:25%", "line:10% \t size:30%", "region:fred  align:left"]:
        doc = f"WEBVTT\n\n00:01.000 --> 00:02.000 {s}\nhello\n"

        def one(s=s, doc=doc):
            out = long_lived(WebVTTWriter).write(long_lived(WebVTTReader).read(doc))
            return f"00:01.000 --> 00:02.000 {s}\n" in out, {"output": out}
        b.guard(("verbatim", s), one, sample=doc)
    # ... cue by cue: a cue without settings stays without (it falls back to the default positioning)
    pool = ["align:left position:15% line:20% size:60%", "", "align:right line:80%", "", "", "position:5%"]
    for order in itertools.permutations(range(len(pool)), 4):
        if order[0] > order[1] and order[2] > order[3]:
            continue
        sets = [pool[k] for k in order]
        doc = "WEBVTT\n\n" + "".join(f"00:0{k + 1}.000 --> 00:0{k + 1}.500{(' ' + st) if st else ''}\ncue {k}\n\n" for k, st in enumerate(sets))

        def mixed(doc=doc, sets=sets):
            from refs import parsers
            caps = long_lived(WebVTTReader).read(doc).get_captions("en-US")
            read = [(c_.layout_info.webvtt_positioning if c_.layout_info else "") or "" for c_ in caps]
            if read != sets:
                return False, {"settings_read": read, "expected": sets}
            out = parsers.parse_webvtt(long_lived(WebVTTWriter).write(long_lived(WebVTTReader).read(doc)))
            got = [cu["settings"] for cu in out]
            return got == sets, {"settings_written": got, "expected": sets}
        b.guard(("verbatim-mixed", tuple(order)), mixed, sample={"settings": sets})


def convert_caption_layouts(c):
    """WebVTTWriter._convert_caption: one cue per layout group, all with the caption's times, each positioned by the
    group's own layout - else the caption's, else the language-level one - whatever the groups before it had
    (P[n]: 0-3 groups; grouping, positioning arithmetic and timestamps by their own contracts)."""
    from pycaption import Caption
    n = c.pick("groups", [0, 1, 2, 3])
    marks = ["layout-A", "layout-B"]
    groups = [(f"text{i}", c.pick(f"group_layout_{i}", [None, "layout-A", "layout-B"])) for i in range(n)]
    cap_layout = c.pick("caption_layout", [None, "caption-layout"])
    glob = c.pick("language_layout", [None, "language-layout"])
    seen = []
    w = c.new(W, global_layout=glob, video_width=None, video_height=None, relativize=True, fit_to_screen=True)
    cap = c.new(Caption, start=1, end=2, nodes=["nodes"], style={}, layout_info=cap_layout)

    def h_pos(interp, fn, args, kw):
        seen.append(args[1])
        return f" settings-of-{args[1]}"
    contracts = {"pycaption.webvtt:WebVTTWriter._group_cues_by_layout": lambda interp, fn, a, kw: list(groups),
                 "pycaption.webvtt:WebVTTWriter._convert_positioning": h_pos,
                 "pycaption.webvtt:WebVTTWriter._timestamp": lambda interp, fn, a, kw: f"T{a[1]}",
                 "pycaption.webvtt:WebVTTWriter._calculate_resulting_style": lambda interp, fn, a, kw: {}}
    c.interp.contracts.update(contracts)
    r = c.call(W._convert_caption, w, "caption set", cap, compare=False)
    want = [g_l or cap_layout or glob for _, g_l in groups]
    c.ensure("one_positioning_per_group_with_its_effective_layout", seen == want)
    blocks = [f"T1 --> T2 settings-of-{l}\n{t}\n" for (t, _), l in zip(groups, want)]
    c.ensure("cue_blocks_with_the_captions_times_separated_by_a_blank_line", r == "\n".join(blocks))


def prove_alignment(ctx):
    """(shared with C07: an attribute that is written has a value)"""
    ctx.prove("dfxp.alignment", alignment_roundtrip,
              functions=[dfxp_base._create_external_alignment, dfxp_base._create_external_horizontal_alignment,
                         dfxp_base._create_external_vertical_alignment, dfxp_base._create_internal_alignment,
                         Alignment.from_horizontal_and_vertical_align])


def run(ctx):
    P = ctx.prove
    P("webvtt.WebVTTWriter._convert_caption/layouts", convert_caption_layouts, functions=[W._convert_caption], crosscheck=False)
    P("webvtt.WebVTTWriter._convert_positioning", webvtt_settings, functions=[W._convert_positioning],
      contracts={"pycaption.geometry:Size.__str__": _size_str})
    P("webvtt.WebVTTWriter._convert_positioning/verbatim", webvtt_verbatim, functions=[W._convert_positioning])
    import props.C07_write as WS12
    WS12.prove_single_positioning_set(ctx)     # (the single-position writer: every level carries the one positioning, on a copy)
    import props.C07_regions as RG
    ctx.prove("dfxp.RegionCreator.get_positioning_info+_assign_positioning_data", RG.positioning_info,
              functions=[RG.RegionCreator.get_positioning_info, RG.DFXPWriter._assign_positioning_data], crosscheck=False)   # (an element is placed by its own nearest layout)
    import props.C01_read as RS
    RS.prove_webvtt_read_skeleton(ctx, clause="layout")      # (reading: the settings of a timing line belong to the cue below it)
    prove_alignment(ctx)
    P("dfxp._convert_layout_to_attributes", layout_attributes, functions=[dfxp_base._convert_layout_to_attributes],
      contracts={"pycaption.geometry:Size.__str__": _size_str})
    # nodes with different layouts become separate cues: every text node's text lies in a cue group that carries the
    # node's own layout (any node list; loop invariant shared with C03 / C11)
    import props.C03_lines as LN
    LN.prove_cue_lines(ctx)
    import props.C07_span_tag as ST_
    ST_.prove_span_tag(ctx)
    import props.C07_write as WS
    WS.prove_write_skeleton(ctx)          # (unused regions are removed only after the last language has been written)
    # a region that already fits the safe area keeps its extent on the way through DFXP (contract shared with C13)
    import props.C13 as C13
    P("geometry.Layout.fit_to_screen", C13.fit_to_screen, functions=[Layout.fit_to_screen])          # (a span with a layout carries region=<its own region>, whatever encloses it)
    # the language-level layout the cues fall back to is the layout of the language that is written (named or first),
    # set before the first caption is converted - whatever an earlier write left on the writer
    import props.C14 as C14
    P("webvtt.WebVTTWriter.write/language_layout", lambda c: C14.webvtt_write_language(c, layout_clauses=True), functions=[W.write], crosscheck=False)
    ctx.bounded("dfxp_roundtrip", "caption sets with percentage layouts at language / caption / node level (mixed), "
                "padding arities 1-4, all alignment pairs incl. absent parts, x relativize x fit_to_screen: write DFXP, "
                "read it back, every text node has the same effective layout (defaults start / after)",
                lambda b: bounded_dfxp_roundtrip(ctx, b))
    ctx.bounded("webvtt", "layouts with an origin at every level: cue settings equal the reference arithmetic printed "
                "with two decimals; all 27 layout sequences of three nodes -> cue groups with equal times; verbatim "
                "cue settings", lambda b: bounded_webvtt(ctx, b))
    ctx.trust("A: str(Size) opaque in the VCs (printing bounded-checked in C18); dict.get on WEBVTT_VERSION_OF; "
              "Layout.fit_to_screen by its C13 contract; bs4 / html.parser for the DFXP round trip (bounded only)")
    ctx.assume("WebVTT arithmetic is stated for layouts that have an origin, as the property does; float tolerance 4 ulp at magnitude 400")
