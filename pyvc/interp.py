"""AST interpreter over mixed concrete / symbolic values = the VC generator's front end.

The functions interpreted are the *real* ones: the AST is re-parsed from the source file of the
function object imported from VERIF_REPO on every run (nothing is copied by hand).  What parsing
drops: comments and formatting only (docstrings are evaluated as expression statements, i.e. no-ops).

Concrete sub-computations are delegated to CPython; symbolic leaves are the proxies of pyvc.sym.
Objects of repository classes are real instances (created with cls.__new__ and the interpreted
__init__), so isinstance / attribute access / mutation have CPython semantics.
"""
import ast
import builtins
import inspect
import math
import os
import re
import types
from fractions import Fraction

import z3

from . import sym
from .sym import (Inapplicable, PathEnd, SBool, SInt, SNum, SStr, SEnum, cur, is_sym, mkbool,
                  sformat_int, sformat_str, snot, sstr_int, strunc, sfloor, zint, zreal)


class _Return(BaseException):
    def __init__(self, v):
        self.v = v


class _Break(BaseException):
    pass


class _Continue(BaseException):
    pass


_AST_CACHE = {}


def module_ast(filename):
    st = os.stat(filename)
    key = (filename, st.st_mtime_ns, st.st_size)
    if key not in _AST_CACHE:
        with open(filename, encoding="utf-8") as f:
            src = f.read()
        tree = ast.parse(src, filename)
        index = {}

        def walk(node, prefix):
            for ch in ast.iter_child_nodes(node):
                if isinstance(ch, (ast.FunctionDef, ast.AsyncFunctionDef)):
                    q = prefix + ch.name
                    index.setdefault(q, ch)
                    index.setdefault((q, ch.lineno), ch)
                    # a decorated function's code object starts at its first decorator line
                    index.setdefault((q, min([ch.lineno] + [d.lineno for d in ch.decorator_list])), ch)
                    walk(ch, q + ".<locals>.")
                elif isinstance(ch, ast.ClassDef):
                    walk(ch, prefix + ch.name + ".")
                elif isinstance(ch, (ast.If, ast.Try, ast.With, ast.For, ast.While)):
                    walk(ch, prefix)
        walk(tree, "")
        _AST_CACHE[key] = (tree, index, src)
    return _AST_CACHE[key]


def function_ast(fn):
    code = fn.__code__
    tree, index, src = module_ast(code.co_filename)
    node = index.get((fn.__qualname__, code.co_firstlineno)) or index.get(fn.__qualname__)
    if node is None:
        # decorated functions: co_firstlineno is the decorator line
        for k, v in index.items():
            if isinstance(k, tuple) and k[0] == fn.__qualname__:
                node = v
                break
    if node is None:
        raise Inapplicable(f"no source for {fn.__qualname__}")
    for d in node.decorator_list:
        dn = d.id if isinstance(d, ast.Name) else getattr(d, "attr", None)
        if dn not in ("staticmethod", "classmethod", "property") and not (
                isinstance(d, ast.Attribute) and d.attr == "setter"):
            raise Inapplicable(f"{fn.__qualname__}: decorator {ast.dump(d)} outside the subset")
    return node


def frame_function_node(frame):
    f = frame
    while f is not None:
        n = getattr(f, "node", None)
        if n is not None:
            return n
        f = f.parent
    return None


class InterpFunction:
    """A function / lambda defined while interpreting (closure over an interpreter frame)."""

    def __init__(self, interp, node, env, name):
        self.interp, self.node, self.env, self.__name__ = interp, node, env, name

    def __call__(self, *args, **kwargs):
        return self.interp.call_node(self.node, self.env, None, args, kwargs, self.__name__)


class Frame:
    __slots__ = ("locals", "globals", "parent", "qualname", "node")

    def __init__(self, glob, parent=None, qualname="?", node=None):
        self.locals, self.globals, self.parent, self.qualname, self.node = {}, glob, parent, qualname, node

    def lookup(self, name):
        f = self
        while f is not None:
            if name in f.locals:
                return f.locals[name]
            f = f.parent
        if name in self.globals:
            return self.globals[name]
        if hasattr(builtins, name):
            return getattr(builtins, name)
        raise NameError(name)


class Interp:
    def __init__(self, repo_root, contracts=None, inline_log=None):
        self.repo_root = os.path.realpath(repo_root) + os.sep
        self.contracts = contracts or {}
        self.inlined = inline_log if inline_log is not None else set()
        self.native_calls = set()
        self.depth = 0
        self.loop_hooks = {}          # (qualname, ordinal) -> handler(interp, node, frame, iterable)
        self.stmt_hooks = {}
        self._loop_counters = []
        self.overrides = self._default_overrides()

    # ------------------------------------------------------------------ helpers
    def is_repo_function(self, f):
        return isinstance(f, types.FunctionType) and \
            os.path.realpath(f.__code__.co_filename).startswith(self.repo_root)

    def is_repo_class(self, c):
        if not isinstance(c, type):
            return False
        mod = inspect.getmodule(c)
        fn = getattr(mod, "__file__", None)
        return bool(fn) and os.path.realpath(fn).startswith(self.repo_root)

    def qualname(self, f):
        return f"{f.__module__}:{f.__qualname__}"

    def repo_dunder(self, obj, name):
        """The repository-defined special method `name` of obj's class, or None."""
        if is_sym(obj) or obj is None or isinstance(obj, (int, float, str, bool, tuple, list, dict)) \
                and type(obj) in (int, float, str, bool, tuple, list, dict):
            return None
        for klass in type(obj).__mro__:
            if name in klass.__dict__:
                f = klass.__dict__[name]
                if self.is_repo_function(f):
                    return f
                return None
        return None

    # ------------------------------------------------------------------ truthiness / operators
    def truth(self, v):
        if isinstance(v, bool):
            return v
        if isinstance(v, (SBool, SInt, SNum, SStr)):
            return bool(v)
        f = self.repo_dunder(v, "__bool__")
        if f is not None:
            return self.truth(self.call_function(f, (v,), {}))
        f = self.repo_dunder(v, "__len__")
        if f is not None:
            return self.truth(self.call_function(f, (v,), {}) != 0)
        return bool(v)

    def op_not(self, v):
        if isinstance(v, SBool):
            return snot(v)
        return not self.truth(v)

    _BIN = {ast.Add: ("__add__", "__radd__", lambda a, b: a + b),
            ast.Sub: ("__sub__", "__rsub__", lambda a, b: a - b),
            ast.Mult: ("__mul__", "__rmul__", lambda a, b: a * b),
            ast.Div: ("__truediv__", "__rtruediv__", lambda a, b: a / b),
            ast.FloorDiv: ("__floordiv__", "__rfloordiv__", lambda a, b: a // b),
            ast.Mod: ("__mod__", "__rmod__", lambda a, b: a % b),
            ast.Pow: ("__pow__", "__rpow__", lambda a, b: a ** b),
            ast.BitAnd: ("__and__", "__rand__", lambda a, b: a & b),
            ast.BitOr: ("__or__", "__ror__", lambda a, b: a | b),
            ast.BitXor: ("__xor__", "__rxor__", lambda a, b: a ^ b),
            ast.LShift: ("__lshift__", "__rlshift__", lambda a, b: a << b),
            ast.RShift: ("__rshift__", "__rrshift__", lambda a, b: a >> b)}

    def binop(self, op, a, b):
        d, rd, nat = self._BIN[type(op)]
        f = self.repo_dunder(a, d)
        if f is not None:
            r = self.call_function(f, (a, b), {})
            if r is not NotImplemented:
                return r
        f = self.repo_dunder(b, rd)
        if f is not None and not is_sym(a):
            r = self.call_function(f, (b, a), {})
            if r is not NotImplemented:
                return r
        if isinstance(op, ast.Mod) and isinstance(a, (str, SStr)):
            raise Inapplicable("%-formatting")
        if isinstance(op, ast.Add) and isinstance(a, str) and isinstance(b, SStr):
            return b.__radd__(a)
        return nat(a, b)

    def eq(self, a, b):
        f = self.repo_dunder(a, "__eq__")
        if f is not None:
            r = self.call_function(f, (a, b), {})
            if r is not NotImplemented:
                return r
        f = self.repo_dunder(b, "__eq__")
        if f is not None and not is_sym(a):
            r = self.call_function(f, (b, a), {})
            if r is not NotImplemented:
                return r
        if isinstance(a, (tuple, list)) and type(a) is type(b) and (
                any(is_sym(x) or self._has_repo_eq(x) for x in a) or
                any(is_sym(x) or self._has_repo_eq(x) for x in b)):
            if len(a) != len(b):
                return False
            acc = True
            for x, y in zip(a, b):
                e = self.eq(x, y)
                if e is False:
                    return False
                if e is True:
                    continue
                e = e if isinstance(e, SBool) else SBool(z3.BoolVal(self.truth(e)))
                acc = e if acc is True else (acc & e)
            return acc
        if is_sym(b) and not is_sym(a):
            return b == a
        return a == b

    def _has_repo_eq(self, x):
        return self.repo_dunder(x, "__eq__") is not None

    def ne(self, a, b):
        f = self.repo_dunder(a, "__ne__")
        if f is not None:
            return self.call_function(f, (a, b), {})
        r = self.eq(a, b)
        if isinstance(r, SBool):
            return snot(r)
        return not self.truth(r)

    @staticmethod
    def _sym_inside(x):
        """a tuple / frozenset key that holds a symbolic value: hashing it would compare object identities"""
        if isinstance(x, (tuple, frozenset)):
            return any(is_sym(y) or isinstance(y, SymObject) or Interp._sym_inside(y) for y in x)
        return False

    def contains(self, container, item):
        if isinstance(container, (dict, set, frozenset)) and (
                self._sym_inside(item) or any(self._sym_inside(k) for k in container)):
            raise Inapplicable("membership of a key built from symbolic values in a hash container")
        if isinstance(container, SStr):
            return container.contains(item)
        if isinstance(container, str) and isinstance(item, SStr):
            raise Inapplicable("symbolic needle in concrete string")
        if isinstance(container, SymObject) and hasattr(container, "contains"):
            return container.contains(item)
        if isinstance(item, SEnum):
            import enum
            if isinstance(container, enum.EnumMeta):
                return container is item.cls
            if isinstance(container, (list, tuple)):
                for x in container:
                    if self.truth(item == x):
                        return True
                return False
            raise Inapplicable("symbolic enum member in a container")
        f = self.repo_dunder(container, "__contains__")
        if f is not None:
            return self.call_function(f, (container, item), {})
        if isinstance(container, (list, tuple)) and (is_sym(item) or self._has_repo_eq(item)
                                                      or any(is_sym(x) or self._has_repo_eq(x) for x in container)):
            for x in container:
                if x is item or self.truth(self.eq(x, item)):
                    return True
            return False
        if isinstance(container, (dict, set, frozenset)) and is_sym(item):
            if isinstance(item, SStr):
                c = item.concrete()
                if c is not None:
                    return c in container
                # a key can only match if it fits the structure
                for k in container:
                    if isinstance(k, str):
                        try:
                            if item == k:
                                return True
                        except Inapplicable:
                            raise
                return False
            raise Inapplicable("symbolic key membership")
        return item in container

    def compare(self, op, a, b):
        if isinstance(op, ast.Eq):
            return self.eq(a, b)
        if isinstance(op, ast.NotEq):
            return self.ne(a, b)
        if isinstance(op, (ast.Is, ast.IsNot)):
            # True / False are singletons: identity of a symbolic bool with a bool is equality of
            # truth values; with anything else it is false
            if isinstance(a, SBool) or isinstance(b, SBool):
                if isinstance(a, (SBool, bool)) and isinstance(b, (SBool, bool)):
                    r = mkbool(sym.zbool(a) == sym.zbool(b))
                else:
                    r = False
                if isinstance(op, ast.IsNot):
                    return snot(r) if isinstance(r, SBool) else (not r)
                return r
            return (a is b) if isinstance(op, ast.Is) else (a is not b)
        if isinstance(op, ast.In):
            return self.contains(b, a)
        if isinstance(op, ast.NotIn):
            r = self.contains(b, a)
            return snot(r) if isinstance(r, SBool) else (not r)
        d = {ast.Lt: "__lt__", ast.LtE: "__le__", ast.Gt: "__gt__", ast.GtE: "__ge__"}[type(op)]
        f = self.repo_dunder(a, d)
        if f is not None:
            return self.call_function(f, (a, b), {})
        if isinstance(op, ast.Lt):
            return a < b
        if isinstance(op, ast.LtE):
            return a <= b
        if isinstance(op, ast.Gt):
            return a > b
        return a >= b

    # ------------------------------------------------------------------ builtin models
    def _default_overrides(self):
        I = self

        def b_int(x=0, base=None):
            if base is not None:
                if is_sym(x):
                    raise Inapplicable("int(x, base) on a symbolic string")
                return int(x, base)
            if isinstance(x, SStr):
                return sstr_int(x)
            if isinstance(x, SInt):
                return x
            if isinstance(x, SBool):
                return SInt(zint(x))
            if isinstance(x, SNum):
                return strunc(x)
            return int(x)

        def b_float(x=0.0):
            if isinstance(x, SNum):
                if x.kind == "frac":
                    raise Inapplicable("float(Fraction)")
                return x
            if isinstance(x, SInt):
                return SNum.of(x)        # exact below 2**53; callers state the range
            if isinstance(x, SStr):
                # float(decimal string): correctly rounded double of the exact decimal (std model)
                e = sym.decimal_view(x)
                p = cur()
                if sym._integrality(e) is True and p.entails(e < sym.TWO53):
                    return SNum(e, "float")
                r = p.fresh_real("fstr")
                p.assume(z3.And(r - e <= sym.U * e, e - r <= sym.U * e))
                if sym._integrality(e) is not False:
                    k = p.fresh_int("ik")
                    p.assume(z3.And(z3.ToReal(k) <= e, e < z3.ToReal(k) + 1))
                    p.assume(z3.Implies(z3.And(z3.ToReal(k) == e, k < sym.TWO53), r == e))
                p.float_facts.append(("fromstr", e, r))
                return SNum(r, "float")
            return float(x)

        def b_str(x=""):
            if isinstance(x, SStr):
                return x
            if isinstance(x, SInt):
                return sformat_int(x, "")
            if is_sym(x):
                raise Inapplicable("str() of a symbolic number")
            f = I.repo_dunder(x, "__str__")
            if f is not None:
                return I.call_function(f, (x,), {})
            return str(x)

        def b_len(x):
            if isinstance(x, SStr):
                n = x.sym_len()
                if n is None:
                    raise Inapplicable("len() of a variable-length structured string")
                return n
            f = I.repo_dunder(x, "__len__")
            if f is not None:
                return I.call_function(f, (x,), {})
            return len(x)

        def b_bool(x=False):
            if isinstance(x, SBool):
                return x
            if isinstance(x, SInt):
                return mkbool(x.t != 0)
            return I.truth(x)

        def b_abs(x):
            f = I.repo_dunder(x, "__abs__")
            if f is not None:
                return I.call_function(f, (x,), {})
            return abs(x)

        def b_isinstance(x, t):
            from numbers import Number
            ts = t if isinstance(t, tuple) else (t,)
            if isinstance(x, SInt):
                return any(k in (int, Number, object) or k.__name__ in ("Integral", "Real", "Rational", "Complex") for k in ts)
            if isinstance(x, SBool):
                return any(k in (bool, int, Number, object) for k in ts)
            if isinstance(x, SNum):
                if x.kind == "frac":
                    return any(k in (Fraction, Number, object) for k in ts)
                if x.kind == "num":
                    if any(k in (Number, object) for k in ts):
                        return True
                    if any(k in (int, float) for k in ts):
                        raise Inapplicable("isinstance(int|float) of an int-or-float Number")
                    return False
                return any(k in (float, Number, object) for k in ts)
            if isinstance(x, SStr):
                return any(k in (str, object) for k in ts)
            if isinstance(x, SEnum):
                return any(isinstance(k, type) and issubclass(x.cls, k) for k in ts)
            return isinstance(x, t)

        def b_any(it):
            for x in it:
                if I.truth(x):
                    return True
            return False

        def b_all(it):
            for x in it:
                if not I.truth(x):
                    return False
            return True

        def b_minmax(pick_first_if):
            def f(*args, **kw):
                if kw:
                    raise Inapplicable("min/max with key")
                xs = list(args[0]) if len(args) == 1 else list(args)
                best = xs[0]
                for x in xs[1:]:
                    if I.truth(pick_first_if(I, x, best)):
                        best = x
                return best
            return f

        def b_hash(x):
            if is_sym(x):
                # hash respects ==: modelled as an uninterpreted function of the value
                return I.hash_of(x)
            f = I.repo_dunder(x, "__hash__")
            if f is not None:
                return I.call_function(f, (x,), {})
            return I.hash_of(x)

        def b_round(x, nd=None):
            if is_sym(x):
                raise Inapplicable("round() of a symbolic number")
            return round(x, nd) if nd is not None else round(x)

        def b_divmod(a, b):
            return sym.sdivmod(a, b) if (is_sym(a) or is_sym(b)) else divmod(a, b)

        def b_floor(x):
            if is_sym(x):
                return sfloor(x) if cur().entails(zreal(x) >= 0) else _floor_any(x)
            return math.floor(x)

        def _floor_any(x):
            p = cur()
            k = p.fresh_int("fl")
            t = zreal(x)
            p.assume(z3.And(z3.ToReal(k) <= t, t < z3.ToReal(k) + 1))
            return SInt(k)

        def b_fraction(num=0, den=None):
            if den is not None:
                if is_sym(num) or is_sym(den):
                    return SNum(zreal(num) / zreal(den), "frac")
                return Fraction(num, den)
            if isinstance(num, SInt):
                return SNum(z3.ToReal(num.t), "frac")
            if isinstance(num, SNum):
                return SNum(num.t, "frac")
            if isinstance(num, SStr):
                return SNum(sym.decimal_view(num), "frac")
            return Fraction(num)

        def b_timedelta(**kw):
            if set(kw) != {"microseconds"}:
                if any(is_sym(v) for v in kw.values()):
                    # integer fields: the duration is their exact sum in microseconds (A: stdlib)
                    unit = {"days": 86400 * 10 ** 6, "hours": 3600 * 10 ** 6, "minutes": 60 * 10 ** 6, "seconds": 10 ** 6,
                            "milliseconds": 1000, "microseconds": 1, "weeks": 7 * 86400 * 10 ** 6}
                    if any(k not in unit or isinstance(v, (SNum, float)) for k, v in kw.items()):
                        raise Inapplicable("timedelta with symbolic non-integer fields")
                    total = 0
                    for k, v in kw.items():
                        total = total + v * unit[k]
                    return SymTimedelta(total)
                import datetime
                return datetime.timedelta(**kw)
            us = kw["microseconds"]
            if not is_sym(us):
                import datetime
                return datetime.timedelta(microseconds=us)
            return SymTimedelta(us)

        def b_type(x, *rest):
            if rest:
                return type(x, *rest)
            if isinstance(x, SEnum):
                return x.cls
            if isinstance(x, SInt):
                return int
            if isinstance(x, SBool):
                return bool
            if isinstance(x, SStr):
                return str
            if isinstance(x, SNum):
                if x.kind == "float":
                    return float
                if x.kind == "frac":
                    return Fraction
                raise Inapplicable("type() of an int-or-float Number")
            return type(x)

        ov = {builtins.type: b_type, builtins.int: b_int, builtins.float: b_float, builtins.str: b_str, builtins.len: b_len,
              builtins.bool: b_bool, builtins.abs: b_abs, builtins.isinstance: b_isinstance,
              builtins.any: b_any, builtins.all: b_all, builtins.hash: b_hash, builtins.round: b_round,
              builtins.divmod: b_divmod, math.floor: b_floor,
              builtins.min: b_minmax(lambda I, x, best: I.compare(ast.Lt(), x, best)),
              builtins.max: b_minmax(lambda I, x, best: I.compare(ast.Gt(), x, best)),
              Fraction: b_fraction}
        import datetime
        ov[datetime.timedelta] = b_timedelta

        def mk(mode):
            def f(pattern, string, flags=0):
                from . import regex
                return regex.sym_search(re.compile(pattern, flags), string, mode)
            return f
        ov[re.match], ov[re.search], ov[re.fullmatch] = mk("match"), mk("search"), mk("fullmatch")
        return ov

    _hash_fn = None

    def hash_of(self, x):
        """hash(): an uninterpreted function of the value, so that equal values have equal hashes
        (assumed contract of the builtin: hash respects == on numbers / enums / None / str)."""
        if Interp._hash_fn is None:
            Interp._hash_fn = {"real": z3.Function("hash_num", z3.RealSort(), z3.IntSort()),
                               "obj": z3.Function("hash_obj", z3.IntSort(), z3.IntSort())}
        if isinstance(x, (SNum, SInt, SBool)) or (isinstance(x, (int, float)) and not isinstance(x, bool)):
            return SInt(Interp._hash_fn["real"](zreal(x)))
        if isinstance(x, bool):
            return SInt(Interp._hash_fn["real"](zreal(int(x))))
        import enum
        if isinstance(x, SEnum) or isinstance(x, enum.Enum):
            # enum members: a code per (class, index); symbolic members share the function
            cls = x.cls if isinstance(x, SEnum) else type(x)
            idx = x.t if isinstance(x, SEnum) else z3.IntVal(list(cls).index(x))
            classes = cur().ghost.setdefault("enumclasses", [])
            if cls not in classes:
                classes.append(cls)
            if "enum" not in Interp._hash_fn:
                Interp._hash_fn["enum"] = z3.Function("hash_enum", z3.IntSort(), z3.IntSort(), z3.IntSort())
            return SInt(Interp._hash_fn["enum"](z3.IntVal(classes.index(cls)), idx))
        # enums / None / strings: concrete objects -> a stable symbolic code per distinct object
        key = ("hashcode", x if isinstance(x, (str, type(None))) else id(x))
        codes = cur().ghost.setdefault("hashcodes", {})
        if key not in codes:
            codes[key] = len(codes)
        return SInt(Interp._hash_fn["obj"](z3.IntVal(codes[key])))

    # ------------------------------------------------------------------ calls
    def call(self, f, args, kwargs):
        try:
            ov = self.overrides.get(f)
        except TypeError:
            ov = None
        if ov is not None:
            return ov(*args, **kwargs)
        if isinstance(f, InterpFunction):
            return f(*args, **kwargs)
        if isinstance(f, types.MethodType):
            fn = f.__func__
            if self.is_repo_function(fn):
                return self.call_function(fn, (f.__self__,) + tuple(args), kwargs)
            if isinstance(fn, InterpFunction):
                return fn(f.__self__, *args, **kwargs)
        if self.is_repo_function(f):
            return self.call_function(f, tuple(args), kwargs)
        if isinstance(f, type):
            return self.instantiate(f, args, kwargs)
        if isinstance(f, (classmethod, staticmethod)):
            return self.call(f.__func__, args, kwargs)
        # dict lookups with a symbolic key: linear search with == (branches on the key)
        if isinstance(f, types.BuiltinMethodType) and isinstance(getattr(f, "__self__", None), dict) \
                and f.__name__ in ("get", "pop", "setdefault") and args and is_sym(args[0]):
            if f.__name__ != "get":
                raise Inapplicable(f"dict.{f.__name__} with a symbolic key")
            for k, v in f.__self__.items():
                if self.truth(self.eq(k, args[0])):
                    return v
            return args[1] if len(args) > 1 else kwargs.get("default")
        # compiled regular expressions applied to structured strings
        if isinstance(f, types.BuiltinMethodType) and isinstance(getattr(f, "__self__", None), re.Pattern):
            if any(isinstance(a, SStr) for a in args):
                from . import regex
                return regex.pattern_method(f.__self__, f.__name__, args, kwargs)
        # str methods called with symbolic arguments on concrete receivers
        if isinstance(f, types.BuiltinMethodType) and isinstance(getattr(f, "__self__", None), str):
            if any(is_sym(a) for a in args) or any(is_sym(a) for a in kwargs.values()) or (
                    f.__name__ == "join" and args and any(isinstance(x, SStr) for x in args[0])):
                return self.str_method(f.__self__, f.__name__, args, kwargs)
        self.native_calls.add(getattr(f, "__qualname__", repr(f)))
        return f(*args, **kwargs)

    def str_method(self, s, name, args, kwargs):
        if name == "join":
            parts = list(args[0])
            out = None
            for i, p in enumerate(parts):
                piece = p if i == 0 else (s + p if isinstance(p, str) else SStr.lift(s) + p)
                out = piece if out is None else out + piece
            return "" if out is None else out
        if name == "format":
            import string
            out, auto = "", 0
            for lit, field, spec, conv in string.Formatter().parse(s):
                out = out + lit
                if field is None:
                    continue
                if conv or (spec and "{" in spec):
                    raise Inapplicable("str.format conversion / nested spec")
                if field == "":
                    val, auto = args[auto], auto + 1
                elif field.isdigit():
                    val = args[int(field)]
                elif field.isidentifier():
                    val = kwargs[field]
                else:
                    raise Inapplicable(f"str.format field {field!r}")
                if isinstance(val, (SInt, SBool)):
                    piece = sformat_int(val, spec)
                elif isinstance(val, SStr):
                    piece = sformat_str(val, spec)
                elif is_sym(val):
                    raise Inapplicable("str.format of a symbolic number")
                else:
                    piece = format(val, spec)
                out = out + piece if not (isinstance(out, str) and isinstance(piece, SStr)) else piece.__radd__(out)
            return out
        raise Inapplicable(f"str.{name} with symbolic argument")

    def instantiate(self, cls, args, kwargs):
        if not self.is_repo_class(cls):
            ov = self.overrides.get(cls)
            if ov is not None:
                return ov(*args, **kwargs)
            self.native_calls.add(getattr(cls, "__qualname__", repr(cls)))
            return cls(*args, **kwargs)
        import enum
        if issubclass(cls, enum.Enum):
            return cls(*args, **kwargs)
        if issubclass(cls, tuple):
            return cls(*args, **kwargs)
        if issubclass(cls, BaseException):
            obj = cls.__new__(cls, *args)
        else:
            obj = cls.__new__(cls)
        init = None
        for klass in cls.__mro__:
            if "__init__" in klass.__dict__:
                init = klass.__dict__["__init__"]
                break
        if init is not None and self.is_repo_function(init):
            self.call_function(init, (obj,) + tuple(args), kwargs)
        elif init is not None:
            init(obj, *args, **kwargs)
        return obj

    def call_function(self, fn, args, kwargs):
        q = self.qualname(fn)
        h = self.contracts.get(q)
        if h is not None:
            return h(self, fn, args, kwargs)
        self.inlined.add(q)
        node = function_ast(fn)
        return self.call_node(node, None, fn, args, kwargs, q)

    def call_node(self, node, closure_env, fn, args, kwargs, qualname):
        if self.depth > 60:
            raise Inapplicable("call depth")
        if fn is not None:
            glob = fn.__globals__
            frame = Frame(glob, None, qualname, node)
            sig = inspect.signature(fn)
            try:
                ba = sig.bind(*args, **kwargs)
            except TypeError as e:
                raise TypeError(f"{qualname}: {e}")
            ba.apply_defaults()
            for k, v in ba.arguments.items():
                frame.locals[k] = v
            # closure cells / class cell (super())
            if fn.__closure__:
                for name, cell in zip(fn.__code__.co_freevars, fn.__closure__):
                    try:
                        frame.locals.setdefault(name, cell.cell_contents)
                    except ValueError:
                        pass
        else:
            frame = Frame(closure_env.globals, closure_env, qualname)
            self.bind_args(node, frame, closure_env, args, kwargs)
        self.depth += 1
        self._loop_counters.append(0)
        try:
            if isinstance(node, ast.Lambda):
                return self.expr(node.body, frame)
            self.block(node.body, frame)
            return None
        except _Return as r:
            return r.v
        finally:
            self.depth -= 1
            self._loop_counters.pop()

    def bind_args(self, node, frame, env, args, kwargs):
        a = node.args
        params = [p.arg for p in a.posonlyargs + a.args]
        defaults = [self.expr(d, env) for d in a.defaults]
        vals = dict(zip(params, args))
        if len(args) > len(params):
            if a.vararg is None:
                raise TypeError("too many positional arguments")
            frame.locals[a.vararg.arg] = tuple(args[len(params):])
        elif a.vararg is not None:
            frame.locals[a.vararg.arg] = ()
        for i, p in enumerate(params):
            if p in vals:
                continue
            if p in kwargs:
                vals[p] = kwargs.pop(p)
                continue
            di = i - (len(params) - len(defaults))
            if di < 0:
                raise TypeError(f"missing argument {p}")
            vals[p] = defaults[di]
        for p, d in zip(a.kwonlyargs, a.kw_defaults):
            if p.arg in kwargs:
                vals[p.arg] = kwargs.pop(p.arg)
            elif d is not None:
                vals[p.arg] = self.expr(d, env)
            else:
                raise TypeError(f"missing keyword argument {p.arg}")
        if a.kwarg is not None:
            frame.locals[a.kwarg.arg] = dict(kwargs)
        elif kwargs:
            raise TypeError(f"unexpected keyword arguments {list(kwargs)}")
        frame.locals.update(vals)

    # ------------------------------------------------------------------ attributes
    def getattr(self, obj, name):
        if isinstance(obj, SymObject):
            return obj.sym_getattr(self, name)
        if not is_sym(obj) and not isinstance(obj, type):
            for klass in type(obj).__mro__:
                d = klass.__dict__.get(name)
                if d is None:
                    continue
                if isinstance(d, property) and self.is_repo_function(d.fget):
                    if name in getattr(obj, "__dict__", {}):
                        break
                    return self.call_function(d.fget, (obj,), {})
                break
        return getattr(obj, name)

    def setattr(self, obj, name, value):
        if isinstance(obj, SymObject):
            return obj.sym_setattr(self, name, value)
        for klass in type(obj).__mro__:
            d = klass.__dict__.get(name)
            if isinstance(d, property) and d.fset is not None and self.is_repo_function(d.fset):
                return self.call_function(d.fset, (obj, value), {})
        setattr(obj, name, value)

    # ------------------------------------------------------------------ statements
    def block(self, stmts, frame):
        for s in stmts:
            self.stmt(s, frame)

    def stmt(self, s, frame):
        h = self.stmt_hooks.get((frame.qualname, s.lineno))
        if h is not None:
            if h(self, s, frame) == "skip":
                return
        m = getattr(self, "s_" + type(s).__name__, None)
        if m is None:
            raise Inapplicable(f"statement {type(s).__name__} outside the subset")
        m(s, frame)

    def s_Expr(self, s, frame):
        self.expr(s.value, frame)

    def s_Pass(self, s, frame):
        pass

    def s_Return(self, s, frame):
        raise _Return(None if s.value is None else self.expr(s.value, frame))

    def s_Break(self, s, frame):
        raise _Break()

    def s_Continue(self, s, frame):
        raise _Continue()

    def s_Assign(self, s, frame):
        v = self.expr(s.value, frame)
        for t in s.targets:
            self.assign(t, v, frame)

    def s_AnnAssign(self, s, frame):
        if s.value is not None:
            self.assign(s.target, self.expr(s.value, frame), frame)

    def s_AugAssign(self, s, frame):
        t = s.target
        if isinstance(t, ast.Name):
            curv = frame.lookup(t.id)
            if isinstance(curv, list) and isinstance(s.op, ast.Add):
                curv.extend(self.expr(s.value, frame))
                return
            self.assign(t, self.binop(s.op, curv, self.expr(s.value, frame)), frame)
        elif isinstance(t, ast.Attribute):
            o = self.expr(t.value, frame)
            curv = self.getattr(o, t.attr)
            self.setattr(o, t.attr, self.binop(s.op, curv, self.expr(s.value, frame)))
        elif isinstance(t, ast.Subscript):
            o = self.expr(t.value, frame)
            k = self.subscript_key(t.slice, frame)
            curv = self.getitem(o, k)
            self.setitem(o, k, self.binop(s.op, curv, self.expr(s.value, frame)))
        else:
            raise Inapplicable("augmented assignment target")

    def assign(self, t, v, frame):
        if isinstance(t, ast.Name):
            frame.locals[t.id] = v
        elif isinstance(t, ast.Attribute):
            self.setattr(self.expr(t.value, frame), t.attr, v)
        elif isinstance(t, ast.Subscript):
            self.setitem(self.expr(t.value, frame), self.subscript_key(t.slice, frame), v)
        elif isinstance(t, (ast.Tuple, ast.List)):
            vals = list(self.iterate(v))
            if any(isinstance(e, ast.Starred) for e in t.elts):
                raise Inapplicable("starred assignment")
            if len(vals) != len(t.elts):
                raise ValueError(f"not enough values to unpack (expected {len(t.elts)}, got {len(vals)})"
                                 if len(vals) < len(t.elts) else
                                 f"too many values to unpack (expected {len(t.elts)})")
            for e, x in zip(t.elts, vals):
                self.assign(e, x, frame)
        else:
            raise Inapplicable(f"assignment target {type(t).__name__}")

    def s_Delete(self, s, frame):
        for t in s.targets:
            if isinstance(t, ast.Name):
                del frame.locals[t.id]
            elif isinstance(t, ast.Subscript):
                del self.expr(t.value, frame)[self.subscript_key(t.slice, frame)]
            else:
                raise Inapplicable("del target")

    def s_If(self, s, frame):
        if self.truth(self.expr(s.test, frame)):
            self.block(s.body, frame)
        else:
            self.block(s.orelse, frame)

    def s_While(self, s, frame):
        n = nsym = 0
        while True:
            test = self.expr(s.test, frame)
            if is_sym(test):
                # a loop whose condition depends on symbolic values is unrolled a few times only: without a loop
                # contract every further iteration is another path, and there is no end to them
                nsym += 1
                if nsym > 6:
                    raise Inapplicable("while loop with a symbolic condition and no loop contract")
            if not self.truth(test):
                break
            n += 1
            if n > 10000:
                raise Inapplicable("while loop bound")
            try:
                self.block(s.body, frame)
            except _Break:
                return
            except _Continue:
                continue
        self.block(s.orelse, frame)

    def iterate(self, it):
        if isinstance(it, SymIterable):
            return it
        f = self.repo_dunder(it, "__iter__")
        if f is not None:
            return self.call_function(f, (it,), {})
        if isinstance(it, SStr):
            c = it.concrete()
            if c is None:
                raise Inapplicable("iteration over a structured string")
            return c
        return it

    _FOR_ORDINALS = {}

    def for_ordinal(self, s, frame):
        """1-based position of this `for` among the for-statements of its function, in source order"""
        key = id(s)
        if key not in Interp._FOR_ORDINALS:
            fn_node = frame_function_node(frame)
            if fn_node is None:
                return 0
            k = 0
            for node in ast.walk(fn_node):
                pass
            fors = sorted((n for n in ast.walk(fn_node) if isinstance(n, ast.For)), key=lambda n: (n.lineno, n.col_offset))
            for k, n in enumerate(fors, 1):
                Interp._FOR_ORDINALS[id(n)] = k
        return Interp._FOR_ORDINALS.get(key, 0)

    def s_For(self, s, frame):
        ordinal = self.for_ordinal(s, frame)
        itv = self.expr(s.iter, frame)
        h = self.loop_hooks.get((frame.qualname, ordinal))
        if h is None and hasattr(itv, "t") and hasattr(itv.t, "sexpr"):
            # a loop contract may be attached to the sequence it walks instead of to a position in a function:
            # it then follows the loop when a refactoring moves it into a helper or renumbers the loops
            h = self.loop_hooks.get(("*over*", itv.t.sexpr() + ("/rev" if getattr(itv, "rev", False) else "")))
        if h is not None:
            r = h(self, s, frame, itv)
            if r is not NotImplemented:
                return
        it = self.iterate(itv)
        if isinstance(it, SymIterable):
            raise Inapplicable(f"loop {ordinal} of {frame.qualname} over a symbolic sequence has no invariant")
        for x in it:
            self.assign(s.target, x, frame)
            try:
                self.block(s.body, frame)
            except _Break:
                return
            except _Continue:
                continue
        self.block(s.orelse, frame)

    def s_Raise(self, s, frame):
        if s.exc is None:
            raise Inapplicable("bare raise")
        e = self.expr(s.exc, frame)
        if isinstance(e, type):
            e = self.instantiate(e, (), {})
        if s.cause is not None:
            raise e from self.expr(s.cause, frame)
        raise e

    def s_Try(self, s, frame):
        try:
            try:
                self.block(s.body, frame)
            except (_Return, _Break, _Continue, PathEnd, Inapplicable):
                raise
            except Exception as e:
                for h in s.handlers:
                    if h.type is None:
                        match = True
                    else:
                        t = self.expr(h.type, frame)
                        match = isinstance(e, t)
                    if match:
                        if h.name:
                            frame.locals[h.name] = e
                        self.block(h.body, frame)
                        break
                else:
                    raise
            else:
                self.block(s.orelse, frame)
        finally:
            if s.finalbody:
                self.block(s.finalbody, frame)

    def s_FunctionDef(self, s, frame):
        frame.locals[s.name] = InterpFunction(self, s, frame, frame.qualname + ".<locals>." + s.name)

    def s_Assert(self, s, frame):
        if not self.truth(self.expr(s.test, frame)):
            raise AssertionError()

    def s_Import(self, s, frame):
        for a in s.names:
            mod = __import__(a.name)
            frame.locals[a.asname or a.name.split(".")[0]] = mod if not a.asname else \
                __import__(a.name, fromlist=["x"])

    def s_ImportFrom(self, s, frame):
        import importlib
        pkg = frame.globals.get("__package__")
        mod = importlib.import_module(("." * s.level) + (s.module or ""), pkg) if s.level else \
            importlib.import_module(s.module)
        for a in s.names:
            frame.locals[a.asname or a.name] = getattr(mod, a.name)

    def s_Global(self, s, frame):
        raise Inapplicable("global statement")

    def s_Nonlocal(self, s, frame):
        raise Inapplicable("nonlocal statement")

    # ------------------------------------------------------------------ expressions
    def expr(self, e, frame):
        m = getattr(self, "e_" + type(e).__name__, None)
        if m is None:
            raise Inapplicable(f"expression {type(e).__name__} outside the subset")
        return m(e, frame)

    def e_Constant(self, e, frame):
        return e.value

    def e_Name(self, e, frame):
        return frame.lookup(e.id)

    def e_Attribute(self, e, frame):
        return self.getattr(self.expr(e.value, frame), e.attr)

    def e_Tuple(self, e, frame):
        return tuple(self.elts(e.elts, frame))

    def e_List(self, e, frame):
        return list(self.elts(e.elts, frame))

    def e_Set(self, e, frame):
        return set(self.elts(e.elts, frame))

    def elts(self, elts, frame):
        out = []
        for x in elts:
            if isinstance(x, ast.Starred):
                out.extend(self.iterate(self.expr(x.value, frame)))
            else:
                out.append(self.expr(x, frame))
        return out

    def e_Dict(self, e, frame):
        d = {}
        for k, v in zip(e.keys, e.values):
            if k is None:
                d.update(self.expr(v, frame))
            else:
                d[self.expr(k, frame)] = self.expr(v, frame)
        return d

    def e_BoolOp(self, e, frame):
        v = None
        for i, x in enumerate(e.values):
            v = self.expr(x, frame)
            if i == len(e.values) - 1:
                return v
            t = self.truth(v)
            if isinstance(e.op, ast.And) and not t:
                return v
            if isinstance(e.op, ast.Or) and t:
                return v
        return v

    def e_UnaryOp(self, e, frame):
        v = self.expr(e.operand, frame)
        if isinstance(e.op, ast.Not):
            return self.op_not(v)
        if isinstance(e.op, ast.USub):
            return -v
        if isinstance(e.op, ast.UAdd):
            return +v
        return ~v

    def e_BinOp(self, e, frame):
        return self.binop(e.op, self.expr(e.left, frame), self.expr(e.right, frame))

    def e_Compare(self, e, frame):
        left = self.expr(e.left, frame)
        res = True
        for i, (op, rn) in enumerate(zip(e.ops, e.comparators)):
            right = self.expr(rn, frame)
            r = self.compare(op, left, right)
            if i == len(e.ops) - 1:
                return r
            if not self.truth(r):
                return r
            left = right
        return res

    def e_IfExp(self, e, frame):
        if self.truth(self.expr(e.test, frame)):
            return self.expr(e.body, frame)
        return self.expr(e.orelse, frame)

    def e_Lambda(self, e, frame):
        return InterpFunction(self, e, frame, frame.qualname + ".<lambda>")

    def e_Call(self, e, frame):
        # super() needs the class cell / first argument
        if isinstance(e.func, ast.Name) and e.func.id == "super" and not e.args:
            return self.make_super(frame)
        f = self.expr(e.func, frame)
        args = self.elts(e.args, frame)
        kwargs = {}
        for k in e.keywords:
            if k.arg is None:
                kwargs.update(self.expr(k.value, frame))
            else:
                kwargs[k.arg] = self.expr(k.value, frame)
        return self.call(f, args, kwargs)

    def make_super(self, frame):
        # locate the class through the qualified name of the running function
        selfobj = None
        for name in frame.locals:
            selfobj = frame.locals[name]
            break
        cls = frame.locals.get("__class__")
        if cls is None:
            modname, q = frame.qualname.split(":")
            import sys
            obj = sys.modules[modname]
            for part in q.split(".")[:-1]:
                obj = getattr(obj, part)
            cls = obj
        return super(cls, selfobj if not isinstance(selfobj, type) else selfobj)

    def e_JoinedStr(self, e, frame):
        out = ""
        for v in e.values:
            if isinstance(v, ast.Constant):
                piece = v.value
            else:
                piece = self.formatted(v, frame)
            out = out + piece if not (isinstance(out, str) and isinstance(piece, SStr)) else piece.__radd__(out)
        return out

    def formatted(self, v, frame):
        val = self.expr(v.value, frame)
        spec = ""
        if v.format_spec is not None:
            spec = self.e_JoinedStr(v.format_spec, frame)
            if not isinstance(spec, str):
                raise Inapplicable("symbolic format spec")
        if v.conversion not in (-1, 115):     # !s ok
            if v.conversion == 114:
                if is_sym(val):
                    raise Inapplicable("!r of symbolic value")
                return format(repr(val), spec)
            raise Inapplicable("format conversion")
        if hasattr(val, "sym_format"):
            return val.sym_format(spec)
        if isinstance(val, (SInt, SBool)):
            return sformat_int(val, spec)
        if isinstance(val, SStr):
            return sformat_str(val, spec)
        if isinstance(val, SNum):
            raise Inapplicable("formatting a symbolic float")
        f = self.repo_dunder(val, "__format__")
        if f is None and not spec:
            f2 = self.repo_dunder(val, "__str__")
            if f2 is not None:
                return self.call_function(f2, (val,), {})
        return format(val, spec)

    def e_FormattedValue(self, e, frame):
        return self.formatted(e, frame)

    def subscript_key(self, sl, frame):
        if isinstance(sl, ast.Slice):
            return slice(None if sl.lower is None else self.expr(sl.lower, frame),
                         None if sl.upper is None else self.expr(sl.upper, frame),
                         None if sl.step is None else self.expr(sl.step, frame))
        return self.expr(sl, frame)

    def getitem(self, o, k):
        if isinstance(o, SymObject):
            return o.sym_getitem(self, k)
        f = self.repo_dunder(o, "__getitem__")
        if f is not None:
            return self.call_function(f, (o, k), {})
        if isinstance(k, SEnum) and isinstance(o, dict):
            for key in o:
                if self.truth(self.eq(key, k)):
                    return o[key]
            raise KeyError(k)
        if isinstance(k, SStr):
            c = k.concrete()
            if c is None:
                if isinstance(o, dict):
                    for key in o:
                        if isinstance(key, str) and self.truth(k == key):
                            return o[key]
                    raise KeyError(k)
                raise Inapplicable("symbolic string key")
            k = c
        if isinstance(o, dict) and (self._sym_inside(k) or any(self._sym_inside(key) for key in o)):
            raise Inapplicable("dict lookup with a key built from symbolic values")
        return o[k]

    def setitem(self, o, k, v):
        if isinstance(o, SymObject):
            return o.sym_setitem(self, k, v)
        f = self.repo_dunder(o, "__setitem__")
        if f is not None:
            return self.call_function(f, (o, k, v), {})
        if isinstance(o, dict) and (self._sym_inside(k) or ((is_sym(k) and not (isinstance(k, SStr) and k.concrete() is not None)))):
            raise Inapplicable("dict store under a key built from symbolic values")
        o[k] = v

    def e_Subscript(self, e, frame):
        return self.getitem(self.expr(e.value, frame), self.subscript_key(e.slice, frame))

    def e_Starred(self, e, frame):
        raise Inapplicable("starred expression")

    def comp(self, gens, frame, emit):
        def rec(i, fr):
            if i == len(gens):
                emit(fr)
                return
            g = gens[i]
            for x in self.iterate(self.expr(g.iter, fr)):
                self.assign(g.target, x, fr)
                if all(self.truth(self.expr(c, fr)) for c in g.ifs):
                    rec(i + 1, fr)
        fr = Frame(frame.globals, frame, frame.qualname)
        rec(0, fr)

    def e_ListComp(self, e, frame):
        if isinstance(e, ast.ListComp) and len(e.generators) == 1 and not e.generators[0].is_async:
            g = e.generators[0]
            itv = self.expr(g.iter, frame)
            if isinstance(itv, SymIterable):
                return self.symbolic_listcomp(e, g, itv, frame)
        out = []
        self.comp(e.generators, frame, lambda fr: out.append(self.expr(e.elt, fr)))
        return out

    def e_GeneratorExp(self, e, frame):
        out = []
        self.comp(e.generators, frame, lambda fr: out.append(self.expr(e.elt, fr)))
        return out

    _COMP_ORDINALS = {}

    def comp_ordinal(self, e, frame):
        """1-based position of this list comprehension among those of its function, in source order"""
        if id(e) not in Interp._COMP_ORDINALS:
            fn_node = frame_function_node(frame)
            if fn_node is None:
                return 0
            comps = sorted((n for n in ast.walk(fn_node) if isinstance(n, ast.ListComp)), key=lambda n: (n.lineno, n.col_offset))
            for k, n in enumerate(comps, 1):
                Interp._COMP_ORDINALS[id(n)] = k
        return Interp._COMP_ORDINALS.get(id(e), 0)

    def symbolic_listcomp(self, e, g, itv, frame):
        """[elt for target in <symbolic list> if conds]  is executed as the loop
               __comp = [];  for target in <list>:  if conds: __comp.append(elt)
        under the loop contract registered for (function, ('comp', ordinal))."""
        k = self.comp_ordinal(e, frame)
        h = self.loop_hooks.get((frame.qualname, ("comp", k)))
        if h is None:
            raise Inapplicable(f"list comprehension {k} of {frame.qualname} over a symbolic sequence has no invariant")
        app = ast.Expr(value=ast.Call(func=ast.Attribute(value=ast.Name(id="__comp", ctx=ast.Load()), attr="append", ctx=ast.Load()),
                                      args=[e.elt], keywords=[]))
        body = [app]
        if g.ifs:
            test = g.ifs[0] if len(g.ifs) == 1 else ast.BoolOp(op=ast.And(), values=list(g.ifs))
            body = [ast.If(test=test, body=[app], orelse=[])]
        loop = ast.For(target=g.target, iter=g.iter, body=body, orelse=[])
        ast.copy_location(loop, e)
        ast.fix_missing_locations(loop)
        fr = Frame(frame.globals, frame, frame.qualname)
        fr.locals["__comp"] = []
        r = h(self, loop, fr, itv)
        if r is NotImplemented:
            raise Inapplicable("loop contract declined the comprehension")
        return fr.locals["__comp"]

    def e_SetComp(self, e, frame):
        out = set()
        self.comp(e.generators, frame, lambda fr: out.add(self.expr(e.elt, fr)))
        return out

    def e_DictComp(self, e, frame):
        out = {}

        def emit(fr):
            out[self.expr(e.key, fr)] = self.expr(e.value, fr)
        self.comp(e.generators, frame, emit)
        return out


class SymObject:
    """Base of symbolic heap objects (attribute access goes through the interpreter)."""

    def sym_getattr(self, interp, name):
        raise Inapplicable(f"attribute {name} of {type(self).__name__}")

    def sym_setattr(self, interp, name, value):
        raise Inapplicable(f"store to {name} of {type(self).__name__}")

    def sym_getitem(self, interp, k):
        raise Inapplicable("subscript of symbolic object")

    def sym_setitem(self, interp, k, v):
        raise Inapplicable("subscript store on symbolic object")


class SymIterable(SymObject):
    """A sequence of symbolic length; loops over it need an invariant (loop hook)."""


class SymTimedelta(SymObject):
    """datetime.timedelta(microseconds=t) for t >= 0 (assumed contract of the stdlib class):
    days*86400e6 + seconds*1e6 + microseconds == round_half_even(t), 0<=seconds<86400, 0<=us<1e6."""

    def __init__(self, us):
        p = cur()
        if isinstance(us, SNum):
            k = p.fresh_int("tdround")
            t = us.t
            p.assume(z3.And(z3.ToReal(k) - t <= z3.RealVal("1/2"), t - z3.ToReal(k) <= z3.RealVal("1/2")))
            total = k
            self.rounded = True
        else:
            total = zint(us)
            self.rounded = False
        self.total = total
        sec, micro = sym.sdivmod(SInt(total), 1000000)
        days, seconds = sym.sdivmod(sec, 86400)
        self.fields = {"days": days, "seconds": seconds, "microseconds": micro}

    def sym_getattr(self, interp, name):
        if name in self.fields:
            return self.fields[name]
        raise Inapplicable(f"timedelta.{name}")
