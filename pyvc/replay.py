"""./check --replay FILE: run the witness of a replay file against the real code of VERIF_REPO again.

A replay file names the property, the check (a contract, a ground / frame check or a bounded check)
and the obligation.  Replaying means:
  * contract witness with a valuation  -> the contract is run natively (ConcCase) on that valuation;
  * ground / frame obligation          -> that check is evaluated again, the named obligation looked up;
  * bounded failure                    -> that bounded check is run again, the recorded input looked up;
  * refuted VC without native witness  -> the contract is verified again, the named obligation looked up.
Prints REPRODUCED (exit 1) / NOT-REPRODUCED (exit 0) / CHECKER-ERROR (exit 3)."""
import importlib
import json
import os
import sys
from fractions import Fraction

from .report import CheckContext, BoundedResult, GroundResult, FrameResult
from .verify import run_concrete, Unconstructible, ContractResult, _jsonable


def _unjson(x):
    if isinstance(x, dict):
        if set(x) == {"fraction", "float"}:
            return Fraction(x["fraction"])
        return {k: _unjson(v) for k, v in x.items()}
    if isinstance(x, list):
        return [_unjson(v) for v in x]
    return x


class ReplayContext(CheckContext):
    def __init__(self, prop, root, rec):
        super().__init__(prop, os.environ.get("VERIF_TIER", "quick"), int(os.environ.get("VERIF_SEED", "0")), root)
        self.rec = rec
        self.target = rec["check"]
        self.outcome = None

    def prove(self, name, contract, **kw):
        if name != self.target:
            r = ContractResult(name)
            r.contract = contract
            return r
        w = self.rec.get("witness") or {}
        if "valuation" in w:
            try:
                c = run_concrete(contract, _unjson(w["valuation"]))
            except Unconstructible as e:
                self.outcome = ("error", f"valuation does not fit the contract's inputs any more: {e}")
                return ContractResult(name)
            failed = [n for n, ok in c.checks if not ok]
            self.outcome = ("reproduced" if failed else "not-reproduced",
                            {"failed_checks": failed, "exception": c.exception,
                             "results": [repr(r)[:200] for r in c.results]})
            return ContractResult(name)
        r = super().prove(name, contract, **kw)
        ob = self.rec["obligation"]
        bad = [vc for vc in r.vcs if vc.name == ob and vc.status == "refuted"]
        reps = [rep for rep in r.replays if rep["obligation"] == ob]
        if reps:
            self.outcome = ("reproduced", reps[0])
        elif bad:
            self.outcome = ("reproduced", {"obligation": ob, "status": "refuted again (no native witness)",
                                           "model": str(bad[0].model)[:800]})
        else:
            self.outcome = ("not-reproduced", {"obligation": ob, "statuses": r.named()})
        return r

    def _table(self, cls, name, fn):
        g = cls(name)
        if name != self.target:
            return g
        fn(g)
        ob = self.rec["obligation"]
        hit = [f for f in g.failed if str(f["obligation"]) == ob]
        self.outcome = ("reproduced", hit[0]) if hit else ("not-reproduced", {"obligations": g.obligations, "failed": len(g.failed)})
        return g

    def ground(self, name, fn):
        return self._table(GroundResult, name, fn)

    def frame(self, name, fn):
        return self._table(FrameResult, name, fn)

    def bounded(self, name, rule, fn, exhaustive=False):
        b = BoundedResult(name, rule)
        if name != self.target:
            return b
        try:
            fn(b)
        except Exception as e:                      # the harness stopped: failures recorded so far still count
            b.error = repr(e)
        want = json.dumps((self.rec.get("witness") or {}).get("input"), sort_keys=True, default=repr)
        hit = [f for f in b.failures if f is not None and json.dumps(_jsonable(f["input"]), sort_keys=True, default=repr) == want]
        if hit:
            self.outcome = ("reproduced", hit[0])
        else:
            self.outcome = ("not-reproduced", {"evaluations": b.evaluations, "failures_now": len(b.failures),
                                               "note": "the recorded input passes (or is no longer generated) on this tree"})
        return b


def replay_file(path, root):
    rec = json.load(open(path))
    prop = rec["property"]
    if rec.get("seed") is not None:
        os.environ.setdefault("VERIF_SEED", str(rec["seed"]))
    ctx = ReplayContext(prop, root, rec)
    mod = importlib.import_module(f"props.{prop}")
    try:
        mod.run(ctx)
    except Exception as e:
        if ctx.outcome is None:
            print(f"CHECKER-ERROR replay of {path}: {type(e).__name__}: {e}")
            return 3
    if ctx.outcome is None:
        print(f"CHECKER-ERROR no check named {rec['check']!r} in props/{prop}.py")
        return 3
    kind, detail = ctx.outcome
    if kind == "error":
        print(f"CHECKER-ERROR {detail}")
        return 3
    print(f"{kind.upper()} property={prop} check={rec['check']} obligation={rec['obligation']} repo={root}")
    print(json.dumps(_jsonable(detail), indent=1, default=repr)[:3000])
    return 1 if kind == "reproduced" else 0
