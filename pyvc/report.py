"""Check context: collects proved / ground / frame / bounded results for one property, applies the
verdict policy (DESIGN 2.9), known findings, writes evidence and replay files."""
import hashlib
import json
import os
import sys
import time
import traceback

from .verify import Verifier, run_concrete, Unconstructible, _jsonable

VERIF = os.path.dirname(os.path.dirname(os.path.abspath(__file__)))


class BoundedResult:
    def __init__(self, name, rule):
        self.name, self.rule = name, rule
        self.evaluations = 0
        self.nontrivial = set()
        self.failures = []          # dict(input=..., detail=...)
        self.samples = []
        self.exhaustive = False
        self.time = 0.0
        self.error = None

    def case(self, key, ok, detail=None, nontrivial=True, sample=None):
        """Record one evaluation.  key: hashable identity of the case."""
        self.evaluations += 1
        if nontrivial:
            self.nontrivial.add(key if isinstance(key, (str, int, tuple)) else repr(key))
        if len(self.samples) < 3 and sample is not None:
            self.samples.append(sample)
        if not ok and len(self.failures) < 400:
            self.failures.append({"input": _jsonable(sample if sample is not None else key), "detail": detail})
        elif not ok:
            self.failures.append(None)


    def guard(self, key, thunk, sample=None, nontrivial=True):
        """Evaluate one case; thunk() returns (ok, detail).  An exception raised by the code under
        test inside the case is a failure of that case (with the traceback tail as detail)."""
        try:
            with _deadline(CASE_SECONDS):
                ok, detail = thunk()
        except _CaseTimeout:
            # (the code under test did not come back: reported as a failed case - every property here is about calls
            # that return or raise; the budget is hundreds of times what a case takes)
            ok, detail = False, {"no_result_within_seconds": CASE_SECONDS}
        except Exception as e:
            ok, detail = False, {"exception": f"{type(e).__name__}: {e}",
                                 "where": traceback.format_exc(limit=3).strip().splitlines()[-3:]}
        self.case(key, ok, detail, nontrivial=nontrivial, sample=sample)


CASE_SECONDS = int(os.environ.get("VERIF_CASE_SECONDS", "300"))


class _CaseTimeout(BaseException):
    pass


class _deadline:
    """a wall-clock limit for one bounded case (main thread, SIGALRM; without it where signals are unavailable)"""

    def __init__(self, seconds):
        self.seconds = seconds
        self.active = False

    def __enter__(self):
        import signal
        import threading
        if threading.current_thread() is threading.main_thread() and hasattr(signal, "SIGALRM"):
            def on_alarm(signum, frame):
                raise _CaseTimeout()
            self.old = signal.signal(signal.SIGALRM, on_alarm)
            signal.alarm(self.seconds)
            self.active = True
        return self

    def __exit__(self, *exc):
        if self.active:
            import signal
            signal.alarm(0)
            signal.signal(signal.SIGALRM, self.old)
        return False


class GroundResult:
    """P-ground: complete evaluation of a closed obligation over finite constant tables."""

    def __init__(self, name):
        self.name = name
        self.obligations = 0
        self.failed = []
        self.undecided_list = []
        self.samples = []
        self.time = 0.0
        self.error = None

    def check(self, label, ok, detail=None):
        self.obligations += 1
        if len(self.samples) < 3:
            self.samples.append(label)
        if not ok:
            self.failed.append({"obligation": label, "detail": detail})

    def undecided(self, label, why):
        self.obligations += 1
        self.undecided_list.append((label, why))


class FrameResult(GroundResult):
    """P-frame: effect (reads/modifies) obligations discharged by the syntactic checker."""


class CheckContext:
    def __init__(self, prop, tier, seed, repo_root):
        self.prop, self.tier, self.seed, self.repo_root = prop, tier, seed, repo_root
        self.verifier = Verifier(repo_root)
        self.proofs, self.grounds, self.frames, self.bounded_results = [], [], [], []
        self.assumptions = []
        self.trusted = []
        self.t0 = time.time()
        self.internal_errors = []

    @property
    def thorough(self):
        return self.tier == "thorough"

    def assume(self, text):
        if text not in self.assumptions:
            self.assumptions.append(text)

    def trust(self, text):
        if text not in self.trusted:
            self.trusted.append(text)

    def prove(self, name, contract, **kw):
        r = self.verifier.prove(name, contract, **kw)
        r.contract = contract
        self.proofs.append(r)
        if os.environ.get("VERIF_VERBOSE"):
            from collections import Counter
            print(f"  [prove] {name}: paths={r.paths} vcs={dict(Counter(v.status for v in r.vcs))} "
                  f"inapplicable={len(r.inapplicable)} err={bool(r.error)} {r.time:.1f}s (vacuity guard {r.vacuity_time:.1f}s)", file=sys.stderr, flush=True)
            for pid, why in r.inapplicable[:3]:
                print(f"      inapplicable path{pid}: {why}", file=sys.stderr)
            for v in [v for v in r.vcs if v.status != "proved"][:4]:
                print(f"      {v.status} {v.name} path{v.path_id}: {v.note[:300]}", file=sys.stderr)
            if r.error:
                print("      " + r.error[-600:], file=sys.stderr)
        return r

    def ground(self, name, fn):
        g = GroundResult(name)
        t0 = time.time()
        try:
            fn(g)
        except Exception:
            g.error = traceback.format_exc(limit=6)
        g.time = time.time() - t0
        self.grounds.append(g)
        return g

    def frame(self, name, fn):
        g = FrameResult(name)
        t0 = time.time()
        try:
            fn(g)
        except Exception:
            g.error = traceback.format_exc(limit=6)
        g.time = time.time() - t0
        self.frames.append(g)
        return g

    def bounded(self, name, rule, fn, exhaustive=False):
        b = BoundedResult(name, rule)
        b.exhaustive = exhaustive
        t0 = time.time()
        try:
            fn(b)
        except Exception as e:
            b.error = traceback.format_exc(limit=8)
            # the harness only feeds inputs of the property's domain: when the code under test itself
            # raises on one (innermost frame inside the repository), that is a failing case, not an
            # undecided check
            tb = traceback.extract_tb(e.__traceback__)
            root = os.path.realpath(self.repo_root) + os.sep
            if tb and os.path.realpath(tb[-1].filename).startswith(root):
                b.evaluations += 1
                b.failures.append({"input": "the harness was stopped by an exception raised inside the code under test",
                                   "detail": {"exception": f"{type(e).__name__}: {e}"[:300],
                                              "raised_at": f"{os.path.relpath(tb[-1].filename, root)}:{tb[-1].lineno} in {tb[-1].name}",
                                              "called_from": [f"{os.path.basename(f.filename)}:{f.lineno}" for f in tb if not os.path.realpath(f.filename).startswith(root)][-2:]}})
        b.time = time.time() - t0
        self.bounded_results.append(b)
        return b


# ---------------------------------------------------------------------------------------------

def load_json(path, default):
    try:
        with open(path) as f:
            return json.load(f)
    except FileNotFoundError:
        return default


def finding_matches(f, prop, check, obligation, witness_text):
    if f.get("property") != prop:
        return False
    if f.get("check") and f["check"] != check:
        return False
    if f.get("obligation") and f["obligation"] != obligation:
        return False
    sig = f.get("witness_contains")
    if sig:
        sigs = sig if isinstance(sig, list) else [sig]
        if not all(s in witness_text for s in sigs):
            return False
    return True


def finish(ctx, lock_mode=False):
    """Apply the verdict policy, print the report, write evidence; returns the exit code."""
    prop = ctx.prop
    lock = load_json(os.path.join(VERIF, "contracts", "obligations.lock.json"), {})
    locked = set(lock.get(prop, []))
    kf = load_json(os.path.join(VERIF, "known_findings.json"), {"findings": [], "fixed": []})
    findings = [f for f in kf.get("findings", []) if f.get("property") == prop]
    os.makedirs(os.path.join(VERIF, "replays"), exist_ok=True)
    os.makedirs(os.path.join(VERIF, "evidence"), exist_ok=True)

    violations, undecided, checker_errors, known_hits = [], [], [], {}
    proved_names = []
    n_vc = n_discharged = 0
    backends = {}
    solver_time = 0.0
    samples_vc = []
    functions, inlined, native = [], set(), set()
    float_modes = set()

    def report_violation(check, obligation, witness, unreplayed=False, solver_output=None):
        wtxt = json.dumps(_jsonable(witness), sort_keys=True, default=repr)
        for f in findings:
            if finding_matches(f, prop, check, obligation, wtxt):
                known_hits.setdefault(f["id"], f)
                return
        h = hashlib.sha256((check + obligation + wtxt).encode()).hexdigest()[:10]
        safe = lambda x: "".join(ch if ch.isalnum() or ch in "._-" else "_" for ch in x)[:80]
        path = os.path.join("replays", f"{prop}-{safe(check)}-{safe(obligation)}-{h}.json")
        with open(os.path.join(VERIF, path), "w") as fh:
            json.dump({"property": prop, "check": check, "obligation": obligation,
                       "witness": _jsonable(witness), "replayed_natively": not unreplayed,
                       "solver_output": solver_output, "repo": ctx.repo_root,
                       "seed": ctx.seed, "tier": ctx.tier}, fh, indent=1, default=repr)
        violations.append((check, obligation, path, unreplayed))

    for r in ctx.proofs:
        functions.extend(r.functions)
        inlined |= r.inlined
        native |= r.native
        float_modes.add(r.fsem)
        solver_time += r.solver_time
        if r.error:
            # the contract could not be run at all on this tree (function missing, engine failure)
            undecided.append((r.name, "-", "contract not runnable: " + r.error.strip().splitlines()[-1]))
            continue
        if r.crosscheck["mismatch"]:
            checker_errors.append(f"{r.name}: executor disagrees with CPython: {r.crosscheck['mismatch'][:2]}")
        if r.vacuous:
            checker_errors.append(f"{r.name}: obligations proved from unsatisfiable assumptions (vacuous): {r.vacuous[:4]}")
        for pid, why in r.inapplicable:
            undecided.append((r.name, f"path{pid}", "inapplicable: " + why))
        if r.truncated:
            undecided.append((r.name, "-", "path budget exhausted"))
        if not r.vcs and not r.inapplicable:
            checker_errors.append(f"{r.name}: contract generated no obligations (vacuous)")
        agg = r.named()
        for vc in r.vcs:
            n_vc += 1
            backends[vc.backend] = backends.get(vc.backend, 0) + 1
            if vc.status == "proved":
                n_discharged += 1
            if len(samples_vc) < 4:
                samples_vc.append({"contract": r.name, "obligation": vc.name, "path": vc.path_id,
                                   "status": vc.status, "goal": str(vc.goal)[:160]})
        for name, st in agg.items():
            full = f"{r.name}/{name}"
            if st == "proved" and not any(p == r.name for p, _, _ in undecided if _ != "-" or True) :
                proved_names.append(full)
            elif st == "proved":
                proved_names.append(full)
        for rep in r.replays:
            report_violation(r.name, rep["obligation"], rep)
        seen = set()
        for vc in r.unreplayed:
            if vc.name in seen or any(rep["obligation"] == vc.name for rep in r.replays):
                continue
            seen.add(vc.name)
            full = f"{r.name}/{vc.name}"
            out = {"model": str(vc.model)[:1500] if vc.model is not None else None, "note": vc.note,
                   "goal": str(vc.goal)[:500], "backend": vc.backend}
            if full in locked:
                report_violation(r.name, vc.name, {"obligation": full, "model": out["model"]},
                                 unreplayed=True, solver_output=out)
            else:
                undecided.append((r.name, vc.name, "refuted by the solver but not reproducible natively "
                                                   "and not discharged on the unchanged tree"))
        for vc in r.vcs:
            if vc.status == "unknown":
                undecided.append((r.name, vc.name, f"solver unknown ({vc.note})"))

    n_ground = n_ground_ok = 0
    for g in ctx.grounds + ctx.frames:
        kind = "frame" if g in ctx.frames else "ground"
        if g.error:
            undecided.append((g.name, "-", f"{kind} check not runnable: " + g.error.strip().splitlines()[-1]))
            continue
        if g.obligations == 0:
            checker_errors.append(f"{g.name}: {kind} check generated no obligations")
        n_ground += g.obligations
        n_ground_ok += g.obligations - len(g.failed) - len(g.undecided_list)
        for lab, why in g.undecided_list:
            undecided.append((g.name, lab, why))
        if not g.failed and not g.undecided_list:
            proved_names.append(f"{g.name}/*")
        for f in g.failed[:10]:
            # a failed frame obligation names source locations, not an input: no-failing-input-found
            report_violation(g.name, str(f["obligation"]), f, unreplayed=(kind == "frame"),
                             solver_output={"checker": "pyvc.frames", "detail": f.get("detail")} if kind == "frame" else None)

    evaluations = 0
    nontrivial = 0
    bsamples = []
    rules = []
    for b in ctx.bounded_results:
        if b.error:
            undecided.append((b.name, "-", "bounded check stopped: " + b.error.strip().splitlines()[-1]))
        evaluations += b.evaluations
        nontrivial += len(b.nontrivial)
        bsamples.extend(b.samples[:2])
        rules.append(f"{b.name}: {b.rule}" + (" [exhaustive]" if b.exhaustive else ""))
        if b.evaluations == 0 and not b.error:
            checker_errors.append(f"{b.name}: bounded check evaluated nothing")
        for f in b.failures:
            # every recorded failure is matched against the known findings; at most 12 new ones get a replay file
            if f is not None and sum(1 for v in violations if v[0] == b.name) < 12:
                report_violation(b.name, "contract", f)

    if lock_mode:
        return sorted(set(proved_names))

    missing = sorted(n for n in locked if n not in set(proved_names))
    for n in missing:
        if not any(n.startswith(c + "/") or c == n.split("/")[0] for c, _, _ in undecided) and \
                not any(n.split("/")[0] == v[0] or n.startswith(v[0] + "/") for v in violations) and \
                not any(n.split("/")[0] == f.get("check") or n.startswith(str(f.get("check")) + "/") for f in known_hits.values()):
            undecided.append((n, "-", "locked obligation was not generated on this tree"))

    wall = time.time() - ctx.t0
    for fid, f in known_hits.items():
        print(f"KNOWN-FINDING: property={prop} {f['text']}")
    for c, o, why in undecided[:40]:
        print(f"UNDECIDED obligation={c}/{o} reason={why}")
    for e in checker_errors:
        print(f"CHECKER-ERROR {e}")
    for c, o, path, unrep in violations:
        print(f"VIOLATION property={prop} replay={path}" + (" no-failing-input-found" if unrep else ""))

    all_proved = (n_vc + n_ground > 0 and n_vc == n_discharged and n_ground == n_ground_ok
                  and not undecided and not ctx.bounded_results)
    level = "proof" if (all_proved and getattr(ctx, "claim_proof", False)) else "other"
    expl = (f"contract-based deductive verification: {n_vc} solver VCs generated from the current AST of "
            f"{len({f['function'] for f in functions})} functions ({n_discharged} discharged), "
            f"{n_ground} ground/frame obligations over the repository's constant tables and effect "
            f"analysis ({n_ground_ok} hold); plus a BOUNDED stand-in (not proof): {evaluations} run-time "
            f"contract evaluations on the real functions ({nontrivial} distinct non-trivial). "
            f"Undecided obligations this run: {len(undecided)}.")
    evidence = {
        "property_id": prop, "tier": ctx.tier, "seed": ctx.seed, "level": level,
        "coverage": {
            "obligations": n_vc + n_ground, "discharged": n_discharged + n_ground_ok,
            "solver_vcs": n_vc, "solver_vcs_discharged": n_discharged,
            "ground_obligations": n_ground, "ground_discharged": n_ground_ok,
            "checker_cmd": f"./check {prop} --tier {ctx.tier}",
            "trusted_base": ctx.trusted + [f"z3/cvc5 back ends: {backends}",
                                           "pyvc executor encoding of the Python subset (cross-checked against CPython on every path)"],
            "evaluations": max(evaluations, 0), "distinct_nontrivial": nontrivial,
            "rule": " | ".join(rules) if rules else "no bounded part",
            "samples": (samples_vc + bsamples) or ["none"],
            "explanation": expl,
            "exhaustive": bool(ctx.bounded_results) and all(b.exhaustive for b in ctx.bounded_results),
            "functions_under_contract": functions,
            "inlined_callees": sorted(inlined), "native_calls": sorted(native),
            "float_modes": sorted(float_modes),
            "contracts": [{"name": r.name, "paths": r.paths, "vcs": len(r.vcs),
                           "proved": sum(v.status == "proved" for v in r.vcs),
                           "crosscheck": {k: (v if not isinstance(v, list) else len(v)) for k, v in r.crosscheck.items()},
                           "time_s": round(r.time, 3)} for r in ctx.proofs],
            "ground_checks": [{"name": g.name, "obligations": g.obligations, "failed": len(g.failed),
                               "time_s": round(g.time, 3)} for g in ctx.grounds + ctx.frames],
            "bounded_checks": [{"name": b.name, "evaluations": b.evaluations,
                                "distinct_nontrivial": len(b.nontrivial), "failures": len(b.failures),
                                "exhaustive": b.exhaustive, "time_s": round(b.time, 3)} for b in ctx.bounded_results],
            "solver_time_s": round(solver_time, 3),
            "undecided": [f"{c}/{o}: {w}" for c, o, w in undecided[:40]],
            "known_findings_printed": [f["id"] for f in known_hits.values()],
        },
        "assumptions": ctx.assumptions,
        "wall_s": round(wall, 3),
        "violations": len(violations),
    }
    evdir = os.path.join(VERIF, "evidence")
    if os.path.realpath(ctx.repo_root) != os.path.realpath("/repo"):
        # a scratch tree (seeded change, self-test): never overwrite the evidence of /repo
        evdir = os.path.join(VERIF, "replays", "evidence-" + os.path.basename(ctx.repo_root.rstrip("/")))
        os.makedirs(evdir, exist_ok=True)
    with open(os.path.join(evdir, f"{prop}.json"), "w") as fh:
        json.dump(evidence, fh, indent=1, default=repr)
    print(f"{prop} tier={ctx.tier}: VCs {n_discharged}/{n_vc} discharged, ground/frame {n_ground_ok}/{n_ground}, "
          f"bounded evaluations {evaluations} ({nontrivial} distinct non-trivial), undecided {len(undecided)}, "
          f"known findings {len(known_hits)}, violations {len(violations)}, {wall:.1f}s")
    if checker_errors:
        return 3
    if violations:
        return 1
    return 0
