"""Contracts, cases and the verifier driver.

A *contract* is a Python function `contract(c)` written in /verif/props/*.py.  It builds the
inputs through ghost creators (`c.digits`, `c.int`, `c.real`, `c.pick`, ...), calls the REAL
function with `c.call(fn, *args)` and states postconditions with `c.ensure(name, cond)`.

The same text runs in two modes:
  * symbolic  (SymCase): inputs are proxies, `c.call` interprets the function's AST, `ensure`
    registers a verification condition on the current path;
  * concrete  (ConcCase): inputs come from a valuation (a solver model, or an enumerated /
    sampled point of the bounded stand-in), `c.call` calls the real function natively and
    `ensure` evaluates to a bool.  Used for replaying counter-models, for the CPython
    cross-check of the executor, and for the bounded run-time checks.
"""
import ast
import hashlib
import inspect
import os
import time
import traceback
from fractions import Fraction

import z3

from . import sym
from .engine import discharge, explore, model_value
from .interp import Interp, function_ast, module_ast
from .sym import Inapplicable, PathEnd, SBool, SInt, SNum, SStr, SEnum, Digits, Fmt, Lit, cur


_STUB_NAMES_OK = {}


def require_callees(contracts):
    """every callee a contract replaces by a stub (keyed 'module:Qual.name') must still exist under that name in the tree
    under check: a stub for a name that is gone would silently never run, and the contract would then judge the real callee
    by the stub's protocol - a renamed private helper must make the contract *undecided*, not a violation"""
    import importlib
    for key in list(contracts):
        if not isinstance(key, str) or ":" not in key:
            continue
        if True:
            mod, qual = key.split(":", 1)
            try:
                obj = importlib.import_module(mod)
                for part in qual.split("."):
                    obj = getattr(obj, part)
                ok = type(obj).__name__ != "MissingFunction"      # (the placeholder cli.py puts where a props module names something that is gone)
            except Exception:
                ok = False
        if not ok:
            raise Inapplicable(f"stubbed callee {key} no longer exists under this name")


class Raised:
    """Outcome of c.call when the function raised a declared exception."""

    def __init__(self, exc):
        self.exc = exc

    def __repr__(self):
        return f"Raised({type(self.exc).__name__}: {self.exc})"


class SDigits(SStr):
    __slots__ = ()

    @property
    def val(self):
        return sym.mkint(self.atoms[0].val)

    @property
    def scale(self):
        sc = self.atoms[0].scale
        return sc if isinstance(sc, int) else SInt(sc)


class CDigits(str):
    @property
    def val(self):
        return int(self)

    @property
    def scale(self):
        return 10 ** len(self)


class Unconstructible(Exception):
    """The valuation cannot be turned into concrete inputs (spurious model)."""


# ------------------------------------------------------------------------------- symbolic mode

class SymCase:
    symbolic = True

    def __init__(self, path, interp):
        self.p, self.interp = path, interp
        self.inputs = path.ghost.setdefault("inputs", {})     # name -> descriptor
        self.results = path.ghost.setdefault("results", [])

    # ghost inputs -------------------------------------------------------------
    def digits(self, name, lo=1, hi=None, n=None):
        if n is not None:
            lo = hi = n
        v = z3.Int(f"{name}.val")
        self.p.assume(v >= 0)
        if hi is not None and lo == hi:
            self.p.assume(v < 10 ** hi)
        scale = None
        if hi is None or lo != hi:
            # ghost: scale = 10**length (only its defining bounds are known to the solver)
            scale = z3.Int(f"{name}.scale")
            self.p.assume(z3.And(scale >= 10 ** lo, v < scale))
            if hi is not None:
                self.p.assume(scale <= 10 ** hi)
        self.inputs[name] = ("digits", lo, hi, v, scale)
        return SDigits([Digits(name, lo, hi, v, scale)])

    def int(self, name, lo=None, hi=None):
        v = z3.Int(name)
        if lo is not None:
            self.p.assume(v >= lo)
        if hi is not None:
            self.p.assume(v <= hi)
        self.inputs[name] = ("int", v, lo, hi)
        return SInt(v)

    def real(self, name, lo=None, hi=None, kind="float"):
        v = z3.Real(name)
        if lo is not None:
            self.p.assume(v >= sym.zreal(lo))
        if hi is not None:
            self.p.assume(v <= sym.zreal(hi))
        self.inputs[name] = ("real", v, kind, lo, hi)
        return SNum(v, kind)

    def bool(self, name):
        v = z3.Bool(name)
        self.inputs[name] = ("bool", v)
        return SBool(v)

    def pick(self, name, options):
        options = list(options)
        i = self.p.choose(len(options), name)
        self.inputs[name] = ("pick", i)
        return options[i]

    def text(self, name, pool=None):
        """an arbitrary str, known only through the observations made of it"""
        from .astr import AStr
        a = AStr(name)
        self.inputs[name] = ("astr", a.feats, pool)
        return a

    def enum(self, name, cls):
        """a symbolic member of an Enum class"""
        v = z3.Int(name)
        self.p.assume(z3.And(v >= 0, v < len(list(cls))))
        self.inputs[name] = ("enum", v, cls)
        return SEnum(cls, v)

    def new(self, cls, **fields):
        obj = cls.__new__(cls)
        for k, v in fields.items():
            object.__setattr__(obj, k, v) if False else setattr(obj, k, v)
        _PARTIAL[cls.__name__] = _PARTIAL.get(cls.__name__, set()) | set(fields)
        return obj

    # assumptions / obligations --------------------------------------------------
    def assume(self, cond):
        if isinstance(cond, bool):
            if not cond:
                raise PathEnd("assume False")
            return
        self.p.assume_or_end(sym.zbool(cond))

    def ratio(self, a, b):
        """exact rational a / b"""
        return SNum(sym.zreal(a) / sym.zreal(b), "frac")

    def trunc(self, x):
        """int() of an exact rational"""
        return sym.strunc(x) if sym.is_sym(x) else int(x)

    def exact(self, x):
        """the exact mathematical value of a number, for arithmetic inside contracts"""
        return SNum(sym.zreal(x), "frac") if sym.is_sym(x) else Fraction(x)

    def ensure(self, name, cond):
        if not isinstance(cond, (bool, SBool, z3.BoolRef)):
            cond = self.interp.truth(cond)
        self.p.require(name, cond)

    def is_int(self, v):
        return isinstance(v, SInt) or (isinstance(v, int) and not isinstance(v, bool))

    def is_str(self, v):
        return isinstance(v, (str, SStr))

    def as_bool(self, v):
        """truthiness of a value as a (possibly symbolic) bool, without branching when possible"""
        if isinstance(v, (bool, SBool)):
            return v
        return self.interp.truth(v)

    def conj(self, *xs):
        xs = [x for x in xs if x is not True]
        if any(x is False for x in xs):
            return False
        if not xs:
            return True
        return sym.mkbool(z3.And(*[sym.zbool(x) for x in xs]))

    def disj(self, *xs):
        xs = [x for x in xs if x is not False]
        if any(x is True for x in xs):
            return True
        if not xs:
            return False
        return sym.mkbool(z3.Or(*[sym.zbool(x) for x in xs]))

    def neg(self, x):
        return sym.snot(x) if isinstance(x, SBool) else (not x)

    def iff(self, a, b):
        if isinstance(a, bool) and isinstance(b, bool):
            return a == b
        return sym.mkbool(sym.zbool(a) == sym.zbool(b))

    def implies(self, a, b):
        return self.disj(self.neg(a), b)

    def entails(self, cond):
        return self.p.entails(sym.zbool(cond))

    def truth(self, v):
        return self.interp.truth(v)

    # calling the function under contract -------------------------------------------
    def call(self, fn, *args, raises=(), compare=True, **kwargs):
        """compare: how the CPython cross-check compares this result with the native one:
        True = equal values, 'truth' = equal truthiness, False = not compared (uninterpreted)"""
        if isinstance(fn, (staticmethod, classmethod)):
            fn = fn.__func__
        self.p.ghost.setdefault("compare", []).append(compare)
        if not isinstance(fn, type):
            _check_signature(fn, args, kwargs)
        try:
            if inspect.ismethod(fn) or isinstance(fn, type):
                r = self.interp.call(fn, list(args), kwargs)
            else:
                r = self.interp.call_function(fn, tuple(args), kwargs)
        except (PathEnd, Inapplicable):
            raise
        except raises as e:
            r = Raised(e)
        except Exception as e:
            why = _harness_limit(e)
            if why:
                raise Inapplicable(why)
            # an exception the contract does not allow: failed obligation on this path
            self.p.ghost["exception"] = f"{type(e).__name__}: {e}"
            vc = self.p.require("no_exception", False, kind="exc")
            vc.note = "raised " + self.p.ghost["exception"] + " at " + \
                " <- ".join(traceback.format_exc(limit=-4).strip().splitlines()[-7:-1:2])[:300]
            vc.inputs = dict(self.inputs)
            raise PathEnd("unexpected exception")
        self.results.append(r)
        return r

    def view_fields(self, s, shape):
        return view_fields(s, shape, self)

    def run_region(self, fn, first, last, locals_, stmt_hooks=None, raises=()):
        """Execute the statements of fn's body from the first one matching `first(stmt)` to the
        first later one matching `last(stmt)` (both predicates over ast nodes) in a frame with the
        given locals.  Returns the frame's locals, or Raised.  Anchors that do not match uniquely
        make the obligation inapplicable (undecided), never a violation."""
        fn = getattr(fn, "__func__", fn)
        node = function_ast(fn)
        body = node.body
        a = [i for i, st in enumerate(body) if first(st)]
        if len(a) != 1:
            raise Inapplicable(f"region start anchor matches {len(a)} statements of {fn.__qualname__}")
        b = [i for i, st in enumerate(body) if i >= a[0] and last(st)]
        if not b:
            raise Inapplicable(f"region end anchor does not match in {fn.__qualname__}")
        from .interp import Frame, _Return
        q = f"{fn.__module__}:{fn.__qualname__}"
        frame = Frame(fn.__globals__, None, q, node)
        frame.locals.update(locals_)
        if stmt_hooks:
            for pred, hook in stmt_hooks:
                for st in ast.walk(node):
                    if isinstance(st, ast.stmt) and pred(st):
                        self.interp.stmt_hooks[(q, st.lineno)] = hook
        self.interp._loop_counters.append(0)
        try:
            self.interp.block(body[a[0]:b[0] + 1], frame)
        except (PathEnd, Inapplicable):
            raise
        except _Return as r:
            frame.locals["__return__"] = r.v
        except raises as e:
            return Raised(e)
        except Exception as e:
            why = _harness_limit(e)
            if why:
                raise Inapplicable(why)
            self.p.ghost["exception"] = f"{type(e).__name__}: {e}"
            vc = self.p.require("no_exception", False, kind="exc")
            vc.note = "raised " + self.p.ghost["exception"]
            raise PathEnd("unexpected exception")
        finally:
            self.interp._loop_counters.pop()
        return frame.locals


# ------------------------------------------------------------------------------- concrete mode

class ConcCase:
    symbolic = False

    def __init__(self, valuation):
        self.val = valuation
        self.checks = []          # (name, bool)
        self.results = []
        self.exception = None

    def _get(self, name):
        if name not in self.val:
            raise Unconstructible(f"no value for {name}")
        return self.val[name]

    def digits(self, name, lo=1, hi=None, n=None):
        if n is not None:
            lo = hi = n
        s = self._get(name)
        if not (s.isdigit() and s.isascii() and len(s) >= lo and (hi is None or len(s) <= hi)):
            raise Unconstructible(f"{name}={s!r} outside digits[{lo},{hi}]")
        return CDigits(s)

    def int(self, name, lo=None, hi=None):
        v = self._get(name)
        if (lo is not None and v < lo) or (hi is not None and v > hi):
            raise Unconstructible(f"{name}={v} out of range")
        return v

    def real(self, name, lo=None, hi=None, kind="float"):
        v = self._get(name)
        if kind == "float":
            v = float(v)
        if (lo is not None and v < lo) or (hi is not None and v > hi):
            raise Unconstructible(f"{name}={v} out of range")
        return v

    def bool(self, name):
        return bool(self._get(name))

    def pick(self, name, options):
        return list(options)[self._get(name)]

    def enum(self, name, cls):
        return list(cls)[self._get(name)]

    def text(self, name, pool=None):
        return self._get(name)

    def new(self, cls, **fields):
        obj = cls.__new__(cls)
        for k, v in fields.items():
            setattr(obj, k, v)
        _PARTIAL[cls.__name__] = _PARTIAL.get(cls.__name__, set()) | set(fields)
        return obj

    def assume(self, cond):
        if not cond:
            raise Unconstructible("assumption false under the valuation")

    def ratio(self, a, b):
        return Fraction(a, b) if isinstance(a, int) and isinstance(b, int) else Fraction(a) / Fraction(b)

    def trunc(self, x):
        return int(x)

    def exact(self, x):
        return Fraction(x)

    def ensure(self, name, cond):
        self.checks.append((name, bool(cond)))

    def is_int(self, v):
        return isinstance(v, int) and not isinstance(v, bool)

    def is_str(self, v):
        return isinstance(v, str)

    def as_bool(self, v):
        return bool(v)

    def conj(self, *xs):
        return all(bool(x) for x in xs)

    def disj(self, *xs):
        return any(bool(x) for x in xs)

    def neg(self, x):
        return not x

    def iff(self, a, b):
        return bool(a) == bool(b)

    def implies(self, a, b):
        return (not a) or bool(b)

    def entails(self, cond):
        return bool(cond)

    def truth(self, v):
        return bool(v)

    def call(self, fn, *args, raises=(), compare=True, **kwargs):
        if isinstance(fn, (staticmethod, classmethod)):
            fn = fn.__func__
        if not isinstance(fn, type):
            try:
                _check_signature(fn, args, kwargs)
            except Inapplicable:
                raise Unconstructible("signature changed")
        try:
            r = fn(*args, **kwargs)
        except raises as e:
            r = Raised(e)
        except Exception as e:
            if _harness_limit(e):
                raise Unconstructible(_harness_limit(e))
            self.exception = f"{type(e).__name__}: {e}"
            self.checks.append(("no_exception", False))
            raise _ConcStop()
        self.results.append(r)
        return r

    def view_fields(self, s, shape):
        return view_fields(s, shape, self)


_PARTIAL = {}          # class name -> attributes the contracts supply when they build an object without __init__


def _harness_limit(e):
    """an AttributeError for an attribute of an object a contract built without running __init__ (it supplies only the
    attributes the unchanged code reads): the changed code reads another one - the contract does not apply to this
    tree (undecided); the bounded part exercises real objects"""
    if isinstance(e, AttributeError):
        import re as _re
        m = _re.match(r"'(\w+)' object has no attribute '(\w+)'", str(e))
        if m and m.group(1) in _PARTIAL and m.group(2) not in _PARTIAL[m.group(1)]:
            return f"contract-built {m.group(1)} has no attribute {m.group(2)!r} (supplied: {sorted(_PARTIAL[m.group(1)])})"
    return None


def _check_signature(fn, args, kwargs):
    """a contract calls the function the way the unchanged tree defines it; when the parameters no longer bind (a
    private helper was given another signature) the contract does not apply to this tree: undecided, not a violation"""
    try:
        target = fn
        sig = inspect.signature(target)
        sig.bind(*args, **kwargs)
    except TypeError as e:
        raise Inapplicable(f"the contract's call does not fit the signature of {getattr(fn, '__qualname__', fn)}: {e}")
    except ValueError:
        pass            # (no signature available: builtins)


class _ConcStop(Exception):
    pass


def run_concrete(contract, valuation):
    """Run a contract natively.  Returns (checks, results, exception-text) or raises Unconstructible."""
    c = ConcCase(valuation)
    try:
        contract(c)
    except _ConcStop:
        pass
    return c


# ------------------------------------------------------------------------------- shaped views

def view_fields(s, shape, c):
    """Read a string as a sequence of fields.  shape: list of literals (str) and ('d', width)
    entries (width int = exactly that many digits, None = one or more).  Returns the list of field
    values (ints / SInt) or None when the string provably does not have the shape; the side
    conditions needed (a formatted number fits its width) are entailment-checked, and a string
    whose shape cannot be decided raises Inapplicable."""
    if isinstance(s, str):
        import re
        rx = "".join(re.escape(x) if isinstance(x, str) else
                     (r"(\d{%d})" % x[1] if x[1] is not None else r"(\d+)") for x in shape)
        m = re.fullmatch(rx, s, re.ASCII)
        if not m:
            return None
        return [int(g) for g in m.groups()]
    atoms = list(SStr.lift(s).atoms)
    vals = []
    i = 0
    for item in shape:
        if isinstance(item, str):
            if i < len(atoms) and isinstance(atoms[i], Lit) and atoms[i].s.startswith(item):
                rest = atoms[i].s[len(item):]
                if rest:
                    atoms[i] = Lit(rest)
                else:
                    i += 1
                continue
            return None if (i < len(atoms) and isinstance(atoms[i], Lit)) else _undecided(s, shape)
        width = item[1]
        if i >= len(atoms):
            return None
        a = atoms[i]
        if isinstance(a, Lit):
            import re
            m = re.match(r"\d{%d}" % width if width is not None else r"\d+", a.s, re.ASCII)
            if not m:
                return None
            vals.append(int(m.group(0)))
            rest = a.s[m.end():]
            if rest:
                if width is None and rest[0].isdigit():
                    return None
                atoms[i] = Lit(rest)
            else:
                i += 1
            continue
        if isinstance(a, Fmt):
            if not cur().entails(a.val >= 0):
                return _undecided(s, shape)
            if width is not None:
                if a.lo() > width:
                    return None
                if not cur().entails(a.val < 10 ** width) or a.lo() != width:
                    if cur().entails(a.val >= 10 ** width):
                        return None
                    return _undecided(s, shape)
            vals.append(sym.mkint(a.val))
            i += 1
            continue
        if isinstance(a, Digits):
            if width is not None and not (a._lo == a._hi == width):
                return _undecided(s, shape)
            vals.append(sym.mkint(a.val))
            i += 1
            continue
        return _undecided(s, shape)
    if i != len(atoms):
        return None
    return vals


def _undecided(s, shape):
    raise Inapplicable(f"cannot decide whether {s!r} has shape {shape}")


# ------------------------------------------------------------------------------- model -> valuation

def concretizable(inputs):
    """Extra constraints that make a model concretizable: ghost scales are powers of ten."""
    cs = []
    for name, d in inputs.items():
        if d[0] == "digits" and d[4] is not None:
            lo, hi, scale = d[1], d[2], d[4]
            top = (hi if hi is not None else lo + 8)
            cs.append(z3.Or([scale == 10 ** k for k in range(lo, top + 1)]))
    return cs


def valuation_from_model(model, inputs):
    val = {}
    for name, d in inputs.items():
        kind = d[0]
        if kind == "digits":
            _, lo, hi, v, scale = d
            n = model_value(model, v)
            s = str(n)
            if len(s) < lo:
                s = s.zfill(lo)
            if scale is not None:
                sc = model_value(model, scale)
                width = len(str(sc)) - 1
                if sc != 10 ** width:
                    # the ghost scale is only bounded, not pinned to a power of ten: take the
                    # smallest power of ten that is consistent with the value
                    width = max(lo, len(str(n)))
                if len(s) < width and (hi is None or width <= hi):
                    s = s.zfill(width)
            if hi is not None and len(s) > hi:
                raise Unconstructible(f"{name}: value {n} does not fit {hi} digits")
            val[name] = s
        elif kind == "int":
            val[name] = model_value(model, d[1])
        elif kind == "real":
            val[name] = model_value(model, d[1])
        elif kind == "bool":
            val[name] = bool(model_value(model, d[1]))
        elif kind == "pick":
            val[name] = d[1]
        elif kind == "enum":
            val[name] = model_value(model, d[1])
        elif kind == "astr":
            from .astr import native_features
            feats, pool = d[1], d[2] or []
            want = {}
            for key, t in feats:
                v = model_value(model, t)
                want[key] = v
            keys = [k for k, _ in feats]
            found = None
            for cand in pool:
                nf = native_features(cand, keys)
                if all(nf[k] is None or nf[k] == want[k] for k in keys):
                    found = cand
                    break
            if found is None:
                raise Unconstructible(f"no candidate string has the features of the model for {name}")
            val[name] = found
    return val


def concretize(x, model):
    """Concrete Python value of a symbolic result under a model (None if not supported)."""
    if isinstance(x, SInt):
        return model_value(model, x.t)
    if isinstance(x, SBool):
        return bool(model_value(model, x.t))
    if isinstance(x, SNum):
        return model_value(model, x.t)
    if isinstance(x, SEnum):
        return list(x.cls)[model_value(model, x.t)]
    if isinstance(x, SStr):
        out = ""
        for a in x.atoms:
            if isinstance(a, Lit):
                out += a.s
            elif isinstance(a, Digits):
                s = str(model_value(model, a.val))
                out += s.zfill(a._lo)
            elif isinstance(a, Fmt):
                out += format(model_value(model, a.val), "0%dd" % a.width)
            else:
                return None
        return out
    if isinstance(x, (tuple, list)):
        return type(x)(concretize(e, model) for e in x)
    if isinstance(x, (int, str, bool, float, type(None), Fraction)):
        return x
    return NotImplemented


# ------------------------------------------------------------------------------- verifier

def args_by_name(fn, args, kwargs):
    """the arguments of a stubbed call by PARAMETER NAME (defaults applied), however the call site passed them -
    positionally or by keyword; a call that does not fit the callee's signature, or a parameter the contract asks for
    that no longer exists, makes the contract inapplicable (undecided), never wrong"""
    fn = getattr(fn, "__func__", fn)
    try:
        ba = inspect.signature(fn).bind(*args, **kwargs)
    except TypeError as e:
        raise Inapplicable(f"stubbed call does not fit {getattr(fn, '__qualname__', fn)}: {e}")
    ba.apply_defaults()

    class _Args(dict):
        def __missing__(self, k):
            raise Inapplicable(f"{getattr(fn, '__qualname__', fn)} has no parameter {k!r} any more")
    return _Args(ba.arguments)


def source_info(fn):
    if type(fn).__name__ == "MissingFunction":
        raise Inapplicable(f"{fn.where}.{fn.__name__} no longer exists under this name")
    fn = getattr(fn, "__func__", fn)
    node = function_ast(fn)
    tree, index, src = module_ast(fn.__code__.co_filename)
    seg = ast_segment(src, node)
    return {"function": f"{fn.__module__}:{fn.__qualname__}", "file": fn.__code__.co_filename,
            "lines": [node.lineno, node.end_lineno], "sha256": hashlib.sha256(seg.encode()).hexdigest()[:16]}


def ast_segment(src, node):
    lines = src.splitlines()
    return "\n".join(lines[node.lineno - 1:node.end_lineno])


class ContractResult:
    def __init__(self, name):
        self.name = name
        self.vcs = []
        self.paths = 0
        self.inapplicable = []
        self.crosscheck = {"paths": 0, "agree": 0, "skipped": 0, "mismatch": []}
        self.replays = []            # confirmed concrete counterexamples
        self.unreplayed = []         # refuted VCs without a native witness
        self.functions = []
        self.inlined = set()
        self.native = set()
        self.fsem = "std"
        self.float_ops = 0
        self.time = 0.0
        self.solver_time = 0.0
        self.error = None
        self.truncated = False
        self.vacuous = []
        self.vacuity_time = 0.0

    def named(self):
        """name -> aggregated status over paths."""
        agg = {}
        for vc in self.vcs:
            st = agg.get(vc.name)
            order = {"refuted": 3, "unknown": 2, "proved": 1}
            if st is None or order[vc.status] > order[st]:
                agg[vc.name] = vc.status
        return agg


class Verifier:
    def __init__(self, repo_root):
        self.repo_root = repo_root
        self.results = []

    def prove(self, name, contract, functions=(), fsem="std", contracts=None, loop_hooks=None,
              max_paths=None, crosscheck=True, setup_interp=None, path_solver=None):
        """Explore `contract` symbolically, discharge every VC, cross-check against CPython and
        replay counter-models natively."""
        res = ContractResult(name)
        res.fsem = fsem
        t0 = time.time()
        try:
            res.functions = [source_info(f) for f in functions]
        except Inapplicable as e:
            res.error = f"extract: {e}"
            self.results.append(res)
            return res
        inlined, interp_box = set(), {}

        def run(path):
            interp = Interp(self.repo_root, contracts=dict(contracts or {}), inline_log=inlined)
            if loop_hooks:
                interp.loop_hooks.update(loop_hooks)
            if setup_interp:
                setup_interp(interp)
            interp_box["i"] = interp
            c = SymCase(path, interp)
            try:
                contract(c)
            finally:
                res.native |= interp.native_calls
                res.float_ops += path.fsem.ops
            return "done"

        try:
            cr = explore(name, run, fsem=fsem, max_paths=max_paths, solver_options=path_solver)
        except Exception:
            res.error = "explore: " + traceback.format_exc(limit=8)
            self.results.append(res)
            return res
        res.paths, res.inapplicable, res.truncated = cr.paths, cr.inapplicable, cr.truncated
        res.inlined = inlined
        res.solver_time = cr.solver_time
        for vc in cr.vcs:
            discharge(vc)
            res.solver_time += vc.time
        res.vcs = cr.vcs
        # vacuity guard: the assumptions of the last obligation of every path (a superset of those of
        # the earlier ones on that path) must be satisfiable, else everything "proved" there is void
        last = {}
        for vc in cr.vcs:
            if z3.is_false(z3.simplify(vc.goal)):
                continue        # `ensure(False)` on a branch: proving it IS proving the branch infeasible
            last[vc.path_id] = vc
        for pid_, vc in last.items():
            if vc.status != "proved" or res.vacuity_time > 3.0:
                continue
            sv = z3.Solver()
            sv.set("timeout", 800)
            for a in vc.assumptions:
                sv.add(a)
            t1 = time.time()
            if sv.check() == z3.unsat:
                res.vacuous.append(f"path{pid_} (at obligation {vc.name})")
            res.solver_time += time.time() - t1
            res.vacuity_time += time.time() - t1
        # counter-models -> native replay
        searched = {}
        for vc in cr.vcs:
            if vc.status != "refuted":
                continue
            oc = next((o for o in cr.outcomes if o["path"] == vc.path_id), None)
            inputs = None
            for o in cr.outcomes:
                if o["path"] == vc.path_id:
                    inputs = o["ghost"].get("inputs")
            if inputs is None:
                inputs = getattr(vc, "inputs", None)
            rep = None
            if vc.model is not None and inputs is not None:
                extra = concretizable(inputs)
                if extra:
                    s2 = z3.Solver()
                    s2.set("timeout", 3000)
                    for a in vc.assumptions:
                        s2.add(a)
                    s2.add(z3.Not(vc.goal))
                    s2.add(*extra)
                    if s2.check() == z3.sat:
                        vc.model = s2.model()
                rep = self._replay(contract, vc, inputs)
            if rep is None and inputs is not None and not any(r_["obligation"] == vc.name for r_ in res.replays) \
                    and searched.get(vc.name, 0) < 2:
                searched[vc.name] = searched.get(vc.name, 0) + 1
                rep = self._native_search(contract, vc, inputs, budget_s=2.0)
            if rep is not None:
                res.replays.append(rep)
            else:
                res.unreplayed.append(vc)
        # paths that left the verifiable subset stay undecided - but the contract still runs natively: look
        # for an input of such a path on which the real code fails one of the contract's clauses
        budget = 3
        for pid_, why in cr.inapplicable:
            inputs = cr.inapplicable_inputs.get(pid_)
            if not inputs or budget == 0:
                continue
            budget -= 1

            import types
            rep = self._native_search(contract, types.SimpleNamespace(name=None, case=f"{name}/path{pid_}", model=None),
                                      inputs, budget_s=1.5)
            if rep is not None:
                rep["found_by"] = f"native search on a path outside the verifiable subset ({why})"
                if not any(r_["obligation"] == rep["obligation"] for r_ in res.replays):
                    res.replays.append(rep)
        # CPython cross-check of the executor on every completed path
        if crosscheck:
            for o in cr.outcomes:
                self._crosscheck(contract, o, res)
        res.time = time.time() - t0
        self.results.append(res)
        return res

    def _replay(self, contract, vc, inputs):
        try:
            val = valuation_from_model(vc.model, inputs)
            c = run_concrete(contract, val)
        except Unconstructible:
            return None
        except Exception as e:
            return None
        failed = [n for n, ok in c.checks if not ok]
        if vc.name in failed or (vc.name == "no_exception" and c.exception):
            return {"obligation": vc.name, "case": vc.case, "valuation": _jsonable(val),
                    "failed_checks": failed, "exception": c.exception,
                    "results": [_short(r) for r in c.results]}
        return None

    def _native_search(self, contract, vc, inputs, budget_s=4.0, trials=6000):
        """The solver refuted an obligation but its model is not a native witness (typically: the
        model point lives in the slack of the float error model).  Look for a native witness of the
        SAME obligation by running the contract on valuations drawn from the declared input domains
        (boundary-biased, and one-input mutations of the model point).  A hit is a genuine failing
        input of the real code; no hit leaves the obligation 'refuted without native witness'."""
        import random
        rng = random.Random(int(os.environ.get("VERIF_SEED", "0")) * 7919 + len(vc.name or ""))
        try:
            base = valuation_from_model(vc.model, inputs) if vc.model is not None else None
        except Exception:
            base = None

        def draw(d):
            kind = d[0]
            if kind == "digits":
                lo, hi = d[1], d[2]
                n = rng.randint(lo, hi if hi is not None else lo + 7)
                mode = rng.randrange(6)
                if n == 0:
                    return ""
                if mode == 0:
                    return "9" * n
                if mode == 1:
                    return "0" * (n - 1) + "1"
                if mode == 2:
                    return rng.choice("123456789") + "0" * (n - 1)
                if mode == 3:
                    return ("0" * n + str(rng.randint(0, 60)))[-n:]
                return "".join(rng.choice("0123456789") for _ in range(n))
            if kind == "int":
                lo, hi = (d[2], d[3]) if len(d) > 3 else (None, None)
                a = lo if lo is not None else -(10 ** rng.randint(1, 12))
                b = hi if hi is not None else 10 ** rng.randint(1, 12)
                cands = [a, b, min(b, a + 1), max(a, b - 1), rng.randint(a, b)]
                if a <= 0 <= b:
                    cands += [0, min(b, 1), max(a, -1)]
                span = b - a
                if span > 1000:
                    cands += [a + rng.randint(0, 10 ** rng.randint(1, len(str(span)) - 1)) for _ in range(4)]
                return rng.choice(cands)
            if kind == "real":
                lo, hi = (d[3], d[4]) if len(d) > 4 else (None, None)
                a = float(lo) if lo is not None else -1e6
                b = float(hi) if hi is not None else 1e6
                m = rng.randrange(4)
                x = a + (b - a) * rng.random() if m else rng.choice([a, b, (a + b) / 2])
                if m == 2:
                    x = round(x, rng.randint(0, 3))
                if m == 3:
                    x = float(int(x)) + rng.choice([0.0, 0.5, 1 / 3, 0.1, 0.999999])
                x = min(max(x, a), b)
                return x if d[2] == "float" else Fraction(x).limit_denominator(10 ** 6)
            if kind == "bool":
                return rng.random() < 0.5
            if kind == "pick":
                return d[1]
            if kind == "enum":
                return rng.randrange(len(list(d[2])))
            if kind == "astr":
                pool = d[2] or []
                if not pool:
                    raise Unconstructible("no pool")
                return rng.choice(pool)
            raise Unconstructible(kind)

        t0 = time.time()
        names = list(inputs)
        for k in range(trials):
            if time.time() - t0 > budget_s:
                break
            try:
                if base is not None and k % 2 == 0 and names:
                    val = dict(base)
                    for nm in rng.sample(names, min(len(names), rng.randint(1, 2))):
                        val[nm] = draw(inputs[nm])
                else:
                    val = {nm: draw(inputs[nm]) for nm in names}
                c = run_concrete(contract, val)
            except Unconstructible:
                continue
            except Exception:
                continue
            failed = [n for n, ok in c.checks if not ok]
            if vc.name is None and (failed or c.exception):
                return {"obligation": failed[0] if failed else "no_exception", "case": vc.case, "valuation": _jsonable(val),
                        "failed_checks": failed, "exception": c.exception, "results": [_short(r) for r in c.results]}
            if vc.name in failed or (vc.name == "no_exception" and c.exception):
                return {"obligation": vc.name, "case": vc.case, "valuation": _jsonable(val),
                        "failed_checks": failed, "exception": c.exception,
                        "results": [_short(r) for r in c.results],
                        "found_by": f"native search over the contract's input domains after the solver refuted the obligation (trial {k})"}
        return None

    def _crosscheck(self, contract, o, res):
        s = z3.Solver()
        s.set("timeout", 3000)
        for t in o["pc"] + o["facts"]:
            s.add(t)
        s.add(*concretizable(o["ghost"].get("inputs", {})))
        if s.check() != z3.sat:
            res.crosscheck["skipped"] += 1
            return
        m = s.model()
        inputs = o["ghost"].get("inputs", {})
        res.crosscheck["paths"] += 1
        try:
            val = valuation_from_model(m, inputs)
            if any(d[0] == "real" and d[2] == "float" for d in inputs.values()):
                # a rational model point is generally not a double: no exact comparison possible
                res.crosscheck["skipped"] += 1
                return
            c = run_concrete(contract, val)
        except Unconstructible:
            res.crosscheck["skipped"] += 1
            return
        except Exception as e:
            res.crosscheck["mismatch"].append({"valuation": _jsonable(locals().get("val")), "error": repr(e)})
            return
        failed = [n for n, okk in c.checks if not okk]
        if failed:
            # the contract fails natively on this model point: a replayed witness in its own right
            res.replays.append({"obligation": failed[0], "case": res.name, "valuation": _jsonable(val),
                                "failed_checks": failed, "exception": c.exception,
                                "results": [_short(r) for r in c.results], "found_by": "cross-check run"})
            return
        if o.get("float_ops"):
            # the path went through the float error model: its symbolic result is a set of values,
            # so only the contract clauses (above) can be compared, not the exact result
            res.crosscheck["agree"] += 1
            return
        symres = o["ghost"].get("results", [])
        ok = True
        modes = o["ghost"].get("compare", [])
        for i, (sr, crs) in enumerate(zip(symres, c.results)):
            mode = modes[i] if i < len(modes) else True
            if mode is False:
                continue
            if mode == "truth" and not isinstance(sr, Raised) and not isinstance(crs, Raised):
                cv = concretize(sr, m)
                if cv is NotImplemented:
                    continue
                if bool(cv) != bool(crs):
                    ok = False
                    res.crosscheck["mismatch"].append({"valuation": _jsonable(val), "symbolic": _short(cv),
                                                       "native": _short(crs), "mode": "truth"})
                continue
            if isinstance(sr, Raised) or isinstance(crs, Raised):
                if not (isinstance(sr, Raised) and isinstance(crs, Raised)
                        and type(sr.exc) is type(crs.exc)):
                    ok = False
                continue
            cv = concretize(sr, m)
            if cv is NotImplemented or cv is None:
                continue
            if isinstance(cv, (tuple, list)) and isinstance(crs, (tuple, list)) and len(cv) == len(crs):
                pairs = [(a, b) for a, b in zip(cv, crs) if a is not NotImplemented and a is not None]
                cv, crs = [a for a, _ in pairs], [b for _, b in pairs]
            if cv != crs or (type(cv) is not type(crs) and not isinstance(cv, Fraction)):
                ok = False
                res.crosscheck["mismatch"].append({"valuation": _jsonable(val), "symbolic": _short(cv),
                                                   "native": _short(crs)})
        if len(symres) != len(c.results):
            ok = False
            res.crosscheck["mismatch"].append({"valuation": _jsonable(val),
                                               "error": f"symbolic path made {len(symres)} calls, native {len(c.results)}"
                                                        f" (exception: {c.exception})"})
        if ok:
            res.crosscheck["agree"] += 1


def _short(x):
    r = repr(x)
    return r if len(r) < 200 else r[:200] + "..."


def _jsonable(x):
    if isinstance(x, dict):
        return {str(k): _jsonable(v) for k, v in x.items()}
    if isinstance(x, (list, tuple)):
        return [_jsonable(v) for v in x]
    if isinstance(x, Fraction):
        return {"fraction": f"{x.numerator}/{x.denominator}", "float": float(x)}
    if isinstance(x, (int, float, str, bool)) or x is None:
        return x
    return repr(x)
