"""Symbolic value domain of the verifier.

Concrete Python values stay concrete (and are computed by CPython itself); only
leaves that depend on a symbolic input are proxies:

  SInt   - Python int, mathematical integer (z3 Int)
  SBool  - bool; bool(SBool) asks the current path for a branch decision
  SNum   - Python float (or int-or-float "Number"), a z3 Real under one of three float
           semantics (see FloatSem): 'std' standard error model, 'uf' uninterpreted,
           'exact' exact rationals (Fraction arithmetic)
  SStr   - structured string: a concatenation of atoms (literal | digit run | formatted int)

The proxies consult the *current path* (pyvc.engine.Path) through `cur()`.
"""
import z3

_CUR = [None]


def cur():
    p = _CUR[0]
    if p is None:
        raise RuntimeError("no active symbolic path")
    return p


def set_cur(p):
    _CUR[0] = p


class Inapplicable(Exception):
    """A rule of the executor does not apply: the obligation is undecided, never 'true'."""


class PathEnd(Exception):
    """The current path stops here (infeasible assumption, end of a loop-body path)."""


# --------------------------------------------------------------------------- ints / bools

def is_sym(x):
    return isinstance(x, (SInt, SBool, SNum, SStr, SEnum))


def zint(x):
    """z3 Int term of an int-like value."""
    if isinstance(x, SInt):
        return x.t
    if isinstance(x, SBool):
        return z3.If(x.t, z3.IntVal(1), z3.IntVal(0))
    if isinstance(x, bool):
        return z3.IntVal(int(x))
    if isinstance(x, int):
        return z3.IntVal(x)
    raise Inapplicable(f"not an int: {x!r}")


def zbool(x):
    if isinstance(x, SBool):
        return x.t
    if isinstance(x, bool):
        return z3.BoolVal(x)
    if isinstance(x, z3.BoolRef):
        return x
    raise Inapplicable(f"not a bool: {x!r}")


def zreal(x):
    """z3 Real term of a numeric value (exact value of the int / float)."""
    if isinstance(x, SNum):
        return x.t
    if isinstance(x, (SInt, SBool)):
        return z3.ToReal(zint(x))
    if isinstance(x, bool):
        return z3.RealVal(int(x))
    if isinstance(x, int):
        return z3.RealVal(x)
    if isinstance(x, float):
        from fractions import Fraction
        f = Fraction(x)
        return z3.RealVal(f"{f.numerator}/{f.denominator}")
    from fractions import Fraction
    if isinstance(x, Fraction):
        return z3.RealVal(f"{x.numerator}/{x.denominator}")
    raise Inapplicable(f"not a number: {x!r}")


def _simp(t):
    return z3.simplify(t)


class SBool:
    __slots__ = ("t",)


    def __str__(self):
        raise Inapplicable(f"str() of symbolic {type(self).__name__} outside the interpreter")

    def __format__(self, spec):
        raise Inapplicable(f"format() of symbolic {type(self).__name__} outside the interpreter")

    def __deepcopy__(self, memo):
        return self

    def __copy__(self):
        return self
    def __init__(self, t):
        self.t = t

    def __bool__(self):
        return cur().branch(self.t)

    def __and__(self, o):
        return SBool(z3.And(self.t, zbool(o)))

    __rand__ = __and__

    def __or__(self, o):
        return SBool(z3.Or(self.t, zbool(o)))

    __ror__ = __or__

    def __invert__(self):
        raise Inapplicable("~bool")

    def __eq__(self, o):
        if isinstance(o, (SBool, bool)):
            return SBool(self.t == zbool(o))
        return SInt(zint(self)) == o

    def __ne__(self, o):
        return snot(self == o)

    def __hash__(self):
        return id(self)

    def __repr__(self):
        return f"SBool({self.t})"


def snot(x):
    if isinstance(x, SBool):
        return SBool(z3.Not(x.t))
    return not x


def mkbool(t):
    """z3 Bool -> bool if it simplifies to a constant, else SBool."""
    s = _simp(t)
    if z3.is_true(s):
        return True
    if z3.is_false(s):
        return False
    return SBool(s)


def mkint(t):
    s = _simp(t)
    if z3.is_int_value(s):
        return s.as_long()
    return SInt(s)


class SInt:
    __slots__ = ("t",)


    def __str__(self):
        raise Inapplicable(f"str() of symbolic {type(self).__name__} outside the interpreter")

    def __format__(self, spec):
        raise Inapplicable(f"format() of symbolic {type(self).__name__} outside the interpreter")

    def __deepcopy__(self, memo):
        return self

    def __copy__(self):
        return self
    def __init__(self, t):
        self.t = t

    # arithmetic -------------------------------------------------------------
    def _bin(self, o, f, swap=False):
        if isinstance(o, (SNum, float)):
            return NotImplemented
        from fractions import Fraction
        if isinstance(o, Fraction):
            a, b = SNum(z3.ToReal(self.t), "frac"), o
            if swap:
                return f(SNum(zreal(o), "frac"), a) if False else _frac_op(f, SNum(zreal(o), "frac"), a)
            return _frac_op(f, a, SNum(zreal(o), "frac"))
        try:
            a, b = self.t, zint(o)
        except Inapplicable:
            return NotImplemented
        if swap:
            a, b = b, a
        return mkint(f(a, b))

    def __add__(self, o):
        if isinstance(o, SNum):
            return NotImplemented
        if isinstance(o, float):
            return SNum.of(self) + o
        return self._bin(o, lambda a, b: a + b)

    def __radd__(self, o):
        if isinstance(o, float):
            return SNum.of(o) + self
        return self._bin(o, lambda a, b: a + b, True)

    def __sub__(self, o):
        if isinstance(o, SNum):
            return NotImplemented
        if isinstance(o, float):
            return SNum.of(self) - o
        return self._bin(o, lambda a, b: a - b)

    def __rsub__(self, o):
        if isinstance(o, float):
            return SNum.of(o) - self
        return self._bin(o, lambda a, b: a - b, True)

    def __mul__(self, o):
        if isinstance(o, SNum):
            return NotImplemented
        if isinstance(o, float):
            return SNum.of(self) * o
        return self._bin(o, lambda a, b: a * b)

    def __rmul__(self, o):
        if isinstance(o, float):
            return SNum.of(o) * self
        return self._bin(o, lambda a, b: a * b, True)

    def __neg__(self):
        return mkint(-self.t)

    def __pos__(self):
        return self

    def __abs__(self):
        return mkint(z3.If(self.t >= 0, self.t, -self.t))

    def __floordiv__(self, o):
        if isinstance(o, (SNum, float)):
            return SNum.of(self) // o
        return sdivmod(self, o)[0]

    def __rfloordiv__(self, o):
        return sdivmod(o, self)[0]

    def __mod__(self, o):
        return sdivmod(self, o)[1]

    def __rmod__(self, o):
        return sdivmod(o, self)[1]

    def __divmod__(self, o):
        return sdivmod(self, o)

    def __rdivmod__(self, o):
        return sdivmod(o, self)

    def __truediv__(self, o):
        if isinstance(o, SNum):
            return NotImplemented
        return SNum.of(self) / o

    def __rtruediv__(self, o):
        return SNum.of(o) / self

    def __pow__(self, o):
        if isinstance(o, int) and 0 <= o <= 8:
            r = 1
            for _ in range(o):
                r = r * self
            return r
        raise Inapplicable("pow with symbolic operand")

    def __rpow__(self, o):
        raise Inapplicable("pow with symbolic exponent")

    # comparisons ------------------------------------------------------------
    def _cmp(self, o, f):
        if isinstance(o, (SNum, float)):
            return f(SNum.of(self), o)
        from fractions import Fraction
        if isinstance(o, Fraction):
            return mkbool(f(z3.ToReal(self.t), zreal(o)))
        try:
            return mkbool(f(self.t, zint(o)))
        except Inapplicable:
            return NotImplemented

    def __eq__(self, o):
        if isinstance(o, (SNum, float)):
            return SNum.of(self) == o
        if o is None or isinstance(o, (str, SStr, tuple, list, dict)):
            return False
        try:
            return mkbool(self.t == zint(o))
        except Inapplicable:
            return False

    def __ne__(self, o):
        return snot(self == o)

    def __lt__(self, o):
        return self._cmp(o, lambda a, b: a < b)

    def __le__(self, o):
        return self._cmp(o, lambda a, b: a <= b)

    def __gt__(self, o):
        return self._cmp(o, lambda a, b: a > b)

    def __ge__(self, o):
        return self._cmp(o, lambda a, b: a >= b)

    def __bool__(self):
        return cur().branch(self.t != 0)

    def __hash__(self):
        return id(self)

    def __index__(self):
        raise Inapplicable("symbolic int used as an index")

    def __repr__(self):
        return f"SInt({self.t})"


def _frac_op(f, a, b):
    """apply the z3-level binary operator f to two exact rationals"""
    return SNum(_simp(f(a.t, b.t)), "frac")


def sdivmod(a, b):
    """Python floor division / modulo on ints (sign of the remainder follows the divisor)."""
    if isinstance(a, (SNum, float)) or isinstance(b, (SNum, float)):
        raise Inapplicable("float divmod")
    if not is_sym(a) and not is_sym(b):
        return divmod(a, b)
    p = cur()
    if isinstance(b, int) and not isinstance(b, bool):
        if b == 0:
            raise ZeroDivisionError("integer division or modulo by zero")
        at = zint(a)
        q, r = p.fresh_int("q"), p.fresh_int("r")
        p.assume(at == b * q + r)
        if b > 0:
            p.assume(z3.And(r >= 0, r < b))
        else:
            p.assume(z3.And(r <= 0, r > b))
        return SInt(q), SInt(r)
    # symbolic divisor: only the positive case is supported (needs b > 0 on the path)
    at, bt = zint(a), zint(b)
    if not p.entails(bt > 0):
        raise Inapplicable("divmod by a symbolic divisor not known to be positive")
    q, r = p.fresh_int("q"), p.fresh_int("r")
    p.assume(z3.And(at == bt * q + r, r >= 0, r < bt))
    return SInt(q), SInt(r)


# --------------------------------------------------------------------------- floats / numbers

U = z3.RealVal("1/9007199254740992")        # 2**-53, unit roundoff of binary64
TWO53 = 9007199254740992


class SNum:
    """A Python float (kind='float'), a Fraction (kind='frac') or an int-or-float Number
    (kind='num').  `t` is a z3 Real: the exact mathematical value of the object."""
    __slots__ = ("t", "kind")


    def __str__(self):
        raise Inapplicable(f"str() of symbolic {type(self).__name__} outside the interpreter")

    def __format__(self, spec):
        raise Inapplicable(f"format() of symbolic {type(self).__name__} outside the interpreter")

    def __deepcopy__(self, memo):
        return self

    def __copy__(self):
        return self
    def __init__(self, t, kind="float"):
        self.t = t
        self.kind = kind

    @staticmethod
    def of(x, kind="float"):
        if isinstance(x, SNum):
            return x
        return SNum(zreal(x), kind)

    def _k(self, o):
        ok = o.kind if isinstance(o, SNum) else ("float" if isinstance(o, float) else "int")
        if self.kind == "frac" and ok in ("frac", "int"):
            return "frac"
        if self.kind == "frac" or ok == "frac":
            return "float"      # Fraction op float -> float
        if self.kind == "num" and ok in ("num", "int"):
            return "num"
        return "float" if "float" in (self.kind, ok) else "num"

    def _arith(self, o, op, swap=False):
        try:
            ot = zreal(o)
        except Inapplicable:
            return NotImplemented
        a, b = (ot, self.t) if swap else (self.t, ot)
        k = self._k(o)
        if k == "frac":
            exact = {"add": a + b, "sub": a - b, "mul": a * b, "div": a / b}[op]
            return SNum(_simp(exact), "frac")
        return cur().fsem.op(op, a, b, k)

    def __add__(self, o):
        return self._arith(o, "add")

    def __radd__(self, o):
        return self._arith(o, "add", True)

    def __sub__(self, o):
        return self._arith(o, "sub")

    def __rsub__(self, o):
        return self._arith(o, "sub", True)

    def __mul__(self, o):
        return self._arith(o, "mul")

    def __rmul__(self, o):
        return self._arith(o, "mul", True)

    def __truediv__(self, o):
        return self._arith(o, "div")

    def __rtruediv__(self, o):
        return self._arith(o, "div", True)

    def __floordiv__(self, o):
        # float // number: CPython computes it through fmod, i.e. the floor of the exact quotient
        # (assumed contract of float.__floordiv__), returned as an integral float
        ot = zreal(o)
        p = cur()
        if not p.entails(ot > 0):
            raise Inapplicable("float floor division by a divisor not known to be positive")
        k = p.fresh_int("ffl")
        p.assume(z3.And(z3.ToReal(k) * ot <= self.t, self.t < (z3.ToReal(k) + 1) * ot))
        return SNum(z3.ToReal(k), "frac" if self.kind == "frac" else "float")

    def __neg__(self):
        return SNum(-self.t, self.kind)

    def __abs__(self):
        return SNum(z3.If(self.t >= 0, self.t, -self.t), self.kind)

    def _cmp(self, o, f):
        try:
            return mkbool(f(self.t, zreal(o)))
        except Inapplicable:
            return NotImplemented

    def __eq__(self, o):
        if o is None or isinstance(o, (str, SStr, tuple, list, dict)):
            return False
        try:
            return mkbool(self.t == zreal(o))
        except Inapplicable:
            return False

    def __ne__(self, o):
        return snot(self == o)

    def __lt__(self, o):
        return self._cmp(o, lambda a, b: a < b)

    def __le__(self, o):
        return self._cmp(o, lambda a, b: a <= b)

    def __gt__(self, o):
        return self._cmp(o, lambda a, b: a > b)

    def __ge__(self, o):
        return self._cmp(o, lambda a, b: a >= b)

    def __bool__(self):
        return cur().branch(self.t != 0)

    def __hash__(self):
        return id(self)

    def is_integer(self):
        p = cur()
        k = p.fresh_int("k")
        return mkbool(z3.Exists([k], z3.ToReal(k) == self.t)) if False else SBool(z3.IsInt(self.t))

    def __repr__(self):
        return f"SNum[{self.kind}]({self.t})"


def sfloor(x):
    """math.floor / int() of a non-negative number: integer k with k <= x < k+1 (witness)."""
    p = cur()
    k = p.fresh_int("fl")
    t = zreal(x)
    p.assume(z3.And(z3.ToReal(k) <= t, t < z3.ToReal(k) + 1))
    return SInt(k)


def strunc(x):
    """int(x) for a float / Fraction: truncation toward zero."""
    p = cur()
    t = zreal(x)
    k = p.fresh_int("tr")
    p.assume(z3.If(t >= 0,
                   z3.And(z3.ToReal(k) <= t, t < z3.ToReal(k) + 1),
                   z3.And(z3.ToReal(k) >= t, t > z3.ToReal(k) - 1)))
    return SInt(k)


class FloatSem:
    """Float semantics of a verification case.

    'std'  : every float operation returns a fresh real r with |r - e| <= u*|e| for the exact
             result e, and r == e whenever e is an integer of magnitude < 2**53 (witnessed) -
             sound for IEEE-754 binary64, round-to-nearest, no overflow/underflow.
    'uf'   : operations are uninterpreted functions (the property is stated in the same
             expression: t*skew+offset).
    """

    def __init__(self, mode="std"):
        self.mode = mode
        self.ops = 0
        if mode == "uf":
            R = z3.RealSort()
            self.uf = {n: z3.Function("f" + n, R, R, R) for n in ("add", "sub", "mul", "div")}

    def op(self, op, a, b, kind):
        self.ops += 1
        exact = {"add": a + b, "sub": a - b, "mul": a * b, "div": a / b}[op]
        if self.mode == "uf":
            return SNum(self.uf[op](a, b), "float")
        p = cur()
        if op == "div":
            bs = _simp(b)
            if z3.is_rational_value(bs) and bs.numerator_as_long() == 0:
                raise ZeroDivisionError("float division by zero")
        es = _simp(exact)
        if z3.is_rational_value(es):
            # both operands concrete: evaluate with real floats
            from fractions import Fraction
            av = float(Fraction(_simp(a).numerator_as_long(), _simp(a).denominator_as_long()))
            bv = float(Fraction(_simp(b).numerator_as_long(), _simp(b).denominator_as_long()))
            rv = {"add": av + bv, "sub": av - bv, "mul": av * bv, "div": av / bv}[op]
            return SNum(zreal(rv), "float")
        integral = _integrality(es)
        if integral is True and p.entails(z3.And(es < TWO53, es > -TWO53)):
            return SNum(es, "float")          # an integer below 2**53 is a double: exact
        r = p.fresh_real("f" + op)
        if p.entails(es >= 0):
            ae = es
        elif p.entails(es <= 0):
            ae = -es
        else:
            ae = z3.If(es >= 0, es, -es)
        p.assume(z3.And(r - es <= U * ae, es - r <= U * ae))
        if integral is not False:
            k = p.fresh_int("ik")    # k = floor(es); es integral (== k) and |k| < 2**53  =>  r == es
            p.assume(z3.And(z3.ToReal(k) <= es, es < z3.ToReal(k) + 1))
            p.assume(z3.Implies(z3.And(z3.ToReal(k) == es, k < TWO53, k > -TWO53), r == es))
        p.float_facts.append((op, es, r))
        return SNum(r, "float")


def _integrality(t):
    """True: t is integer valued in every model; False: never; None: unknown (syntactic)."""
    if z3.is_rational_value(t):
        return t.denominator_as_long() == 1
    if z3.is_int(t):
        return True
    if z3.is_app(t):
        k = t.decl().kind()
        if k == z3.Z3_OP_TO_REAL:
            return True
        if k in (z3.Z3_OP_ADD, z3.Z3_OP_SUB):
            kids = [_integrality(c) for c in t.children()]
            if all(x is True for x in kids):
                return True
            if kids.count(False) == 1 and all(x is True for x in kids if x is not False):
                return False
            return None
        if k == z3.Z3_OP_MUL:
            kids = [_integrality(c) for c in t.children()]
            if all(x is True for x in kids):
                return True
            return None
        if k == z3.Z3_OP_UMINUS:
            return _integrality(t.children()[0])
    return None


# --------------------------------------------------------------------------- structured strings

DIGITS = frozenset("0123456789")


class Lit:
    __slots__ = ("s",)

    def __init__(self, s):
        self.s = s

    def lo(self):
        return len(self.s)

    hi = lo

    def chars(self):
        return frozenset(self.s)

    def __repr__(self):
        return repr(self.s)


class Digits:
    """A run of decimal digits: length in [lo, hi] (hi None = unbounded), numeric value `val`;
    `scale` = 10**length (an int when the length is fixed, else a ghost z3 Int)."""
    __slots__ = ("name", "_lo", "_hi", "val", "scale")

    def __init__(self, name, lo, hi, val, scale=None):
        self.name, self._lo, self._hi, self.val = name, lo, hi, val
        self.scale = scale if scale is not None else (10 ** lo if lo == hi else None)

    def lo(self):
        return self._lo

    def hi(self):
        return self._hi

    def chars(self):
        return DIGITS

    def __repr__(self):
        return f"<{self.name}:d{{{self._lo},{'' if self._hi is None else self._hi}}}>"


class Fmt:
    """str of a non-negative int, zero padded to `width`: f'{n:0{width}d}'."""
    __slots__ = ("val", "width", "_fixed")

    def __init__(self, val, width):
        self.val, self.width, self._fixed = val, width, None

    def fixed(self):
        """True if 0 <= val < 10**width is entailed by the path (so the length is `width`)."""
        if self._fixed is None:
            p = cur()
            w = max(self.width, 1)
            self._fixed = p.entails(z3.And(self.val >= 0, self.val < 10 ** w))
        return self._fixed

    def lo(self):
        return max(self.width, 1)

    def hi(self):
        return max(self.width, 1) if self.fixed() else None

    def chars(self):
        return DIGITS if cur().entails(self.val >= 0) else DIGITS | {"-"}

    def __repr__(self):
        return f"<fmt {self.val}:0{self.width}d>"


class SStr:
    __slots__ = ("atoms",)


    def __str__(self):
        raise Inapplicable(f"str() of symbolic {type(self).__name__} outside the interpreter")

    def __format__(self, spec):
        raise Inapplicable(f"format() of symbolic {type(self).__name__} outside the interpreter")

    def __deepcopy__(self, memo):
        return self

    def __copy__(self):
        return self
    def __init__(self, atoms):
        out = []
        for a in atoms:
            if isinstance(a, str):
                a = Lit(a)
            if isinstance(a, Lit):
                if not a.s:
                    continue
                if out and isinstance(out[-1], Lit):
                    out[-1] = Lit(out[-1].s + a.s)
                    continue
            out.append(a)
        self.atoms = tuple(out)

    @staticmethod
    def lift(x):
        if isinstance(x, SStr):
            return x
        if isinstance(x, str):
            return SStr([Lit(x)])
        raise Inapplicable(f"not a string: {x!r}")

    def concrete(self):
        if all(isinstance(a, Lit) for a in self.atoms):
            return "".join(a.s for a in self.atoms)
        return None

    def norm(self):
        c = self.concrete()
        return self if c is None else c

    def __add__(self, o):
        if not isinstance(o, (str, SStr)):
            return NotImplemented
        return SStr(self.atoms + SStr.lift(o).atoms).norm()

    def __radd__(self, o):
        if not isinstance(o, str):
            return NotImplemented
        return SStr(SStr.lift(o).atoms + self.atoms).norm()

    # length -------------------------------------------------------------------
    def len_bounds(self):
        lo, hi = 0, 0
        for a in self.atoms:
            lo += a.lo()
            h = a.hi()
            hi = None if (hi is None or h is None) else hi + h
        return lo, hi

    def fixed_len(self):
        lo, hi = self.len_bounds()
        return lo if lo == hi else None

    def sym_len(self):
        """length as an int / SInt when every variable-length atom carries a symbolic length"""
        n = self.fixed_len()
        if n is not None:
            return n
        total = z3.IntVal(0)
        for a in self.atoms:
            if a.lo() == a.hi():
                total = total + a.lo()
            elif isinstance(a, Opaque) and a.length is not None:
                total = total + a.length
            else:
                return None
        return mkint(total)

    def __bool__(self):
        lo, hi = self.len_bounds()
        if lo > 0:
            return True
        if hi == 0:
            return False
        raise Inapplicable("truthiness of a string of unknown emptiness")

    def __hash__(self):
        return id(self)

    # membership / comparison ----------------------------------------------------
    def contains(self, sub):
        if not isinstance(sub, str):
            raise Inapplicable("symbolic needle")
        if sub == "":
            return True
        for a in self.atoms:
            if isinstance(a, Lit) and sub in a.s:
                return True
        # could `sub` straddle or lie inside symbolic atoms?
        subset = frozenset(sub)
        if len(sub) == 1:
            for a in self.atoms:
                if not isinstance(a, Lit) and sub in a.chars():
                    raise Inapplicable(f"{sub!r} may occur inside {a!r}")
            return False
        # multi-char needle: safe 'False' only if it contains a char no symbolic atom can hold
        sym_chars = frozenset().union(*[a.chars() for a in self.atoms if not isinstance(a, Lit)]) \
            if any(not isinstance(a, Lit) for a in self.atoms) else frozenset()
        lit_text = [a.s for a in self.atoms if isinstance(a, Lit)]
        if any(ch not in sym_chars for ch in sub):
            # every occurrence must contain that char, which lives only in literals; an occurrence
            # then needs the literal pieces around it to line up: check conservatively
            for ch in sub:
                if ch not in sym_chars and not any(ch in t for t in lit_text):
                    return False
        raise Inapplicable(f"cannot decide {sub!r} in {self!r}")

    def __contains__(self, sub):
        return self.contains(sub)

    def __eq__(self, o):
        if isinstance(o, str):
            lo, hi = self.len_bounds()
            if len(o) < lo or (hi is not None and len(o) > hi):
                return False
            if any(isinstance(a, Lit) and a.s not in o for a in self.atoms):
                return False
            raise Inapplicable(f"cannot decide {self!r} == {o!r}")
        if isinstance(o, SStr):
            if self is o:
                return True
            raise Inapplicable("symbolic string equality")
        return False

    def __ne__(self, o):
        return not (self == o)

    # splitting / slicing ----------------------------------------------------------
    def split(self, sep=None, maxsplit=-1):
        if not isinstance(sep, str) or maxsplit != -1:
            raise Inapplicable("split() form not modelled")
        if len(sep) == 1:
            for a in self.atoms:
                if not isinstance(a, Lit) and sep in a.chars():
                    raise Inapplicable(f"separator {sep!r} may occur inside {a!r}")
        else:
            # multi-char separator: require that no symbolic atom can hold its first or last char
            for a in self.atoms:
                if not isinstance(a, Lit) and (sep[0] in a.chars() or sep[-1] in a.chars()):
                    raise Inapplicable(f"separator {sep!r} may straddle {a!r}")
        parts, curp = [], []
        for a in self.atoms:
            if isinstance(a, Lit):
                bits = a.s.split(sep)
                curp.append(Lit(bits[0]))
                for b in bits[1:]:
                    parts.append(SStr(curp).norm())
                    curp = [Lit(b)]
            else:
                curp.append(a)
        parts.append(SStr(curp).norm())
        return parts

    def strip(self, chars=None):
        return self._strip(chars, True, True)

    def rstrip(self, chars=None):
        return self._strip(chars, False, True)

    def lstrip(self, chars=None):
        return self._strip(chars, True, False)

    def _strip(self, chars, left, right):
        cs = frozenset(chars) if chars is not None else frozenset(" \t\n\r\x0b\x0c")
        atoms = list(self.atoms)

        def edge(a):
            # may a symbolic atom start/end with a strippable char?
            if a.chars() & cs:
                raise Inapplicable(f"strip chars may occur in {a!r}")
            if a.lo() == 0:
                raise Inapplicable(f"{a!r} may be empty at a strip edge")

        if left and atoms:
            while atoms and isinstance(atoms[0], Lit):
                s = atoms[0].s.lstrip(chars)
                if s:
                    atoms[0] = Lit(s)
                    break
                atoms.pop(0)
            if atoms and not isinstance(atoms[0], Lit):
                edge(atoms[0])
        if right and atoms:
            while atoms and isinstance(atoms[-1], Lit):
                s = atoms[-1].s.rstrip(chars)
                if s:
                    atoms[-1] = Lit(s)
                    break
                atoms.pop()
            if atoms and not isinstance(atoms[-1], Lit):
                edge(atoms[-1])
        return SStr(atoms).norm()

    def ljust(self, width, fill=" "):
        lo, hi = self.len_bounds()
        if lo >= width:
            return self
        if hi is not None and lo == hi:
            return SStr(self.atoms + (Lit(fill * (width - lo)),)).norm()
        raise Inapplicable("ljust on a string of unknown length")

    def replace(self, old, new):
        if not isinstance(old, str) or not isinstance(new, str):
            raise Inapplicable("symbolic replace operands")
        if len(old) != 1:
            return self._replace_multi(old, new)
        for a in self.atoms:
            if not isinstance(a, Lit) and old in a.chars():
                raise Inapplicable(f"{old!r} may occur inside {a!r}")
        return SStr([Lit(a.s.replace(old, new)) if isinstance(a, Lit) else a for a in self.atoms]).norm()

    def _replace_multi(self, old, new):
        """multi-character replace: decidable when an occurrence can neither start inside a symbolic atom
        nor run from a literal into one"""
        atoms = list(self.atoms)
        for a in atoms:
            if not isinstance(a, Lit) and old[0] in a.chars():
                raise Inapplicable(f"{old!r} may start inside {a!r}")
        out = []
        for i, a in enumerate(atoms):
            if not isinstance(a, Lit):
                out.append(a)
                continue
            nxt = atoms[i + 1] if i + 1 < len(atoms) else None
            if nxt is not None:
                following = atoms[i + 1:]
                for k in range(1, len(old)):
                    if a.s.endswith(old[:k]) and old[k] in nxt.chars():
                        # the rest of the pattern would have to come from the following atoms: impossible
                        # if it needs a character none of them can supply
                        rest = old[k:]
                        supply = set().union(*[set(x.s) if isinstance(x, Lit) else set(x.chars()) for x in following])
                        if all(ch in supply for ch in rest):
                            raise Inapplicable(f"{old!r} may straddle {a!r} and {nxt!r}")
            out.append(Lit(a.s.replace(old, new)))
        return SStr(out).norm()

    def isdigit(self):
        lo, hi = self.len_bounds()
        ok = all((a.s.isdigit() if isinstance(a, Lit) else a.chars() <= DIGITS) for a in self.atoms)
        if not ok:
            if any(isinstance(a, Lit) and not a.s.isdigit() for a in self.atoms):
                return False
            raise Inapplicable("isdigit undecided")
        if lo == 0:
            raise Inapplicable("isdigit on a possibly empty string")
        return True

    def lower(self):
        return SStr([Lit(a.s.lower()) if isinstance(a, Lit) else a for a in self.atoms]).norm()

    def startswith(self, pre):
        if isinstance(pre, str) and self.atoms and isinstance(self.atoms[0], Lit) and len(self.atoms[0].s) >= len(pre):
            return self.atoms[0].s.startswith(pre)
        raise Inapplicable("startswith undecided")

    def _offsets(self):
        """[(atom, start, end)] with concrete offsets as long as lengths are fixed."""
        out, pos = [], 0
        for a in self.atoms:
            lo, hi = a.lo(), a.hi()
            if pos is None:
                out.append((a, None, None))
                continue
            if lo == hi:
                out.append((a, pos, pos + lo))
                pos += lo
            else:
                out.append((a, pos, None))
                pos = None
        return out

    def __getitem__(self, idx):
        if isinstance(idx, slice):
            if idx.step not in (None, 1):
                raise Inapplicable("slice step")
            start, stop = idx.start, idx.stop
            if is_sym(start) or is_sym(stop):
                raise Inapplicable("symbolic slice bounds")
            total = self.fixed_len()
            lo_len, hi_len = self.len_bounds()
            if (start is not None and start < 0) or (stop is not None and stop < 0):
                if total is None:
                    return self._slice_from_end(start, stop)
                start = None if start is None else (start if start >= 0 else max(0, total + start))
                stop = None if stop is None else (stop if stop >= 0 else max(0, total + stop))
            start = start or 0
            if stop is not None and hi_len is not None and stop >= hi_len:
                stop = None
            out = []
            seen_lo = 0
            for a, s, e in self._offsets():
                seen_lo += a.lo()
                if s is None:
                    if stop is None and start == 0:
                        out.append(a)
                        continue
                    if stop is not None and stop <= seen_lo:
                        break
                    raise Inapplicable("slice boundary after a variable-length atom")
                if e is None:
                    # variable-length atom starting at s: whole atom needed, slice must not cut it
                    if stop is not None and s >= stop:
                        break
                    if start <= s and stop is None:
                        out.append(a)
                        continue
                    raise Inapplicable("slice cuts a variable-length atom")
                a_s = max(start, s)
                a_e = e if stop is None else min(stop, e)
                if a_s >= a_e:
                    continue
                if a_s == s and a_e == e:
                    out.append(a)
                elif isinstance(a, Lit):
                    out.append(Lit(a.s[a_s - s:a_e - s]))
                else:
                    raise Inapplicable(f"slice cuts symbolic atom {a!r}")
            return SStr(out).norm()
        if is_sym(idx):
            raise Inapplicable("symbolic index")
        r = self[idx:idx + 1] if idx >= 0 else self[idx:(idx + 1 or None)]
        if isinstance(r, str) and len(r) == 1:
            return r
        raise Inapplicable("indexing into a symbolic atom")

    def _slice_from_end(self, start, stop):
        # negative bounds on a string whose head has unknown length: mirror the offsets
        rev, pos = [], 0
        for a in reversed(self.atoms):
            lo, hi = a.lo(), a.hi()
            if pos is None or lo != hi:
                rev.append((a, pos, None))
                pos = None
            else:
                rev.append((a, pos, pos + lo))
                pos += lo
        # positions are distances from the end: atom covers [end-e, end-s)
        if start is not None and start >= 0 and start != 0:
            raise Inapplicable("mixed-sign slice on a string of unknown length")
        s_from_end = None if start in (None, 0) else -start    # keep chars with dist <= s_from_end
        e_from_end = 0 if stop is None else -stop               # drop chars with dist <= e_from_end
        out = []
        for a, s, e in rev:
            if s is None or e is None:
                if s is not None and s_from_end is not None and s >= s_from_end:
                    continue
                if s_from_end is None and (s is None or s >= e_from_end):
                    out.append(a)
                    continue
                raise Inapplicable("negative slice cuts a variable-length atom")
            a_e = e if s_from_end is None else min(e, s_from_end)
            a_s = max(s, e_from_end)
            if a_s >= a_e:
                continue
            if a_s == s and a_e == e:
                out.append(a)
            elif isinstance(a, Lit):
                n = len(a.s)
                out.append(Lit(a.s[n - (a_e - s):n - (a_s - s)]))
            else:
                raise Inapplicable(f"negative slice cuts symbolic atom {a!r}")
        return SStr(list(reversed(out))).norm()

    def __repr__(self):
        return "S" + "".join(repr(a) if not isinstance(a, Lit) else a.s for a in self.atoms).join("''")


def sstr_int(s):
    """int(s) for a structured string made only of digit atoms."""
    s = SStr.lift(s)
    if not s.atoms:
        raise ValueError("invalid literal for int() with base 10: ''")
    acc = None
    for a in s.atoms:
        if isinstance(a, Lit):
            if not a.s.isdigit() or not a.s.isascii():
                c = s.concrete()
                if c is not None:
                    return int(c)
                raise Inapplicable(f"int() of a string with non-digit literal {a.s!r}")
            v, n = z3.IntVal(int(a.s)), len(a.s)
        elif isinstance(a, Digits):
            v, n = a.val, (a._lo if a._lo == a._hi else None)
        elif isinstance(a, Fmt):
            if not cur().entails(a.val >= 0):
                raise Inapplicable("int() of a possibly negative formatted number")
            v, n = a.val, (a.lo() if a.fixed() else None)
        else:
            raise Inapplicable(f"int() of atom {a!r}")
        if acc is None:
            acc = v
        else:
            if n is None:
                raise Inapplicable("int() of a concatenation with a variable-length tail")
            acc = acc * (10 ** n) + v
    return mkint(acc)


def sformat_int(n, spec):
    """format(n, spec) for a symbolic int: d / 0Nd / N / 0N specs."""
    import re as _re
    m = _re.fullmatch(r"(0?)(\d*)d?", spec or "")
    if not m:
        raise Inapplicable(f"format spec {spec!r}")
    width = int(m.group(2) or 0)
    if width and not m.group(1):
        # space padding (ints are right-aligned): only equal to zero padding when no padding is needed
        raise Inapplicable("space padded int format")
    return SStr([Fmt(zint(n), width)])


def sformat_str(s, spec):
    """format(s, spec) for a structured string: '' or '.Ns' (precision = truncation)."""
    import re as _re
    m = _re.fullmatch(r"(?:\.(\d+))?s?", spec or "")
    if not m:
        raise Inapplicable(f"string format spec {spec!r}")
    if m.group(1) is None:
        return s
    n = int(m.group(1))
    return SStr.lift(s)[:n]


def decimal_view(s):
    """Exact rational value (z3 Real) of a structured string of the form  digits ['.' digits]."""
    s = SStr.lift(s)
    parts = s.split(".") if any(isinstance(a, Lit) and "." in a.s for a in s.atoms) else [s]
    if len(parts) > 2:
        raise ValueError(f"invalid decimal {s!r}")
    ip = parts[0]
    if isinstance(ip, str) and not ip:
        raise Inapplicable("decimal without integer part")
    val = zreal(sstr_int(ip) if not isinstance(ip, str) else int(ip))
    if len(parts) == 2:
        fp = SStr.lift(parts[1])
        if not fp.atoms:
            raise ValueError("decimal with empty fraction")
        scale = z3.RealVal(1)
        for a in fp.atoms:
            if isinstance(a, Lit):
                if not (a.s.isdigit() and a.s.isascii()):
                    raise ValueError(f"invalid decimal {s!r}")
                v, sc = z3.RealVal(int(a.s)), z3.RealVal(10 ** len(a.s))
            elif isinstance(a, Digits):
                if a.scale is None:
                    raise Inapplicable("fraction digits of unknown length without a scale ghost")
                v = z3.ToReal(a.val)
                sc = z3.RealVal(a.scale) if isinstance(a.scale, int) else z3.ToReal(a.scale)
            else:
                raise Inapplicable(f"decimal fraction atom {a!r}")
            scale = scale * sc
            val = val + v / scale
    return _simp(val)


class SEnum:
    """A symbolic member of an Enum class: `t` is the z3 Int index into list(cls)."""
    __slots__ = ("cls", "t")


    def __str__(self):
        raise Inapplicable(f"str() of symbolic {type(self).__name__} outside the interpreter")

    def __format__(self, spec):
        raise Inapplicable(f"format() of symbolic {type(self).__name__} outside the interpreter")

    def __deepcopy__(self, memo):
        return self

    def __copy__(self):
        return self
    def __init__(self, cls, t):
        self.cls, self.t = cls, t

    def members(self):
        return list(self.cls)

    def __eq__(self, o):
        if isinstance(o, SEnum):
            return mkbool(self.t == o.t) if o.cls is self.cls else False
        if isinstance(o, self.cls):
            return mkbool(self.t == self.members().index(o))
        return False

    def __ne__(self, o):
        return snot(self == o)

    def __hash__(self):
        raise Inapplicable("hash of a symbolic enum member outside the interpreter")

    def __bool__(self):
        return True

    @property
    def value(self):
        raise Inapplicable("value of a symbolic enum member")

    def __repr__(self):
        return f"SEnum({self.cls.__name__}, {self.t})"


class Opaque:
    """An opaque piece of text produced by a function under contract (e.g. str(size)); `tag`
    identifies the producer, `payload` the abstract arguments; `alphabet` what it may contain."""
    __slots__ = ("tag", "payload", "alphabet", "_lo", "length")

    def __init__(self, tag, payload, alphabet, lo=1, length=None):
        self.tag, self.payload, self.alphabet, self._lo = tag, payload, frozenset(alphabet), lo
        self.length = length          # optional z3 Int: the (symbolic) number of characters

    def lo(self):
        return self._lo

    def hi(self):
        return None

    def chars(self):
        return self.alphabet

    def __repr__(self):
        return f"<{self.tag}>"
