"""Python `re` patterns on structured strings.

The compiled pattern of the running module is taken apart with the interpreter's own parser
(re._parser) and matched against the unit sequence of a structured string: one unit per literal
character, one unit per symbolic atom (consumed whole or not at all).  The matcher is three
valued: it returns the match Python's backtracking engine would return, or None when no match
is possible, or raises Inapplicable when the answer would depend on splitting a symbolic atom
or on its unknown contents.  Fully concrete subjects are handed to the real `re`.
"""
import re
try:
    import re._parser as sre_parse
    import re._constants as C
except ImportError:      # pragma: no cover
    import sre_parse
    import sre_constants as C

from .sym import Inapplicable, SStr, Lit, DIGITS
from .interp import SymObject

_WS = frozenset(" \t\n\r\x0b\x0c")
MAXREPEAT = C.MAXREPEAT


def _category(cat, ch):
    if cat == C.CATEGORY_DIGIT:
        return ch.isdigit()
    if cat == C.CATEGORY_NOT_DIGIT:
        return not ch.isdigit()
    if cat == C.CATEGORY_SPACE:
        return ch.isspace()
    if cat == C.CATEGORY_NOT_SPACE:
        return not ch.isspace()
    if cat == C.CATEGORY_WORD:
        return ch.isalnum() or ch == "_"
    if cat == C.CATEGORY_NOT_WORD:
        return not (ch.isalnum() or ch == "_")
    raise Inapplicable(f"regex category {cat}")


def _char_ok(item, ch, flags):
    op, av = item
    if op == C.LITERAL:
        return ord(ch) == av
    if op == C.NOT_LITERAL:
        return ord(ch) != av
    if op == C.ANY:
        return ch != "\n" or bool(flags & re.DOTALL)
    if op == C.IN:
        neg = False
        hit = False
        for o, a in av:
            if o == C.NEGATE:
                neg = True
            elif o == C.LITERAL:
                hit = hit or ord(ch) == a
            elif o == C.RANGE:
                hit = hit or a[0] <= ord(ch) <= a[1]
            elif o == C.CATEGORY:
                hit = hit or _category(a, ch)
            else:
                raise Inapplicable(f"regex set item {o}")
        return hit != neg
    if op == C.CATEGORY:
        return _category(av, ch)
    raise Inapplicable(f"regex char item {op}")


def _unit_match(item, unit, flags):
    """True / False / raises Inapplicable: does single-char item accept the unit?
    For a symbolic atom: True iff every char it can hold is accepted (then the whole atom can be
    consumed by a repeat), False iff none is."""
    if unit[0] == "c":
        return _char_ok(item, unit[1], flags)
    chars = unit[1].chars()
    res = {_char_ok(item, ch, flags) for ch in chars}
    if res == {True}:
        return True
    if res == {False}:
        return False
    raise Inapplicable(f"regex item accepts only part of the alphabet of {unit[1]!r}")


_SINGLE = (C.LITERAL, C.NOT_LITERAL, C.ANY, C.IN, C.CATEGORY)


class _M:
    def __init__(self, units, flags, ngroups):
        self.units, self.flags = units, flags
        self.groups = {}

    # continuation-passing backtracking matcher over (items, pos)
    def seq(self, items, i, pos, groups, k):
        if i == len(items):
            return k(pos, groups)
        op, av = items[i]
        rest = lambda p, g: self.seq(items, i + 1, p, g, k)
        if op in _SINGLE:
            if pos >= len(self.units):
                return None
            u = self.units[pos]
            if u[0] == "a":
                # a single-char item facing a symbolic atom: only decidable for length-1 atoms
                a = u[1]
                if a.lo() == a.hi() == 1 and _unit_match((op, av), u, self.flags):
                    return rest(pos + 1, groups)
                if not _unit_match((op, av), u, self.flags) and a.lo() >= 1:
                    return None
                raise Inapplicable(f"single-character regex item against atom {a!r}")
            return rest(pos + 1, groups) if _char_ok((op, av), u[1], self.flags) else None
        if op == C.SUBPATTERN:
            gid, addf, delf, sub = av
            start = pos

            def after(p, g):
                if gid is not None:
                    g = dict(g)
                    g[gid] = (start, p)
                return rest(p, g)
            return self.seq(list(sub), 0, pos, groups, after)
        if op == C.BRANCH:
            for alt in av[1]:
                r = self.seq(list(alt), 0, pos, groups, rest)
                if r is not None:
                    return r
            return None
        if op == C.AT:
            if av in (C.AT_BEGINNING, C.AT_BEGINNING_STRING):
                return rest(pos, groups) if pos == 0 else None
            if av in (C.AT_END, C.AT_END_STRING):
                n = len(self.units)
                if pos == n:
                    return rest(pos, groups)
                if av == C.AT_END and pos == n - 1 and self.units[pos] == ("c", "\n"):
                    return rest(pos, groups)
                if self.units[pos][0] == "a" and self.units[pos][1].lo() == 0:
                    raise Inapplicable("$ before a possibly empty atom")
                return None
            raise Inapplicable(f"regex anchor {av}")
        if op in (C.MAX_REPEAT, C.MIN_REPEAT):
            lo, hi, sub = av
            sub = list(sub)
            if len(sub) == 1 and sub[0][0] in _SINGLE:
                return self.repeat_single(op == C.MAX_REPEAT, lo, hi, sub[0], pos, groups, rest)
            return self.repeat_group(op == C.MAX_REPEAT, lo, hi, sub, pos, groups, rest, 0)
        raise Inapplicable(f"regex construct {op}")

    def repeat_single(self, greedy, lo, hi, item, pos, groups, k):
        # positions reachable by consuming whole units; counts as (min, max) char totals
        stops = [(pos, 0, 0)]
        p, cmin, cmax = pos, 0, 0
        symbolic = False
        while p < len(self.units):
            u = self.units[p]
            if hi != MAXREPEAT and cmin >= hi:
                break
            ok = _unit_match(item, u, self.flags)
            if not ok:
                break
            if u[0] == "c":
                cmin += 1
                cmax = None if cmax is None else cmax + 1
            else:
                symbolic = True
                a = u[1]
                cmin += a.lo()
                cmax = None if (cmax is None or a.hi() is None) else cmax + a.hi()
            p += 1
            stops.append((p, cmin, cmax))
        order = list(reversed(stops)) if greedy else stops
        first_sym = next((j for j in range(pos, stops[-1][0]) if self.units[j][0] == "a"), None)
        for idx, (p, cmin, cmax) in enumerate(order):
            # count constraints
            if cmax is not None and cmax < lo:
                continue                       # too few, definitely
            if cmin < lo:
                raise Inapplicable("repeat lower bound depends on an atom's length")
            if hi != MAXREPEAT and (cmax is None or cmax > hi):
                if cmin > hi:
                    last = self.units[p - 1] if p > pos else None
                    if last is not None and last[0] == "a" and last[1].hi() != 1:
                        # the real engine stops INSIDE this atom after `hi` characters.  Sound only as a
                        # truth value: continue with the unread remainder of the atom as a pseudo atom;
                        # a definite match is a match (positions unknown), anything else is undecided.
                        saved = self.units
                        self.units = saved[:p] + [("a", _Pseudo(last[1].chars()))] + saved[p:]
                        try:
                            r = k(p, groups)
                        finally:
                            self.units = saved
                        if r is not None:
                            self.partial = True
                            return r
                        raise Inapplicable("regex repeat stops inside a symbolic atom")
                    continue
                raise Inapplicable("repeat upper bound depends on an atom's length")
            r = k(p, groups)
            if r is not None:
                return r
            if symbolic and (first_sym < p if greedy else True):
                # the real engine would now try stopping *inside* a symbolic atom.  That is a
                # definite failure too if the continuation rejects every character the atom can
                # hold; probe it with a one-or-more pseudo atom standing for the atom's remainder.
                if self._split_would_fail(pos, stops[-1][0], k, groups):
                    return None
                raise Inapplicable("regex backtracking into a symbolic atom")
        return None

    def _split_would_fail(self, lo_idx, hi_idx, k, groups):
        saved = self.units
        try:
            for j in range(lo_idx, hi_idx):
                u = saved[j]
                if u[0] != "a" or u[1].hi() == 1:
                    continue
                rest = _Pseudo(u[1].chars())
                self.units = saved[:j + 1] + [("a", rest)] + saved[j + 1:]
                try:
                    if k(j + 1, groups) is not None:
                        return False
                except Inapplicable:
                    return False
            return True
        finally:
            self.units = saved

    def repeat_group(self, greedy, lo, hi, sub, pos, groups, k, count):
        def more(p, g):
            if p == pos and count >= lo:
                return None                    # empty iteration: stop
            return self.repeat_group(greedy, lo, hi, sub, p, g, k, count + 1)
        can_more = hi == MAXREPEAT or count < hi
        if greedy:
            if can_more:
                r = self.seq(sub, 0, pos, groups, more)
                if r is not None:
                    return r
            return k(pos, groups) if count >= lo else None
        if count >= lo:
            r = k(pos, groups)
            if r is not None:
                return r
        return self.seq(sub, 0, pos, groups, more) if can_more else None


class _Pseudo:
    """the unread remainder (one or more characters) of a symbolic atom"""

    def __init__(self, chars):
        self._chars = chars

    def chars(self):
        return self._chars

    def lo(self):
        return 1

    def hi(self):
        return None

    def __repr__(self):
        return "<rest>"


class SymMatch(SymObject):
    def __init__(self, subject, units, groups, span, pattern):
        self.subject, self.units, self.groups_, self.span_, self.pattern = subject, units, groups, span, pattern

    def _slice(self, s, e):
        out = []
        for u in self.units[s:e]:
            out.append(Lit(u[1]) if u[0] == "c" else u[1])
        return SStr(out).norm()

    def group(self, *ids):
        if not ids:
            ids = (0,)
        res = []
        for i in ids:
            if isinstance(i, str):
                i = self.pattern.groupindex[i]
            if i == 0:
                res.append(self._slice(*self.span_))
            elif i in self.groups_:
                res.append(self._slice(*self.groups_[i]))
            elif 1 <= i <= self.pattern.groups:
                res.append(None)
            else:
                raise IndexError("no such group")
        return res[0] if len(res) == 1 else tuple(res)

    def groups(self, default=None):
        return tuple(self.group(i) if i in self.groups_ else default for i in range(1, self.pattern.groups + 1))

    def end(self, g=0):
        e = self.span_[1] if g == 0 else self.groups_[g][1]
        return self._offset(e)

    def start(self, g=0):
        s = self.span_[0] if g == 0 else self.groups_[g][0]
        return self._offset(s)

    def _offset(self, upos):
        n = 0
        for u in self.units[:upos]:
            if u[0] == "c":
                n += 1
            elif u[1].lo() == u[1].hi():
                n += u[1].lo()
            else:
                raise Inapplicable("match offset after a variable-length atom")
        return n

    def sym_getattr(self, interp, name):
        if name in ("group", "groups", "end", "start"):
            return getattr(self, name)
        raise Inapplicable(f"match.{name}")

    def __bool__(self):
        return True


class PartialMatch(SymObject):
    """a definite match whose span ends inside a symbolic atom: usable as a truth value only"""

    def sym_getattr(self, interp, name):
        raise Inapplicable(f"match.{name} of a match that ends inside a symbolic atom")

    def __bool__(self):
        return True


def _units(s):
    units = []
    for a in SStr.lift(s).atoms:
        if isinstance(a, Lit):
            units.extend(("c", ch) for ch in a.s)
        else:
            units.append(("a", a))
    return units


def sym_search(pattern, subject, mode="search"):
    """pattern: compiled re.Pattern; subject: str or SStr."""
    if isinstance(subject, str):
        return getattr(pattern, mode)(subject)
    if isinstance(subject, SStr) and subject.concrete() is not None:
        return getattr(pattern, mode)(subject.concrete())
    parsed = sre_parse.parse(pattern.pattern, pattern.flags & ~re.UNICODE if False else pattern.flags)
    items = list(parsed)
    units = _units(subject)
    m = _M(units, pattern.flags, pattern.groups)
    starts = [0] if mode in ("match", "fullmatch") else range(len(units) + 1)
    for st in starts:
        def done(p, g, st=st):
            if mode == "fullmatch" and p != len(units):
                return None
            return (st, p, g)
        r = m.seq(items, 0, st, {}, done)
        if r is not None:
            if getattr(m, "partial", False):
                return PartialMatch()
            return SymMatch(subject, units, r[2], (r[0], r[1]), pattern)
        if mode == "search" and st < len(units) and units[st][0] == "a" and items and items[0] != (C.AT, C.AT_BEGINNING):
            # could a match start at a later character of this atom?  Not if the pattern's first
            # item rejects every character the atom can hold.
            first = items[0]
            ok = False
            if first[0] in _SINGLE and units[st][1].lo() >= 0:
                try:
                    ok = _unit_match(first, units[st], pattern.flags) is False
                except Inapplicable:
                    ok = False
            if not ok:
                raise Inapplicable("regex search would have to start inside a symbolic atom")
        if items and items[0] == (C.AT, C.AT_BEGINNING):
            break
    return None


def install(interp):
    """Route re.* calls and compiled-pattern methods with symbolic subjects through sym_search."""
    ov = interp.overrides

    def mk(mode):
        def f(pattern, string, flags=0):
            return sym_search(re.compile(pattern, flags), string, mode)
        return f
    ov[re.match] = mk("match")
    ov[re.search] = mk("search")
    ov[re.fullmatch] = mk("fullmatch")
    interp.pattern_method = pattern_method


def pattern_method(pat, name, args, kwargs):
    if name in ("search", "match", "fullmatch") and args and isinstance(args[0], SStr):
        return sym_search(pat, args[0], name)
    if name == "sub" and len(args) >= 2 and isinstance(args[1], SStr):
        # only the trivial case: the pattern definitely matches nowhere -> the subject is returned unchanged
        if sym_search(pat, args[1], "search") is None:
            return args[1]
        raise Inapplicable("re.Pattern.sub with a match on a structured string")
    raise Inapplicable(f"re.Pattern.{name} on a structured string")
