"""Path exploration, obligations and solver back ends.

A *case* is a Python callable `run(path)` that builds symbolic inputs, runs the interpreter on the
real function's AST and registers obligations.  It is re-executed once per path: `Path.branch`
replays a prefix of recorded decisions and extends it; unexplored alternatives go to a worklist
(depth-first, re-execution based).  Every obligation is checked against the path condition of the
path on which it was registered: one small solver query per (path, obligation).
"""
import os
import subprocess
import tempfile
import time

import z3

from . import sym
from .sym import Inapplicable, PathEnd

Z3_TIMEOUT_MS = int(os.environ.get("VERIF_Z3_TIMEOUT_MS", "20000"))
BRANCH_TIMEOUT_MS = 2000
BRANCH_TIMEOUT_SHORT_MS = 300
PATH_SOLVER_OPTIONS = dict(kv.split("=") for kv in os.environ.get("VERIF_PATH_SOLVER", "").split(",") if "=" in kv)
PATH_SOLVER_OPTIONS = {k: (int(v) if v.lstrip("-").isdigit() else (v == "true" if v in ("true", "false") else v)) for k, v in PATH_SOLVER_OPTIONS.items()}
MAX_PATHS = int(os.environ.get("VERIF_MAX_PATHS", "4000"))
MAX_EXPLORE_S = float(os.environ.get("VERIF_MAX_EXPLORE_S", "240"))
CVC5 = "/usr/bin/cvc5"


class VC:
    """One verification condition: `assumptions => goal` on one path."""
    __slots__ = ("name", "case", "path_id", "assumptions", "goal", "status", "backend",
                 "time", "model", "note", "kind", "inputs")

    def __init__(self, name, case, path_id, assumptions, goal, kind="post"):
        self.name, self.case, self.path_id = name, case, path_id
        self.assumptions, self.goal, self.kind = list(assumptions), goal, kind
        self.status, self.backend, self.time, self.model, self.note = None, None, 0.0, None, ""
        self.inputs = None


class Path:
    def __init__(self, case, decisions, path_id, fsem="std", solver_options=None):
        self.case = case
        self.decisions = list(decisions)      # replayed prefix
        self.taken = []                        # decisions actually taken (bool / int choice)
        self.pending = []                      # alternative prefixes discovered on this run
        self.pc = []                           # branch conditions (z3 Bool)
        self.facts = []                        # assumptions: witnesses, float model facts, contract pre
        self.vcs = []
        self.path_id = path_id
        self.solver = z3.Solver()
        self.solver.set("timeout", BRANCH_TIMEOUT_MS)
        for k_, v_ in dict(PATH_SOLVER_OPTIONS, **(solver_options or {})).items():
            self.solver.set(k_, v_)
        self._n = 0
        self._short = False
        self.fsem = sym.FloatSem(fsem)
        self.float_facts = []
        self.ghost = {}
        self.notes = []
        self.solver_time = 0.0
        self.outcome = None

    # fresh symbols ---------------------------------------------------------------
    def _name(self, base):
        self._n += 1
        return f"{base}!{self._n}"

    def fresh_int(self, base="i"):
        return z3.Int(self._name(base))

    def fresh_real(self, base="r"):
        return z3.Real(self._name(base))

    def fresh_bool(self, base="b"):
        return z3.Bool(self._name(base))

    # assumptions -----------------------------------------------------------------
    def assume(self, t):
        self.facts.append(t)
        self.solver.add(t)

    def assume_or_end(self, t):
        """Assume t; end the path if it is already inconsistent with the path condition."""
        self.assume(t)
        if self._check() == z3.unsat:
            raise PathEnd("infeasible assumption")

    def _check(self, *extra):
        t0 = time.time()
        r = self.solver.check(*extra)
        dt = time.time() - t0
        self.solver_time += dt
        if r == z3.unknown and dt * 1000 >= BRANCH_TIMEOUT_MS * 0.9 and not self._short:
            # the path solver struggles with this path condition (feasibility checks only prune;
            # obligations are discharged separately): stop spending 2 s per check on this path
            self._short = True
            self.solver.set("timeout", BRANCH_TIMEOUT_SHORT_MS)
        return r

    def entails(self, t):
        """True only if pc /\\ facts |= t was established (unknown counts as False)."""
        s = z3.simplify(t)
        if z3.is_true(s):
            return True
        if z3.is_false(s):
            return False
        return self._check(z3.Not(t)) == z3.unsat

    def feasible(self, t):
        return self._check(t) != z3.unsat

    # branching -------------------------------------------------------------------
    def branch(self, cond):
        cond = z3.simplify(cond)
        if z3.is_true(cond):
            return True
        if z3.is_false(cond):
            return False
        k = len(self.taken)
        if k < len(self.decisions):
            d = self.decisions[k]
        else:
            can_t = self.feasible(cond)
            can_f = self.feasible(z3.Not(cond))
            if can_t and can_f:
                d = True
                self.pending.append(self.taken + [False])
            elif can_t:
                d = True
            elif can_f:
                d = False
            else:
                raise PathEnd("path condition became infeasible")
        self.taken.append(d)
        c = cond if d else z3.Not(cond)
        self.pc.append(c)
        self.solver.add(c)
        return d

    def choose(self, n, label="choice"):
        """Non-deterministic choice among n alternatives (loop rule, case splits inside a run)."""
        k = len(self.taken)
        if k < len(self.decisions):
            d = self.decisions[k]
        else:
            d = 0
            for alt in range(1, n):
                self.pending.append(self.taken + [alt])
        self.taken.append(d)
        return d

    # obligations -----------------------------------------------------------------
    def require(self, name, goal, kind="post"):
        """Register the obligation  pc /\\ facts => goal  on this path."""
        if isinstance(goal, bool):
            goal = z3.BoolVal(goal)
        elif isinstance(goal, sym.SBool):
            goal = goal.t
        vc = VC(name, self.case, self.path_id, self.pc + self.facts, goal, kind)
        self.vcs.append(vc)
        return vc

    def require_then_assume(self, name, goal, kind="side"):
        vc = self.require(name, goal, kind)
        self.assume(vc.goal)
        return vc


# --------------------------------------------------------------------------- exploration

class CaseResult:
    def __init__(self, case):
        self.case = case
        self.paths = 0
        self.vcs = []
        self.inapplicable = []     # (path_id, reason)
        self.inapplicable_inputs = {}      # path_id -> declared inputs of the path that left the subset
        self.outcomes = []         # per path: dict(path_id, outcome, pc, facts, inputs)
        self.errors = []
        self.solver_time = 0.0
        self.truncated = False


def explore(case_name, run, fsem="std", max_paths=None, solver_options=None):
    """Run `run(path)` over all feasible paths.  `run` returns an outcome description."""
    res = CaseResult(case_name)
    work = [[]]
    pid = 0
    limit = max_paths or MAX_PATHS
    t_start = time.time()
    while work:
        decisions = work.pop()
        pid += 1
        if pid > limit or time.time() - t_start > MAX_EXPLORE_S:
            # (path or time budget of one contract exhausted: reported as undecided, never as proved)
            res.truncated = True
            break
        p = Path(case_name, decisions, pid, fsem, solver_options)
        sym.set_cur(p)
        try:
            out = run(p)
            p.outcome = out
            res.outcomes.append({"path": pid, "outcome": out, "pc": list(p.pc), "facts": list(p.facts),
                                 "ghost": dict(p.ghost), "float_ops": len(p.float_facts)})
        except PathEnd:
            p.outcome = "ended"
        except Inapplicable as e:
            res.inapplicable.append((pid, str(e)))
            res.inapplicable_inputs[pid] = dict(p.ghost.get("inputs") or {})
        finally:
            sym.set_cur(None)
        res.paths += 1
        res.vcs.extend(p.vcs)
        res.solver_time += p.solver_time
        work.extend(reversed(p.pending))
    return res


# --------------------------------------------------------------------------- discharge

def _smt2(vc):
    s = z3.Solver()
    for a in vc.assumptions:
        s.add(a)
    s.add(z3.Not(vc.goal))
    return s.to_smt2()


def _z3_check(vc, timeout_ms):
    s = z3.Solver()
    s.set("timeout", timeout_ms)
    for a in vc.assumptions:
        s.add(a)
    s.add(z3.Not(vc.goal))
    r = s.check()
    if r == z3.unsat:
        return "proved", None, ""
    if r == z3.sat:
        return "refuted", s.model(), ""
    return "unknown", None, s.reason_unknown()


def _cvc5_check(vc, timeout_ms):
    if not os.path.exists(CVC5):
        return "unknown", "cvc5 not installed"
    try:
        txt = "(set-logic ALL)\n" + _smt2(vc).replace("seq.nth_i", "seq.nth").replace("seq.nth_u", "seq.nth")
        with tempfile.NamedTemporaryFile("w", suffix=".smt2", delete=False, dir="/var/tmp") as f:
            f.write(txt)
            fn = f.name
        try:
            out = subprocess.run([CVC5, "--tlimit=%d" % timeout_ms, fn], capture_output=True, text=True,
                                 timeout=timeout_ms / 1000 + 20).stdout.strip()
        finally:
            os.unlink(fn)
        if out.startswith("unsat"):
            return "proved", ""
        if out.startswith("sat"):
            return "refuted", "cvc5 sat (no model kept)"
        return "unknown", "cvc5: " + out[:80]
    except Exception as e:          # solver trouble is never a verdict
        return "unknown", f"cvc5: {e}"


def discharge(vc, timeout_ms=None, use_cvc5=True):
    """proved (unsat) / refuted (sat, with model) / unknown.  z3 with a short budget first (almost
    every VC takes milliseconds), then cvc5, then z3 again with the full budget."""
    t0 = time.time()
    full = timeout_ms or Z3_TIMEOUT_MS
    vc.backend = "z3-" + z3.get_version_string()
    note0 = vc.note
    vc.status, vc.model, vc.note = _z3_check(vc, min(5000, full))
    vc.note = (note0 + " " + vc.note).strip()
    if vc.status == "unknown" and use_cvc5:
        st, note = _cvc5_check(vc, full)
        if st == "proved":
            vc.status, vc.backend, vc.note = "proved", "cvc5-1.0.3", ""
        elif st == "refuted":
            # try to obtain a model from z3 for the replay
            st2, model, note2 = _z3_check(vc, full)
            if st2 == "refuted":
                vc.status, vc.model, vc.note = "refuted", model, ""
            else:
                vc.status, vc.backend, vc.note = "refuted", "cvc5-1.0.3", note
        else:
            vc.note += " / " + note
    if vc.status == "unknown" and full > 5000:
        st, model, note = _z3_check(vc, full)
        if st != "unknown":
            vc.status, vc.model, vc.note = st, model, ""
        else:
            vc.note += " / z3: " + note
    vc.time = time.time() - t0
    return vc


def model_value(model, t):
    """Python value of term t in model (int / Fraction / bool)."""
    from fractions import Fraction
    v = model.eval(t, model_completion=True)
    if z3.is_int_value(v):
        return v.as_long()
    if z3.is_rational_value(v):
        return Fraction(v.numerator_as_long(), v.denominator_as_long())
    if z3.is_true(v):
        return True
    if z3.is_false(v):
        return False
    if z3.is_algebraic_value(v):
        a = v.approx(30)
        return Fraction(a.numerator_as_long(), a.denominator_as_long())
    return v
