"""./check front end."""
import argparse
import importlib
import json
import os
import sys
import traceback
import warnings

warnings.filterwarnings("ignore")
VERIF = os.path.dirname(os.path.dirname(os.path.abspath(__file__)))


def setup_repo():
    root = os.path.realpath(os.environ.get("VERIF_REPO", "/repo"))
    sys.path.insert(0, root)          # wins over /venv's editable finder
    import pycaption
    got = os.path.realpath(os.path.dirname(os.path.dirname(pycaption.__file__)))
    if got != root:
        print(f"CHECKER-ERROR pycaption imported from {got}, expected {root}")
        sys.exit(3)
    return root


class MissingFunction:
    """stands for a function / class of the repository that a contract names and that no longer exists under that
    name (renamed or removed by a refactoring): every contract that lists it is undecided, the others run"""

    def __init__(self, where, name):
        self.__name__ = self.__qualname__ = name
        self.where = where

    def __call__(self, *a, **kw):
        from pyvc.sym import Inapplicable
        raise Inapplicable(f"{self.where}.{self.__name__} no longer exists under this name")

    def __getattr__(self, name):
        if name.startswith("__"):
            raise AttributeError(name)
        return MissingFunction(f"{self.where}.{self.__name__}", name)


def _repo_object(o):
    mod = o.__name__ if isinstance(o, type(sys)) else getattr(o, "__module__", "")
    return isinstance(mod, str) and (mod == "pycaption" or mod.startswith("pycaption."))


def _in_props(tb):
    """the exception was raised by a statement of a props module itself (a name of the repository it mentions),
    not inside the engine or inside repository code"""
    last = traceback.extract_tb(tb)[-1]
    return os.path.dirname(os.path.abspath(last.filename)) == os.path.join(VERIF, "props")


def run_property(prop, tier, seed, root, lock_mode=False):
    from pyvc.report import CheckContext, finish
    placed = []
    try:
        for attempt in range(12):
            ctx = CheckContext(prop, tier, seed, root)
            try:
                mod = importlib.import_module(f"props.{prop}")
                mod.run(ctx)
                break
            except AttributeError as e:
                obj, name = getattr(e, "obj", None), getattr(e, "name", None)
                if obj is None or not name or not _repo_object(obj) or not _in_props(e.__traceback__) or attempt == 11:
                    print("CHECKER-ERROR " + traceback.format_exc())
                    return 3
                where = obj.__name__ if hasattr(obj, "__name__") else type(obj).__name__
                setattr(obj, name, MissingFunction(where, name))
                placed.append((obj, name))
            except ImportError as e:
                modname, name = getattr(e, "name", None), getattr(e, "name_from", None)
                if not modname or not name or not (modname == "pycaption" or modname.startswith("pycaption.")) \
                        or modname not in sys.modules or not _in_props(e.__traceback__) or attempt == 11:
                    print("CHECKER-ERROR " + traceback.format_exc())
                    return 3
                setattr(sys.modules[modname], name, MissingFunction(modname, name))
                placed.append((sys.modules[modname], name))
                for k in [k for k in sys.modules if k.startswith("props.")]:
                    del sys.modules[k]          # (a half-imported props module is imported again)
            except Exception:
                print("CHECKER-ERROR " + traceback.format_exc())
                return 3
        return finish(ctx, lock_mode=lock_mode)
    finally:
        for obj, name in placed:
            try:
                delattr(obj, name)
            except Exception:
                pass


def main():
    ap = argparse.ArgumentParser()
    ap.add_argument("prop", nargs="?")
    ap.add_argument("--tier", default=os.environ.get("VERIF_TIER", "quick"), choices=["quick", "thorough"])
    ap.add_argument("--replay")
    ap.add_argument("--relock", action="store_true")
    a = ap.parse_args()
    seed = int(os.environ.get("VERIF_SEED", "0"))
    sys.path.insert(0, VERIF)
    root = setup_repo()
    if a.relock:
        props = [a.prop] if a.prop else sorted(f[:-3] for f in os.listdir(os.path.join(VERIF, "props"))
                                                if f.startswith("C") and f.endswith(".py"))
        path = os.path.join(VERIF, "contracts", "obligations.lock.json")
        try:
            lock = json.load(open(path))
        except FileNotFoundError:
            lock = {}
        for p in props:
            os.environ["VERIF_LOCKING"] = "1"
            names = run_property(p, "quick", seed, root, lock_mode=True)
            if isinstance(names, list):
                lock[p] = names
                print(p, len(names), "obligations locked")
        json.dump(lock, open(path, "w"), indent=1, sort_keys=True)
        return 0
    if a.replay:
        from pyvc.replay import replay_file
        return replay_file(a.replay, root)
    if not a.prop:
        ap.error("property id required")
    return run_property(a.prop, a.tier, seed, root)


if __name__ == "__main__":
    sys.exit(main())
