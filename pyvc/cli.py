"""./check front end."""
import argparse
import importlib
import json
import os
import sys
import traceback
import warnings

warnings.filterwarnings("ignore")
VERIF = os.path.dirname(os.path.dirname(os.path.abspath(__file__)))


def setup_repo():
    root = os.path.realpath(os.environ.get("VERIF_REPO", "/repo"))
    sys.path.insert(0, root)          # wins over /venv's editable finder
    import pycaption
    got = os.path.realpath(os.path.dirname(os.path.dirname(pycaption.__file__)))
    if got != root:
        print(f"CHECKER-ERROR pycaption imported from {got}, expected {root}")
        sys.exit(3)
    return root


def run_property(prop, tier, seed, root, lock_mode=False):
    from pyvc.report import CheckContext, finish
    ctx = CheckContext(prop, tier, seed, root)
    mod = importlib.import_module(f"props.{prop}")
    try:
        mod.run(ctx)
    except Exception:
        print("CHECKER-ERROR " + traceback.format_exc())
        return 3
    return finish(ctx, lock_mode=lock_mode)


def main():
    ap = argparse.ArgumentParser()
    ap.add_argument("prop", nargs="?")
    ap.add_argument("--tier", default=os.environ.get("VERIF_TIER", "quick"), choices=["quick", "thorough"])
    ap.add_argument("--replay")
    ap.add_argument("--relock", action="store_true")
    a = ap.parse_args()
    seed = int(os.environ.get("VERIF_SEED", "0"))
    sys.path.insert(0, VERIF)
    root = setup_repo()
    if a.relock:
        props = [a.prop] if a.prop else sorted(f[:-3] for f in os.listdir(os.path.join(VERIF, "props"))
                                                if f.startswith("C") and f.endswith(".py"))
        path = os.path.join(VERIF, "contracts", "obligations.lock.json")
        try:
            lock = json.load(open(path))
        except FileNotFoundError:
            lock = {}
        for p in props:
            os.environ["VERIF_LOCKING"] = "1"
            names = run_property(p, "quick", seed, root, lock_mode=True)
            if isinstance(names, list):
                lock[p] = names
                print(p, len(names), "obligations locked")
        json.dump(lock, open(path, "w"), indent=1, sort_keys=True)
        return 0
    if a.replay:
        from pyvc.replay import replay_file
        return replay_file(a.replay, root)
    if not a.prop:
        ap.error("property id required")
    return run_property(a.prop, a.tier, seed, root)


if __name__ == "__main__":
    sys.exit(main())
