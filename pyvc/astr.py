"""Abstract strings: an arbitrary str known only through the observations the code makes of it
(uninterpreted features).  Used for totality / dispatch properties over *all* strings (C20)."""
import re

import z3

from .interp import SymObject
from .sym import Inapplicable, SBool, SInt, cur, mkbool

INT, BOOL = z3.IntSort(), z3.BoolSort()


class AStr(SymObject):
    def __init__(self, name, feats=None, kind="root", parent=None):
        self.name, self.kind, self.parent = name, kind, parent
        self.feats = feats if feats is not None else []       # shared list of (descr, z3 term)
        self._cache = {}

    def _feat(self, descr, sort):
        key = (self.name,) + descr
        if key not in self._cache:
            t = z3.Const("·".join(map(str, key)), sort)
            self._cache[key] = t
            self.feats.append((key, t))
        return self._cache[key]

    # observations -----------------------------------------------------------------
    def length(self):
        t = self._feat(("len",), INT)
        cur().assume(t >= 0)
        return SInt(t)

    def contains(self, item):
        if not isinstance(item, str):
            raise Inapplicable("abstract needle")
        if item == "":
            return True
        return SBool(self._feat(("contains", item), BOOL))

    def __eq__(self, o):
        if isinstance(o, str):
            return SBool(self._feat(("eq", o), BOOL))
        if o is self:
            return True
        return False

    def __ne__(self, o):
        r = self == o
        return SBool(z3.Not(r.t)) if isinstance(r, SBool) else (not r)

    def __hash__(self):
        return id(self)

    def sym_getattr(self, interp, name):
        if name == "lower":
            return lambda: AStr(self.name + ".lower", self.feats, "lower", self)
        if name == "splitlines":
            return lambda: ALines(self)
        if name == "isdigit":
            return lambda: SBool(self._feat(("isdigit",), BOOL))
        if name == "strip":
            return lambda *a: AStr(self.name + ".strip", self.feats, "strip", self)
        raise Inapplicable(f"str.{name} on an abstract string")

    def rematch(self, pattern, mode):
        return SBool(self._feat((mode, pattern.pattern), BOOL))

    def __bool__(self):
        return cur().branch(self.length().t > 0)


class ALines(SymObject):
    """s.splitlines(): a list of abstract lines of symbolic length (>= 1 when s is non-empty)"""

    def __init__(self, s):
        self.s = s
        self.n = s._feat(("nlines",), INT)
        p = cur()
        p.assume(self.n >= 0)
        ln = s.length().t
        p.assume(z3.And(z3.Implies(ln > 0, self.n >= 1), z3.Implies(ln == 0, self.n == 0), self.n <= ln))

    def sym_getitem(self, interp, k):
        if not isinstance(k, int):
            raise Inapplicable("symbolic index into abstract lines")
        p = cur()
        inb = (self.n > k) if k >= 0 else (self.n >= -k)
        if not p.branch(inb):
            raise IndexError("list index out of range")
        return AStr(f"{self.s.name}.line[{k}]", self.s.feats, "line", self.s)

    def length(self):
        return SInt(self.n)


def native_features(s, feats_keys):
    """evaluate the recorded observations on a concrete string (for concretising models)"""
    out = {}
    for key in feats_keys:
        name, rest = key[0], key[1:]
        target = s
        ok = True
        # resolve the receiver from its name
        for part in name.split(".")[1:]:
            if part == "lower":
                target = target.lower()
            elif part == "strip":
                target = target.strip()
            elif part.startswith("line["):
                k = int(part[5:-1])
                ls = target.splitlines()
                if -len(ls) <= k < len(ls):
                    target = ls[k]
                else:
                    ok = False
                    break
        if not ok:
            out[key] = None
            continue
        f = rest[0]
        if f == "len":
            out[key] = len(target)
        elif f == "contains":
            out[key] = rest[1] in target
        elif f == "eq":
            out[key] = target == rest[1]
        elif f == "isdigit":
            out[key] = target.isdigit()
        elif f == "nlines":
            out[key] = len(target.splitlines())
        elif f in ("match", "search", "fullmatch"):
            out[key] = getattr(re, f)(rest[1], target) is not None
        else:
            out[key] = None
    return out


def install(interp):
    import builtins
    ov = interp.overrides
    old_len, old_isinstance = ov[builtins.len], ov[builtins.isinstance]

    def b_len(x):
        if isinstance(x, (AStr, ALines)):
            return x.length()
        return old_len(x)

    def b_isinstance(x, t):
        if isinstance(x, AStr):
            ts = t if isinstance(t, tuple) else (t,)
            return any(k in (str, object) for k in ts)
        return old_isinstance(x, t)
    ov[builtins.len], ov[builtins.isinstance] = b_len, b_isinstance
    for mode in ("match", "search", "fullmatch"):
        old = ov[getattr(re, mode)]

        def f(pattern, string, flags=0, old=old, mode=mode):
            if isinstance(string, AStr):
                r = string.rematch(re.compile(pattern, flags), mode)
                return True if cur().branch(r.t) else None
            return old(pattern, string, flags)
        ov[getattr(re, mode)] = f
    old_truth = interp.truth

    def truth(v):
        if isinstance(v, AStr):
            return bool(v)
        return old_truth(v)
    interp.truth = truth
