"""Symbolic heap objects, symbolic lists and the loop-invariant rule.

  SymRef   - an object of a repository class whose identity is a z3 Int and whose fields live in
             per-field arrays  path.heap[(cls, field)] : Array(Int, sort)  (functional updates)
  SymList  - a Python list of unknown length: a z3 Seq of element codes (refs or ints)
  loop_rule- Hoare rule for `for x in <SymList>:`  with a contract-supplied inductive invariant:
             entry obligation, havoc of everything the body may modify, assume the invariant,
             then one path through the body (obligation: invariant preserved) and one exit path.
Invariants are written over the abstraction (prefix index i, fold functions of prefixes, field
arrays), are universal-only, and name as few locals as possible.
"""
import ast
import os
import types

import z3

from . import sym
from .interp import SymObject, SymIterable, _Break, _Continue, Interp
from .sym import Inapplicable, PathEnd, SBool, SInt, SNum, cur, mkbool, zint, zreal

INT = z3.IntSort()
REAL = z3.RealSort()
BOOL = z3.BoolSort()
SEQ = z3.SeqSort(INT)
NONE_REF = -1


class Schema:
    """field kinds of a repository class as seen by the verifier:
    'num' (int-or-float Number), 'float', 'int', 'bool', 'ref:<Class>', 'oref:<Class>' (optional),
    'list:<Class>' (list of refs), 'id' (opaque identity, compared only by ==/is)"""

    def __init__(self, cls, **fields):
        self.cls = cls
        alloc = fields.pop("_alloc", None)
        self.immutable = {f for f, k in fields.items() if k.endswith("!")}
        self.fields = {f: k.rstrip("!") for f, k in fields.items()}
        self.allocatable = bool(self.immutable) if alloc is None else bool(alloc)


SCHEMAS = {}
CUSTOM_KINDS = {}          # kind name -> wrapper(term): contract-supplied views of opaque field values (Int-coded)


def declare(cls, **fields):
    SCHEMAS[cls] = Schema(cls, **fields)
    return SCHEMAS[cls]


def _sort(kind):
    if kind in ("num", "float"):
        return REAL
    if kind == "bool":
        return BOOL
    if kind.startswith("list:"):
        return SEQ
    return INT


def heap_array(p, cls, field):
    key = (cls.__name__, field)
    h = p.ghost.setdefault("heap", {})
    if key not in h:
        h[key] = z3.Const(f"H0.{cls.__name__}.{field}", z3.ArraySort(INT, _sort(SCHEMAS[cls].fields[field])))
        p.ghost.setdefault("heap0", {})[key] = h[key]
    return h[key]


def set_heap_array(p, cls, field, arr):
    heap_array(p, cls, field)
    p.ghost["heap"][(cls.__name__, field)] = arr


def wrap(kind, t, owner=None):
    if kind == "num":
        return SNum(t, "num")
    if kind == "float":
        return SNum(t, "float")
    if kind == "int":
        return sym.mkint(t)
    if kind == "bool":
        return mkbool(t)
    if kind == "obool":
        p = cur()
        if p.branch(t == -1):
            return None
        return bool(p.branch(t == 1))
    if kind.startswith("ref:") or kind.startswith("oref:"):
        cname = kind.split(":", 1)[1]
        cls = next(c for c in SCHEMAS if c.__name__ == cname)
        if kind.startswith("oref:"):
            if cur().branch(t == NONE_REF):
                return None
        return SymRef(cls, t)
    if kind.startswith("list:"):
        cname = kind.split(":", 1)[1]
        cls = next((c for c in SCHEMAS if c.__name__ == cname), None)
        if owner is not None:
            return HeapList(owner[0], owner[1], owner[2], cls)
        return SymList(t, cls)
    if kind == "id":
        return SymId(t)
    if kind == "text":
        return SymText(t)
    if kind in CUSTOM_KINDS:
        return CUSTOM_KINDS[kind](t)
    raise Inapplicable(f"field kind {kind}")


def unwrap(kind, v):
    if kind in ("num", "float"):
        return zreal(v)
    if kind == "int":
        return zint(v)
    if kind == "bool":
        return sym.zbool(v)
    if kind == "obool":                      # None / False / True as -1 / 0 / 1
        if v is None:
            return z3.IntVal(-1)
        if isinstance(v, bool):
            return z3.IntVal(1 if v else 0)
        return z3.If(sym.zbool(v), z3.IntVal(1), z3.IntVal(0))
    if kind.startswith("ref:") or kind.startswith("oref:"):
        if v is None:
            return z3.IntVal(NONE_REF)
        if isinstance(v, SymRef):
            return v.ref
        raise Inapplicable(f"storing {type(v).__name__} into a reference field")
    if kind.startswith("list:"):
        return as_seq(v)
    if kind in CUSTOM_KINDS and hasattr(v, "t"):
        return v.t
    if kind in CUSTOM_KINDS and v is None:
        return z3.IntVal(NONE_REF)
    if kind in ("id", "text"):
        if isinstance(v, SymId):
            return v.t
        if v is None:
            return z3.IntVal(NONE_REF)
        if kind == "text" and isinstance(v, str) and v == "":
            return EMPTY_TEXT
        if kind == "id":
            return cur().fresh_int("obj")       # a concrete object stored into an opaque field: some identity
        raise Inapplicable("storing a concrete object into an opaque field")
    raise Inapplicable(f"field kind {kind}")


class SymId(SymObject):
    """opaque value (a dict, a node list...) known only by identity"""

    def __init__(self, t):
        self.t = t

    def __eq__(self, o):
        return mkbool(self.t == o.t) if isinstance(o, SymId) else False

    def __hash__(self):
        return id(self)


NONEMPTY = z3.Function("text_nonempty", INT, BOOL)
EMPTY_TEXT = z3.IntVal(-2)


class SymText(SymId):
    """an opaque str (or None) known by identity; its truthiness is the uninterpreted predicate
    text_nonempty(id) (None and '' are falsy)"""

    def __bool__(self):
        p = cur()
        if p.branch(z3.Or(self.t == NONE_REF, self.t == EMPTY_TEXT)):
            return False
        return p.branch(NONEMPTY(self.t))

    def __hash__(self):
        return id(self)


class SymRef(SymObject):
    def __init__(self, cls, ref):
        self.cls, self.ref = cls, ref if isinstance(ref, z3.ExprRef) else z3.IntVal(ref)

    def sym_getattr(self, interp, name):
        sch = SCHEMAS[self.cls]
        if name in sch.fields:
            return wrap(sch.fields[name], z3.Select(heap_array(cur(), self.cls, name), self.ref),
                        owner=(self.cls, name, self.ref))
        if name == "__class__":
            return self.cls
        for klass in self.cls.__mro__:
            if name in klass.__dict__:
                d = klass.__dict__[name]
                if isinstance(d, types.FunctionType):
                    return types.MethodType(d, self)
                if isinstance(d, staticmethod):
                    return d.__func__
                if isinstance(d, classmethod):
                    return types.MethodType(d.__func__, self.cls)
                if isinstance(d, property):
                    return interp.call_function(d.fget, (self,), {})
                return d
        raise AttributeError(f"{self.cls.__name__} object has no attribute {name!r}")

    def __getattr__(self, name):
        # contract code reads fields with plain attribute syntax
        if name in ("cls", "ref"):
            raise AttributeError(name)
        if name in SCHEMAS[self.cls].fields:
            return self.sym_getattr(None, name)
        raise AttributeError(name)

    def sym_setattr(self, interp, name, value):
        sch = SCHEMAS[self.cls]
        if name not in sch.fields:
            raise Inapplicable(f"store to undeclared field {self.cls.__name__}.{name}")
        p = cur()
        arr = heap_array(p, self.cls, name)
        if name in sch.immutable:
            # a field that only __init__ assigns: the array is never updated.  Initialising the
            # field of a freshly allocated object *chooses* the object among the unallocated
            # identities whose (so far unconstrained) content is the value; vacuity is excluded by
            # a satisfiability check.
            if self.ref.get_id() not in p.ghost.get("constructing", set()):
                raise Inapplicable(f"store to {self.cls.__name__}.{name} outside the constructor")
            p.assume(z3.Select(arr, self.ref) == unwrap(sch.fields[name], value))
            if p.entails(z3.BoolVal(False)):
                raise Inapplicable("allocation assumption is inconsistent with the path condition")
            return
        set_heap_array(p, self.cls, name, z3.Store(arr, self.ref, unwrap(sch.fields[name], value)))
        p.ghost.setdefault("stores", []).append((self.cls.__name__, name))

    def __eq__(self, o):
        if isinstance(o, SymRef):
            return mkbool(self.ref == o.ref)
        return False

    def __ne__(self, o):
        return sym.snot(self == o)

    def __hash__(self):
        return id(self)

    def __bool__(self):
        return True

    def __repr__(self):
        return f"<{self.cls.__name__}@{self.ref}>"


def as_seq(v):
    if isinstance(v, SymList):
        return v.t
    if isinstance(v, (list, tuple)):
        parts = []
        for x in v:
            if isinstance(x, SymRef):
                parts.append(z3.Unit(x.ref))
            elif isinstance(x, (int, SInt)) and not isinstance(x, bool):
                parts.append(z3.Unit(zint(x)))
            else:
                raise Inapplicable(f"list element {type(x).__name__} has no code")
        if not parts:
            return z3.Empty(SEQ)
        return parts[0] if len(parts) == 1 else z3.Concat(*parts)
    raise Inapplicable(f"not a list: {type(v).__name__}")


def _unit_elem(unit):
    """the element term of a z3 Unit(...) sequence"""
    return unit.arg(0)


class SymList(SymIterable):
    """list of unknown length; elements are refs of `cls` (or ints when cls is None)"""

    def __init__(self, t, cls=None, attrs=None, rev=False):
        self.t, self.cls = t, cls
        self.attrs = attrs or {}
        self.rev = rev            # iteration order reversed (reversed(list)); the z3 Seq is in list order

    def length(self):
        return sym.mkint(z3.Length(self.t))

    def zlen(self):
        return z3.Length(self.t)

    def elem(self, i):
        idx = (z3.Length(self.t) - 1 - zint(i)) if self.rev else zint(i)
        e = self.t[idx]
        if self.cls is not None:
            cur().assume(e >= 0)          # object identities are non-negative (NONE_REF = -1 is None)
            return SymRef(self.cls, e)
        return sym.mkint(e)

    def reversed(self):
        return SymList(self.t, self.cls, self.attrs, not self.rev)

    def append(self, x):
        one = as_seq([x])
        cur().ghost.setdefault("appends", []).append((self.t, _unit_elem(one)))
        self.t = z3.Concat(self.t, one)

    def extend(self, xs):
        if isinstance(xs, (list, tuple)):
            for x in xs:
                self.append(x)
            return
        self.t = z3.Concat(self.t, as_seq(xs))

    def sym_getattr(self, interp, name):
        if name in ("append", "extend"):
            return getattr(self, name)
        if name in self.attrs:
            return self.attrs[name]
        raise Inapplicable(f"list.{name} on a symbolic list")

    def sym_setattr(self, interp, name, value):
        self.attrs[name] = value

    def sym_getitem(self, interp, k):
        if isinstance(k, slice):
            if k.start is None and k.stop is None and isinstance(k.step, int) and k.step == -1:
                return self.reversed()            # lst[::-1]: the same elements in reverse order
            if k.step is not None:
                raise Inapplicable("slice step on a symbolic list")
            lo = z3.IntVal(0) if k.start is None else zint(k.start)
            n = z3.Length(self.t)
            if k.stop is None:
                p = cur()
                if not p.entails(z3.And(lo >= 0, lo <= n)):
                    if not p.entails(lo >= 0):
                        raise Inapplicable("negative slice bound on a symbolic list")
                    # Python clamps the start at len: branch
                    if p.branch(lo > n):
                        return SymList(z3.Empty(SEQ), self.cls)
                return SymList(z3.SubSeq(self.t, lo, n - lo), self.cls)
            raise Inapplicable("bounded slice of a symbolic list")
        p = cur()
        idx = zint(k)
        n = z3.Length(self.t)
        if isinstance(k, int) and k < 0:
            idx = n + k
        if not p.branch(z3.And(idx >= 0, idx < n)):
            raise IndexError("list index out of range")
        return self.elem(sym.mkint(idx))

    def sym_setitem(self, interp, k, v):
        """lst[k] = v  (k an index, possibly negative literal): the spine with position k replaced"""
        if isinstance(k, slice) or self.rev:
            raise Inapplicable("slice / reversed store on a symbolic list")
        p = cur()
        n = z3.Length(self.t)
        idx = zint(k)
        if isinstance(k, int) and k < 0:
            idx = n + k
        if not p.branch(z3.And(idx >= 0, idx < n)):
            raise IndexError("list assignment index out of range")
        head = z3.SubSeq(self.t, 0, idx)
        one = as_seq([v])
        p.ghost.setdefault("appends", []).append((head, _unit_elem(one)))
        p.ghost.setdefault("replaced", []).append((self.t, idx))
        tail = z3.SubSeq(self.t, idx + 1, n - idx - 1)
        self.t = z3.Concat(head, one) if (isinstance(k, int) and k == -1) else z3.Concat(head, one, tail)

    def __bool__(self):
        return cur().branch(z3.Length(self.t) > 0)

    def __len__(self):
        raise Inapplicable("len() of a symbolic list outside the interpreter")


class SymRecordList(SymIterable):
    """a list of fixed-shape records (tuples) of unknown but fixed length n: one z3 array per
    component, index stores allowed (the spine is never resized).  The contract supplies how a record
    is read from / written to the arrays:  read(arrays, k) -> Python value,  write(arrays, k, value)
    -> new arrays.  Iteration reads the CURRENT arrays (a list mutated while iterated)."""

    def __init__(self, n, arrays, read, write, sorts):
        self.n, self.arrays, self.read, self.write, self.sorts = n, dict(arrays), read, write, sorts

    def zlen(self):
        return self.n

    def length(self):
        return sym.mkint(self.n)

    def elem(self, i):
        return self.read(self.arrays, zint(i))

    def _index(self, k):
        p = cur()
        idx = zint(k)
        if isinstance(k, int) and k < 0:
            idx = self.n + k
        elif not isinstance(k, int):
            # Python's negative indices: decide the sign first
            if not p.entails(idx >= 0):
                if p.branch(idx < 0):
                    idx = self.n + idx
        if not p.branch(z3.And(idx >= 0, idx < self.n)):
            raise IndexError("list index out of range")
        return idx

    def sym_getitem(self, interp, k):
        if isinstance(k, slice):
            raise Inapplicable("slice of a symbolic record list")
        return self.read(self.arrays, self._index(k))

    def sym_setitem(self, interp, k, v):
        if isinstance(k, slice):
            raise Inapplicable("slice store on a symbolic record list")
        self.arrays = self.write(self.arrays, self._index(k), v)

    def havoc(self, p, name="rec"):
        """all components unknown (in place: iteration in progress sees the new contents)"""
        self.arrays = {c: z3.Const(p._name(f"{name}.{c}"), z3.ArraySort(INT, self.sorts[c])) for c in self.arrays}
        return self

    def sym_getattr(self, interp, name):
        raise Inapplicable(f"list.{name} on a symbolic record list (fixed spine)")

    def __bool__(self):
        return cur().branch(self.n > 0)


class SymEnumerate(SymIterable):
    """enumerate(<symbolic list>)"""

    def __init__(self, inner, start=0):
        self.inner, self.start = inner, start

    def zlen(self):
        return self.inner.zlen()

    def elem(self, i):
        return (sym.mkint(zint(i) + self.start) if self.start else i, self.inner.elem(i))


class HeapList(SymList):
    """the list held by a field of a heap object: reads see the current heap, append / extend / index
    stores write through to it"""

    def __init__(self, owner_cls, field, ref, cls):
        self._owner, self._field, self._ref = owner_cls, field, ref
        self.cls, self.attrs, self.rev = cls, {}, False

    @property
    def t(self):
        return z3.Select(heap_array(cur(), self._owner, self._field), self._ref)

    @t.setter
    def t(self, value):
        p = cur()
        set_heap_array(p, self._owner, self._field, z3.Store(heap_array(p, self._owner, self._field), self._ref, value))
        p.ghost.setdefault("stores", []).append((self._owner.__name__, self._field))


def install(interp):
    """builtin overrides aware of SymRef / SymList"""
    ov = interp.overrides
    import builtins
    old_len, old_isinstance, old_bool = ov[builtins.len], ov[builtins.isinstance], ov[builtins.bool]

    def b_len(x):
        return x.length() if isinstance(x, (SymList, SymRecordList)) else old_len(x)

    def b_enumerate(x, start=0):
        if isinstance(x, (SymList, SymRecordList)):
            if isinstance(x, SymList) and x.rev:
                raise Inapplicable("enumerate(reversed(<symbolic list>))")
            return SymEnumerate(x, start)
        return enumerate(x, start)
    ov[builtins.enumerate] = b_enumerate

    def b_isinstance(x, t):
        if isinstance(x, SymRef):
            ts = t if isinstance(t, tuple) else (t,)
            return any(isinstance(k, type) and issubclass(x.cls, k) for k in ts)
        if isinstance(x, SymList):
            ts = t if isinstance(t, tuple) else (t,)
            return any(k in (list, object) for k in ts)
        return old_isinstance(x, t)

    ov[builtins.len], ov[builtins.isinstance] = b_len, b_isinstance

    def b_reversed(x):
        return x.reversed() if isinstance(x, SymList) else reversed(x)
    ov[builtins.reversed] = b_reversed

    def b_list(*a):
        if a and isinstance(a[0], SymList):
            return SymList(a[0].t, a[0].cls)          # a copy: same elements, independent spine
        return list(*a)
    ov[builtins.list] = b_list
    old_truth = interp.truth

    def truth(v):
        if isinstance(v, (SymList, SymRecordList)):
            return bool(v)
        if isinstance(v, SymRef):
            # an object is truthy unless its class says otherwise (__bool__ / __len__ anywhere below object)
            for k in getattr(v.cls, "__mro__", ()):
                if k is not object and ("__bool__" in k.__dict__ or "__len__" in k.__dict__):
                    raise Inapplicable(f"truthiness of a symbolic {v.cls.__name__} goes through {k.__name__}.__bool__ / __len__")
            return True
        return old_truth(v)
    interp.truth = truth
    old_inst = interp.instantiate

    def instantiate(cls, args, kwargs):
        # list subclasses built from a symbolic list stay symbolic (CaptionList(symlist, layout_info=..))
        if isinstance(cls, type) and issubclass(cls, list) and args and isinstance(args[0], SymList):
            return SymList(args[0].t, args[0].cls, dict(kwargs))
        sch = SCHEMAS.get(cls)
        if sch is not None and sch.allocatable and cur().ghost.get("symbolic_heap"):
            return allocate(interp, cls, args, kwargs)
        return old_inst(cls, args, kwargs)
    interp.instantiate = instantiate


def allocate(interp, cls, args, kwargs):
    """cls(*args, **kwargs) on the symbolic heap: a fresh identity (distinct from every identity
    allocated before on this path and not below the allocation base), then the REAL __init__ is
    interpreted on it."""
    p = cur()
    ptr = alloc_ptr(p)
    r = p.fresh_int(f"new_{cls.__name__}")
    p.assume(r == ptr)
    p.ghost["alloc_ptr"] = ptr + 1
    ref = SymRef(cls, r)
    p.ghost.setdefault("constructing", set()).add(r.get_id())
    try:
        init = next(k_.__dict__["__init__"] for k_ in cls.__mro__ if "__init__" in k_.__dict__)
        interp.call_function(init, (ref,) + tuple(args), kwargs)
    finally:
        p.ghost["constructing"].discard(r.get_id())
    return ref


ALLOC_BASE = z3.Int("alloc_base")


def alloc_ptr(p):
    """the next free identity on this path: every identity handed out so far is below it, identities of the
    inputs are below ALLOC_BASE when the contract says so"""
    if "alloc_ptr" not in p.ghost:
        p.assume(ALLOC_BASE >= 0)
        p.ghost["alloc_ptr"] = ALLOC_BASE
    return p.ghost["alloc_ptr"]


# --------------------------------------------------------------------------------------------- loops

class LoopState:
    """what an invariant may talk about"""

    def __init__(self, i, n, seq, frame, path, entry_locals, entry_heap, havoc_locals=None, successor=False):
        self.i, self.n, self.seq = i, n, seq
        self.frame, self.p = frame, path
        self.entry_locals, self.entry_heap = entry_locals, entry_heap
        self.havoc_locals = havoc_locals          # values of the modified locals right after the havoc
        self.i_is_successor = successor           # this state is "after one more iteration" (index i-1 was just processed)

    @property
    def alloc_ptr(self):
        return alloc_ptr(self.p)

    def local(self, name):
        return self.frame.locals.get(name)

    def entry_local(self, name):
        return self.entry_locals.get(name)

    def field(self, cls, f):
        return heap_array(self.p, cls, f)

    def entry_field(self, cls, f):
        return self.entry_heap.get((cls.__name__, f), heap_array(self.p, cls, f))

    def pre_field(self, cls, f):
        """the field array at function entry"""
        heap_array(self.p, cls, f)
        return self.p.ghost["heap0"][(cls.__name__, f)]


def assigned_names(body):
    names = set()
    for node in ast.walk(ast.Module(body=body, type_ignores=[])):
        if isinstance(node, ast.Name) and isinstance(node.ctx, ast.Store):
            names.add(node.id)
    return names


def mutated_names(body):
    """names whose object the body mutates in place: subscript stores / deletes and calls of mutating
    methods on a plain name"""
    out = set()
    from .frames import MUTATORS
    for node in ast.walk(ast.Module(body=body, type_ignores=[])):
        if isinstance(node, ast.Subscript) and isinstance(node.ctx, (ast.Store, ast.Del)) and isinstance(node.value, ast.Name):
            out.add(node.value.id)
        if isinstance(node, ast.Call) and isinstance(node.func, ast.Attribute) and node.func.attr in MUTATORS \
                and isinstance(node.func.value, ast.Name):
            out.add(node.func.value.id)
        if isinstance(node, ast.AugAssign) and isinstance(node.target, ast.Subscript) and isinstance(node.target.value, ast.Name):
            out.add(node.target.value.id)
    return out


def stored_fields(body):
    out = set()
    for node in ast.walk(ast.Module(body=body, type_ignores=[])):
        if isinstance(node, ast.Attribute) and isinstance(node.ctx, ast.Store):
            out.add(node.attr)
    return out


def fresh_like(p, name, kind, cls=None):
    if kind == "seq":
        return SymList(z3.Const(p._name(name), SEQ), cls)
    if kind == "oref":
        t = p.fresh_int(name)
        p.ghost.setdefault("havoc_terms", {})[name] = t
        return ("oref", t)
    if kind == "int":
        return SInt(p.fresh_int(name))
    if kind == "bool":
        return SBool(p.fresh_bool(name))
    if kind == "obool":            # None / True / False as an int code -1 / 1 / 0
        return ("obool", p.fresh_int(name))
    raise Inapplicable(f"havoc kind {kind}")


def loop_rule(name, inv, locals_=None, fields=(), elem_cls=None, reverse=False):
    """Build the loop hook.  inv(S: LoopState) -> z3 Bool (or a list of named (label, Bool)).
    locals_: {name: (kind, cls)} of the variables the body modifies (kinds: 'seq', 'ref', 'oref',
    'int', 'bool'); fields: [(cls, field)] the body may store to.  Any other name assigned or field
    stored in the loop body makes the rule inapplicable (undecided), never unsound."""
    locals_ = locals_ or {}

    def conj(x):
        if isinstance(x, (list, tuple)):
            return z3.And(*[sym.zbool(b) for _, b in x]) if x else z3.BoolVal(True)
        return sym.zbool(x)

    def items(x):
        return x if isinstance(x, (list, tuple)) else [("inv", x)]

    def hook(interp, node, frame, itv):
        p = cur()
        if isinstance(itv, (list, tuple)) and not isinstance(itv, SymList):
            return NotImplemented          # concrete spine: plain unrolling
        if not hasattr(itv, "zlen"):
            raise Inapplicable(f"{name}: loop over {type(itv).__name__}")
        # containers the body mutates through a name (x[i] = .., x.append(..)) must be declared too
        for nm in mutated_names(node.body):
            if nm not in locals_ and nm not in {n.id for n in ast.walk(node.target) if isinstance(n, ast.Name)}:
                raise Inapplicable(f"{name}: loop body mutates {nm!r}, not covered by the loop contract")
        # everything the body writes must be declared
        targets = assigned_names([ast.Expr(value=ast.Constant(value=0))] + node.body)
        tnames = {n.id for n in ast.walk(node.target) if isinstance(n, ast.Name)}
        undeclared = targets - set(locals_) - tnames
        # a name that does not exist before the loop is a temporary of the body: not live across iterations
        # (dropped at the loop head; reading it before it is assigned in an iteration stops the run)
        temporaries = {nm for nm in undeclared if nm not in frame.locals}
        undeclared -= temporaries
        if undeclared:
            raise Inapplicable(f"{name}: loop body assigns {sorted(undeclared)}, not covered by the loop contract")
        sf = stored_fields(node.body) - {f for _, f in fields}
        if sf:
            raise Inapplicable(f"{name}: loop body stores to fields {sorted(sf)}, not covered by the loop contract")
        seq = itv
        n = seq.zlen()
        entry_locals = dict(frame.locals)
        entry_heap = dict(p.ghost.get("heap", {}))
        S0 = LoopState(z3.IntVal(0), n, seq, frame, p, entry_locals, entry_heap)
        for label, b in items(inv(S0)):
            p.require(f"{name}/{label}/holds_on_entry", sym.zbool(b), kind="loop")
        # havoc
        for v, (kind, cls) in locals_.items():
            if kind == "ref":
                frame.locals[v] = SymRef(cls, p.fresh_int(v))
            elif kind == "oref":
                t = p.fresh_int(v)
                frame.locals[v] = OptRef(cls, t)
            elif kind == "obool":
                frame.locals[v] = OptBool(p.fresh_int(v))
            elif kind == "skip":
                frame.locals.pop(v, None)      # a temporary: not live across iterations
            elif kind == "custom":
                frame.locals[v] = cls(p, v)    # contract-supplied havoc
            else:
                frame.locals[v] = fresh_like(p, v, kind, cls)
        for cls, f in fields:
            set_heap_array(p, cls, f, z3.Const(p._name(f"H.{cls.__name__}.{f}"),
                                              z3.ArraySort(INT, _sort(SCHEMAS[cls].fields[f]))))
        if p.ghost.get("symbolic_heap"):
            # objects may have been allocated by earlier iterations
            old_ptr = alloc_ptr(p)
            new_ptr = p.fresh_int("alloc_ptr")
            p.assume(new_ptr >= old_ptr)
            p.ghost["alloc_ptr"] = new_ptr
        i = p.fresh_int("i")
        p.assume(z3.And(i >= 0, i <= n))
        # materialise optional locals (None or object) before assuming the invariant
        for v, (kind, cls) in locals_.items():
            val = frame.locals.get(v)
            if isinstance(val, (OptRef, OptBool)):
                val.bind(frame, v)
        havoc_locals = {v: (SymList(frame.locals[v].t, frame.locals[v].cls) if isinstance(frame.locals.get(v), SymList)
                            else frame.locals.get(v)) for v in locals_}
        S = LoopState(i, n, seq, frame, p, entry_locals, entry_heap, havoc_locals)
        p.assume_or_end(conj(inv(S)))
        p.ghost.setdefault("loop_index", {})[name] = i        # (nested loop contracts may refer to it)
        which = p.choose(2, name)
        if which == 0:
            p.assume_or_end(i < n)
            idx = (n - 1 - i) if reverse else i
            interp.assign(node.target, seq.elem(sym.mkint(idx)), frame)
            n_stores = len(p.ghost.get("stores", []))
            try:
                interp.block(node.body, frame)
            except _Continue:
                pass
            except _Break:
                return None                # leaves the loop with the current state
            # fields stored during the body - also by the functions it calls - must be covered by the contract
            declared = {(c_.__name__, f_) for c_, f_ in fields}
            extra = sorted({st for st in p.ghost.get("stores", [])[n_stores:] if st not in declared})
            if extra:
                raise Inapplicable(f"{name}: the loop body stores to {extra}, not covered by the loop contract")
            S1 = LoopState(i + 1, n, seq, frame, p, entry_locals, entry_heap, havoc_locals, True)
            for label, b in items(inv(S1)):
                p.require(f"{name}/{label}/preserved", sym.zbool(b), kind="loop")
            raise PathEnd("end of loop body path")
        p.assume_or_end(i == n)
        interp.block(node.orelse, frame)
        return None
    return hook


class OptRef:
    """a havoced local that is None or a reference: decided by a branch when the loop rule binds it"""

    def __init__(self, cls, t):
        self.cls, self.t = cls, t

    def bind(self, frame, name):
        p = cur()
        p.ghost.setdefault("optcodes", {})[name] = self.t
        if p.branch(self.t == NONE_REF):
            frame.locals[name] = None
        else:
            frame.locals[name] = SymRef(self.cls, self.t)


class OptBool:
    """None / False / True as the code -1 / 0 / 1"""

    def __init__(self, t):
        self.t = t

    def bind(self, frame, name):
        p = cur()
        p.assume(z3.And(self.t >= -1, self.t <= 1))
        p.ghost.setdefault("optcodes", {})[name] = self.t
        if p.branch(self.t == -1):
            frame.locals[name] = None
        elif p.branch(self.t == 1):
            frame.locals[name] = True
        else:
            frame.locals[name] = False


def code_of(v):
    """int code of an optional local for use in invariants"""
    if v is None:
        return z3.IntVal(-1)
    if v is True:
        return z3.IntVal(1)
    if v is False:
        return z3.IntVal(0)
    if isinstance(v, SymRef):
        return v.ref
    if isinstance(v, SBool):
        return z3.If(v.t, z3.IntVal(1), z3.IntVal(0))
    raise Inapplicable(f"no code for {v!r}")


# --------------------------------------------------------------------------------------------- dicts

class SymDefaultDictOfLists(SymObject):
    """collections.defaultdict(list) with symbolic (int-coded) keys: an array key -> z3 Seq, plus the
    sequence of distinct keys in insertion order (ghost, for iteration / emptiness)."""

    def __init__(self, arr=None, present=None):
        self.arr = arr if arr is not None else z3.K(INT, z3.Empty(SEQ))
        self.present = present if present is not None else z3.K(INT, False)

    def sym_getitem(self, interp, k):
        kc = key_code(k)
        self.present = z3.Store(self.present, kc, True)      # a defaultdict inserts on access
        return DictSlot(self, kc)

    def sym_setitem(self, interp, k, v):
        self.arr = z3.Store(self.arr, key_code(k), as_seq(v))
        self.present = z3.Store(self.present, key_code(k), True)

    def contains(self, k):
        return mkbool(z3.Select(self.present, key_code(k)))

    def sym_getattr(self, interp, name):
        raise Inapplicable(f"defaultdict.{name} on the symbolic model")


class DictSlot(SymObject):
    """d[k] of a SymDefaultDictOfLists: list operations write through to the array"""

    def __init__(self, d, k):
        self.d, self.k = d, k

    def _get(self):
        return z3.Select(self.d.arr, self.k)

    def extend(self, xs):
        self.d.arr = z3.Store(self.d.arr, self.k, z3.Concat(self._get(), as_seq(xs)))

    def append(self, x):
        self.d.arr = z3.Store(self.d.arr, self.k, z3.Concat(self._get(), as_seq([x])))

    def sym_getattr(self, interp, name):
        if name in ("extend", "append"):
            return getattr(self, name)
        raise Inapplicable(f"list.{name} on a dict slot")


class SymKey(SymObject):
    """an opaque hashable key (e.g. a formatted time string) known by an int code"""

    def __init__(self, t):
        self.t = t

    def __eq__(self, o):
        return mkbool(self.t == o.t) if isinstance(o, SymKey) else False

    def __hash__(self):
        return id(self)


def key_code(k):
    if isinstance(k, SymKey):
        return k.t
    if isinstance(k, (int, SInt)) and not isinstance(k, bool):
        return zint(k)
    raise Inapplicable(f"dict key {type(k).__name__} has no code")
