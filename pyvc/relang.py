"""Compiled Python regular expression -> z3 regular language (for language-level obligations:
equivalence / inclusion against a grammar written from the format specification)."""
import re
try:
    import re._parser as sre_parse
    import re._constants as C
except ImportError:      # pragma: no cover
    import sre_parse
    import sre_constants as C

import z3

from .sym import Inapplicable

S = z3.StringSort()


def chars(cs):
    cs = sorted(set(cs))
    if not cs:
        return z3.Empty(z3.ReSort(S))
    parts = [z3.Re(ch) for ch in cs]
    return parts[0] if len(parts) == 1 else z3.Union(*parts)


def _set(av, alphabet):
    neg = False
    acc = set()
    for o, a in av:
        if o == C.NEGATE:
            neg = True
        elif o == C.LITERAL:
            acc.add(chr(a))
        elif o == C.RANGE:
            acc |= {ch for ch in alphabet if a[0] <= ord(ch) <= a[1]}
        elif o == C.CATEGORY:
            acc |= {ch for ch in alphabet if _cat(a, ch)}
        else:
            raise Inapplicable(f"regex set item {o}")
    return (set(alphabet) - acc) if neg else (acc & set(alphabet))


def _cat(cat, ch):
    if cat == C.CATEGORY_DIGIT:
        return ch.isdigit()
    if cat == C.CATEGORY_NOT_DIGIT:
        return not ch.isdigit()
    if cat == C.CATEGORY_SPACE:
        return ch.isspace()
    if cat == C.CATEGORY_NOT_SPACE:
        return not ch.isspace()
    if cat == C.CATEGORY_WORD:
        return ch.isalnum() or ch == "_"
    if cat == C.CATEGORY_NOT_WORD:
        return not (ch.isalnum() or ch == "_")
    raise Inapplicable(f"category {cat}")


def to_re(pattern, alphabet, mode="fullmatch"):
    """z3 Re of the strings over `alphabet` on which pattern.<mode>() succeeds.  Anchors ^ / $ are
    accepted only at the ends ($ is end-of-string: the alphabet must not contain a newline)."""
    if "\n" in alphabet:
        raise Inapplicable("alphabet with newline: '$' would also match before a final newline")
    parsed = list(sre_parse.parse(pattern.pattern, pattern.flags))
    anchored_l = bool(parsed) and parsed[0] == (C.AT, C.AT_BEGINNING)
    anchored_r = bool(parsed) and parsed[-1] == (C.AT, C.AT_END)
    body = parsed[1 if anchored_l else 0: len(parsed) - (1 if anchored_r else 0)]
    everything = z3.Star(chars(alphabet))
    icase = bool(pattern.flags & re.IGNORECASE)
    wide = "".join(sorted(set(alphabet) | {c_.lower() for c_ in alphabet} | {c_.upper() for c_ in alphabet}))

    def fold(pred):
        """the characters of the alphabet accepted by a one-character test, case-insensitively when the pattern says so"""
        if not icase:
            return {ch for ch in alphabet if pred(ch)}
        return {ch for ch in alphabet if pred(ch) or pred(ch.lower()) or pred(ch.upper())}

    def seq(items):
        parts = [one(it) for it in items]
        if not parts:
            return z3.Re("")
        return parts[0] if len(parts) == 1 else z3.Concat(*parts)

    def one(it):
        op, av = it
        if op == C.LITERAL:
            if icase:
                return chars(fold(lambda ch: ch == chr(av)))
            return z3.Re(chr(av)) if chr(av) in alphabet else z3.Empty(z3.ReSort(S))
        if op == C.NOT_LITERAL:
            return chars(set(alphabet) - fold(lambda ch: ch == chr(av)))
        if op == C.ANY:
            return chars(alphabet)
        if op == C.IN:
            if icase:
                inset = _set(av, wide)
                return chars(fold(lambda ch: ch in inset))
            return chars(_set(av, alphabet))
        if op == C.CATEGORY:
            return chars({ch for ch in alphabet if _cat(av, ch)})
        if op == C.SUBPATTERN:
            return seq(list(av[3]))
        if op == C.BRANCH:
            alts = [seq(list(a)) for a in av[1]]
            return alts[0] if len(alts) == 1 else z3.Union(*alts)
        if op in (C.MAX_REPEAT, C.MIN_REPEAT):
            lo, hi, sub = av
            r = seq(list(sub))
            if hi == C.MAXREPEAT:
                if lo == 0:
                    return z3.Star(r)
                if lo == 1:
                    return z3.Plus(r)
                return z3.Concat(*([r] * lo + [z3.Star(r)]))
            return z3.Loop(r, lo, hi)
        if op == C.AT:
            raise Inapplicable("anchor inside the pattern")
        raise Inapplicable(f"regex construct {op}")

    r = seq(body)
    if mode == "fullmatch":
        return r
    if mode == "match":
        return r if anchored_r else z3.Concat(r, everything)
    left = r if anchored_l else z3.Concat(everything, r)
    return left if anchored_r else z3.Concat(left, everything)


def equivalent(re_a, re_b, timeout_ms=20000):
    """(status, witness): status 'proved' if the languages are equal, 'refuted' with a string in
    exactly one of them, else 'unknown'."""
    s = z3.String("s")
    sol = z3.Solver()
    sol.set("timeout", timeout_ms)
    sol.add(z3.Xor(z3.InRe(s, re_a), z3.InRe(s, re_b)))
    r = sol.check()
    if r == z3.unsat:
        return "proved", None
    if r == z3.sat:
        return "refuted", sol.model()[s].as_string()
    return "unknown", sol.reason_unknown()


def included(re_a, re_b, timeout_ms=20000):
    s = z3.String("s")
    sol = z3.Solver()
    sol.set("timeout", timeout_ms)
    sol.add(z3.InRe(s, re_a), z3.Not(z3.InRe(s, re_b)))
    r = sol.check()
    if r == z3.unsat:
        return "proved", None
    if r == z3.sat:
        return "refuted", sol.model()[s].as_string()
    return "unknown", sol.reason_unknown()
